"""C18 — navigation and metadata: bookmark tree, outlines, link resolution, rectangles, dates."""
import itertools
from fractions import Fraction
from types import SimpleNamespace

from extract import c18_meta_keys, w3c_date
from harness import c18_attach as A
from harness import c18_docs as D
from harness import c18_gen as G
from harness import c18_linkattr as L
from harness import docs
from vlib import sx
from vlib.framework import PropCheck

F = Fraction
esc = G.esc


# ------------------------------------------------------------------ direct calls: bookmark tree

def run_real_pbt(init, pages):
    """Call the real make_page_bookmark_tree page after page from the given initial state.

    init = (skipped_levels, previous_level, n_lists); pages = [(page_number, matrix6, bookmarks)].
    """
    from weasyprint.anchors import make_page_bookmark_tree
    skipped, previous_level, n_lists = list(init[0]), init[1], init[2]
    root, last_by_depth = G.dummy_last_by_depth(n_lists)
    for page_number, matrix, bookmarks in pages:
        previous_level = make_page_bookmark_tree(
            G.stub_page([(lvl, lab, (x, y), st) for lvl, lab, x, y, st in bookmarks]),
            skipped, last_by_depth, previous_level, page_number, G.real_matrix(matrix))
    return (sx.dumps(G.tree_wire(root)) + ' ' + sx.dumps(skipped) + ' ' + sx.atom(previous_level) + ' ' +
            sx.atom(len(last_by_depth)))


def pbt_line(init, pages):
    return sx.line('pbt', list(init[0]), init[1], init[2],
                   [[n, list(m), [[lvl, esc(lab), x, y, esc(st)] for lvl, lab, x, y, st in bms]]
                    for n, m, bms in pages])


def gen_bookmarks(rng, n, adversarial=False):
    levels = G.rand_levels(rng, n, max_level=rng.choice([3, 6, 6, 9]))
    out = []
    for i, level in enumerate(levels):
        if adversarial and rng.random() < 0.15:
            level = G.adversarial_level(rng)
        label = f'b{i}' if rng.random() < 0.9 else rng.choice(['', 'a b', 'é(x)', '%e'])
        out.append((level, label, G.dyadic(rng), G.dyadic(rng), G.rand_state(rng, adversarial)))
    return out


def consistent_state(rng):
    """A reachable (skipped_levels, previous_level, n_lists): invariant prev = len + sum, lists = len + 1."""
    depth = rng.choice([0, 0, 1, 2, 3, 5])
    skipped = [rng.choice([0, 0, 0, 1, 2, 4]) for _ in range(depth)]
    return skipped, depth + sum(skipped), depth + 1


def adversarial_state(rng):
    depth = rng.randint(0, 4)
    skipped = [rng.choice([0, 1, 2, -1, 5]) for _ in range(depth)]
    return skipped, rng.choice([0, 1, 3, depth + sum(skipped), -2, 7]), rng.choice([0, 1, depth + 1, depth, depth + 2])


def stack_tags(levels, init):
    """Which branches of the skipped-levels machine a run takes (simulated on the abstract state)."""
    skipped, prev = list(init[0]), init[1]
    tags = set()
    for level in levels:
        if level > prev:
            skipped.append(level - prev - 1)
            tags.add('adjust-append-skip' if level - prev - 1 else 'adjust-append-0')
        else:
            temp = level
            popped = 0
            while temp < prev:
                if not skipped:
                    tags.add('pop-on-empty')
                    return sorted(tags)
                temp += 1 + skipped.pop()
                popped += 1
            tags.add(f'adjust-pop{min(popped, 3)}')
            if temp > prev:
                skipped.append(temp - prev - 1)
                tags.add('adjust-re-add')
            else:
                tags.add('adjust-exact')
        prev = level
        depth = level - sum(skipped)
        if depth != len(skipped):
            tags.add('assert-depth==len')
            return sorted(tags)
        if depth < 1:
            tags.add('assert-depth>=1')
            return sorted(tags)
        if depth > init[2] + 0 and depth - 1 >= init[2] + len([1 for _ in ()]):
            pass
    return sorted(tags)


def level_tags(levels, start):
    tags, prev = set(), start
    for level in levels:
        if level > prev + 1:
            tags.add('skip-up')
        elif level == prev + 1:
            tags.add('child')
        elif level == prev:
            tags.add('sibling')
        else:
            tags.add('close')
            if prev - level >= 2:
                tags.add('close-deep')
        prev = level
    return sorted(tags)


# ------------------------------------------------------------------ direct calls: outlines

def ref_number(ref):
    number, generation, letter = ref.split()
    assert generation == b'0' and letter == b'R', ref
    return int(number)


def opt_ref(dictionary, key):
    return ref_number(dictionary[key]) if key in dictionary else None


def outline_wire(obj):
    import pydyf
    dest = obj['Dest']
    assert isinstance(obj['Title'], pydyf.String)
    extra = set(obj) - {'Title', 'Dest', 'Count', 'Prev', 'Next', 'First', 'Last', 'Parent'}
    if len(dest) != 5 or dest[1] != '/XYZ' or dest[4] != 0 or extra:
        return ['bad-outline', esc(repr(dict(obj)))]
    return [obj.number, esc(obj['Title'].string), ref_number(dest[0]), G.frac(dest[2]), G.frac(dest[3]),
            obj['Count'], opt_ref(obj, 'Prev'), opt_ref(obj, 'Next'), opt_ref(obj, 'First'),
            opt_ref(obj, 'Last'), opt_ref(obj, 'Parent')]


def run_real_outlines(n_pages, gaps, forest, with_parent):
    """add_outlines on a real pydyf.PDF(); -> (canonical output, refs, next number, parent number)."""
    import pydyf
    from weasyprint.pdf.anchors import add_outlines
    pdf = pydyf.PDF()
    for i in range(n_pages):
        for _ in range(gaps[i] if i < len(gaps) else 0):
            pdf.add_object(pydyf.Dictionary({'Type': '/Filler'}))
        pdf.add_page(pydyf.Dictionary({'Type': '/Page'}))
    refs = [ref_number(r) for r in pdf.page_references]
    parent = None
    if with_parent:
        parent = pydyf.Dictionary({'Title': pydyf.String('parent')})
        pdf.add_object(parent)
    start = len(pdf.objects)

    def call():
        outlines, count = add_outlines(pdf, forest, parent=parent)
        objects = pdf.objects[start:]
        dictionary = None
        if 'Outlines' in pdf.catalog:
            dictionary = objects.pop()
            assert pdf.catalog['Outlines'] == dictionary.reference
            assert set(dictionary) == {'Count', 'First', 'Last'}
            dictionary = [dictionary.number, dictionary['Count'], ref_number(dictionary['First']),
                          ref_number(dictionary['Last'])]
        # the returned list is the list of top-level dictionaries, in order
        top = [o.number for o in outlines]
        expected_top = [o.number for o in objects
                        if opt_ref(o, 'Parent') == (dictionary[0] if dictionary else (parent.number if parent else None))]
        if top != expected_top:
            return 'bad-return'
        return (sx.dumps([outline_wire(o) for o in objects]) + ' ' + sx.dumps(dictionary) + ' ' + sx.atom(count))
    return G.outcome(call), refs, start, (parent.number if parent else None)


# ------------------------------------------------------------------ direct calls: links

NAMES = ['a', 'b', 'c', 'd', 'e', 'top', 'x y', 'é', '']


def gen_link_pages(rng):
    pool = rng.sample(NAMES, rng.randint(1, len(NAMES)))
    ids = itertools.count()
    pages = []
    for _ in range(rng.randint(0, 6)):
        names = [n for n in pool if rng.random() < 0.4]
        rng.shuffle(names)
        anchors = [(n, G.dyadic(rng), G.dyadic(rng)) for n in names]
        links = []
        for _ in range(rng.choice([0, 1, 2, 3, 8])):
            kind = rng.choice(['internal', 'internal', 'internal', 'external', 'attachment', 'Internal', 'other'])
            target = rng.choice(NAMES + ['missing']) if kind.lower() == 'internal' else rng.choice(
                ['http://e.org/', 'a', 'b', 'data:,x'])
            links.append((kind, target, next(ids)))
        pages.append((anchors, links))
    return pages


def run_real_resolve(pages):
    import logging
    from weasyprint.logger import LOGGER
    from weasyprint.pdf.anchors import resolve_links
    stubs = []
    for anchors, links in pages:
        stubs.append(SimpleNamespace(
            anchors={name: (x, y, x + 10, y + 5) for name, x, y in anchors},
            links=[(kind, target, ('rect', ident), ('box', ident)) for kind, target, ident in links]))
    errors = []

    class Handler(logging.Handler):
        def emit(self, record):
            if record.levelno >= logging.ERROR:
                errors.append(record.args[0] if record.args else record.getMessage())
    handler, level = Handler(), LOGGER.level
    LOGGER.addHandler(handler)
    LOGGER.setLevel(logging.ERROR)
    try:
        out = []
        for page_links, page_anchors in resolve_links(stubs):
            out.append([[[esc(k), esc(t), r[1]] for k, t, r, b in page_links if r[1] == b[1]],
                        [[esc(n), G.frac(x), G.frac(y)] for n, x, y in page_anchors]])
    finally:
        LOGGER.removeHandler(handler)
        LOGGER.setLevel(level)
    return sx.dumps(out) + ' ' + sx.dumps([esc(e) for e in errors])


def resolve_line(pages):
    return sx.line('resolve', [[[[esc(n), x, y] for n, x, y in anchors], [[esc(k), esc(t), i] for k, t, i in links]]
                               for anchors, links in pages])


# ------------------------------------------------------------------ direct calls: gather_anchors on mock boxes

KIND_CLASSES = {'other': 'BlockBox', 'inline': 'InlineBox', 'text': 'TextBox', 'line': 'LineBox'}


def dim_real(d):
    from weasyprint.css.properties import Dimension
    return Dimension(d[1], '%' if d[0] == 'pct' else 'px')


def gen_dim(rng):
    if rng.random() < 0.5:
        return ['px', G.dyadic(rng, -32, 64)]
    return ['pct', rng.choice([F(0), F(50), F(100), F(25), F(-50), F(10), F(33)])]


def gen_ops(rng):
    ops = []
    for _ in range(rng.choice([0, 0, 0, 1, 1, 2, 3])):
        k = rng.random()
        if k < 0.4:
            ops.append(['scale', rng.choice([F(2), F(1, 2), F(-1), F(1), F(3, 2), F(0)]),
                        rng.choice([F(2), F(1, 2), F(-1), F(1), F(0)])])
        elif k < 0.75:
            ops.append(['translate', gen_dim(rng), gen_dim(rng)])
        else:
            ops.append(['matrix'] + list(G.rand_matrix_values(rng)))
    return ops


GEOM_KEYS = ('position_x', 'position_y', 'width', 'height', 'margin_top', 'margin_right', 'margin_bottom', 'margin_left',
             'padding_top', 'padding_right', 'padding_bottom', 'padding_left', 'border_top_width', 'border_right_width',
             'border_bottom_width', 'border_left_width')


def gen_geom(rng):
    """Used values of a laid-out box: position, content size, margins (also negative), paddings, border widths."""
    geom = {'position_x': G.dyadic(rng, 0, 200), 'position_y': G.dyadic(rng, 0, 200),
            'width': G.dyadic(rng, 0, 120), 'height': G.dyadic(rng, 0, 60)}
    plain = rng.random() < 0.3
    for side in ('top', 'right', 'bottom', 'left'):
        geom[f'margin_{side}'] = F(0) if plain else G.dyadic(rng, -4, 12)
        geom[f'padding_{side}'] = F(0) if plain or rng.random() < 0.5 else G.dyadic(rng, 0, 8)
        geom[f'border_{side}_width'] = F(0) if plain or rng.random() < 0.5 else G.dyadic(rng, 0, 4)
    return geom


def gen_gbox(rng, depth, names):
    kind = rng.choice(['other', 'other', 'other', 'inline', 'inline', 'line', 'text']) if depth else 'other'
    label = rng.choice(['', '', '', 'lab', 'l b', 'é'])
    level = rng.choice([None, None, 1, 2, 3, 6, 0]) if rng.random() < 0.9 else rng.randint(-2, 9)
    link = None
    if rng.random() < 0.45:
        link = rng.choice([['internal', rng.choice(names)], ['external', 'http://e.org/' + rng.choice('abc')],
                           ['external', 'data:,f'], ['internal', '']])
    anchor = rng.choice([None, None, None, ''] + names + names)
    kids = []
    if kind != 'text' and depth < 4:
        kids = [gen_gbox(rng, depth + 1, names) for _ in range(rng.choice([0, 1, 1, 2, 3]))]
    return {'kind': kind, 'ops': gen_ops(rng), 'origin': [gen_dim(rng), gen_dim(rng)] if rng.random() < 0.5
            else [['pct', F(50)], ['pct', F(50)]],
            'geom': gen_geom(rng), 'label': label, 'level': level,
            'state': G.rand_state(rng), 'link': link, 'attachment': rng.random() < 0.3, 'anchor': anchor,
            'kids': kids}


def make_real_gbox(spec):
    from xml.etree import ElementTree
    from weasyprint.formatting_structure import boxes
    ops = []
    for op in spec['ops']:
        if op[0] == 'scale':
            ops.append(('scale', (op[1], op[2])))
        elif op[0] == 'translate':
            ops.append(('translate', (dim_real(op[1]), dim_real(op[2]))))
        else:
            ops.append(('matrix', tuple(op[1:])))
    style = {
        'transform': tuple(ops), 'transform_origin': (dim_real(spec['origin'][0]), dim_real(spec['origin'][1])),
        'bookmark_level': 'none' if spec['level'] is None else spec['level'],
        'bookmark_state': spec['state'], 'link': ('url', tuple(spec['link'])) if spec['link'] else None,
        'anchor': spec['anchor'], 'appearance': 'none'}
    element = ElementTree.Element('a', {'rel': 'x Attachment'} if spec['attachment'] else {})
    cls = getattr(boxes, KIND_CLASSES[spec['kind']])
    if spec['kind'] == 'text':
        box = cls('a', style, element, 'text')
    else:
        box = cls('a', style, element, [make_real_gbox(k) for k in spec['kids']])
    for key in GEOM_KEYS:
        setattr(box, key, F(spec['geom'][key]))
    box.bookmark_label = spec['label'] if spec['label'] or spec['level'] != 2 else None
    return box


def gbox_wire(spec, real):
    """The abstraction read by the model: the used values set on the real box (attributes, no method call)."""
    return [spec['kind'], spec['ops'], spec['origin'][0], spec['origin'][1],
            [G.frac(getattr(real, key)) for key in GEOM_KEYS], esc(spec['label']), spec['level'], esc(spec['state']),
            [esc(spec['link'][0]), esc(spec['link'][1])] if spec['link'] else None, spec['attachment'],
            None if spec['anchor'] is None else esc(spec['anchor']),
            [gbox_wire(k, r) for k, r in zip(spec['kids'], real.children)] if spec['kind'] != 'text' else []]


def spec_boxes(geom, kind):
    """The clause, stated on the used values: the clickable rectangle of a box is its border box; an inline box is
    clickable over the whole height of its line (its margin box vertically) but horizontally over its border box
    only.  -> (border box x y w h, hit rectangle x y w h)"""
    g = {k: F(v) for k, v in geom.items()}
    bx = g['position_x'] + g['margin_left']
    by = g['position_y'] + g['margin_top']
    bw = g['width'] + g['padding_left'] + g['padding_right'] + g['border_left_width'] + g['border_right_width']
    bh = g['height'] + g['padding_top'] + g['padding_bottom'] + g['border_top_width'] + g['border_bottom_width']
    if kind == 'inline':
        return (bx, by, bw, bh), (bx, g['position_y'], bw, bh + g['margin_top'] + g['margin_bottom'])
    return (bx, by, bw, bh), (bx, by, bw, bh)


def gathered_wire(anchors, links, bookmarks):
    return (sx.dumps([[esc(n)] + [G.frac(v) for v in rect] for n, rect in anchors.items()]) + ' ' +
            sx.dumps([[esc(k), esc(t)] + [G.frac(v) for v in rect] for k, t, rect, _ in links]) + ' ' +
            sx.dumps([[lvl, esc(lab), G.frac(x), G.frac(y), esc(st)] for lvl, lab, (x, y), st in bookmarks]))


def run_real_gather(box):
    from weasyprint.anchors import gather_anchors
    anchors, links, bookmarks, forms = {}, [], [], {None: []}
    gather_anchors(box, anchors, links, bookmarks, forms)
    return gathered_wire(anchors, links, bookmarks)


# ------------------------------------------------------------------ judges (the clauses, stated on implementation output)

def flatten_tree(tree, depth=1):
    for label, target, children, state in tree:
        yield depth, label, target, state
        yield from flatten_tree(children, depth + 1)


def wire_tree_to_tuples(items):
    return [(lab, (int(page), F(x), F(y)), wire_tree_to_tuples(kids), st) for lab, page, x, y, st, kids in items]


def judge_bookmark_tree(levels, labels, tree):
    """Clauses of `bookmark_tree` on a tree returned by the implementation (levels >= 1)."""
    flat = list(flatten_tree(tree))
    if [lab for _, lab, _, _ in flat] != labels:
        return f'pre-order of the tree {[lab for _, lab, _, _ in flat]} is not the bookmark list {labels}'
    depths = [d for d, _, _, _ in flat]
    stack = []  # levels of the open ancestors
    for i, (level, depth) in enumerate(zip(levels, depths)):
        while stack and stack[-1] >= level:
            stack.pop()
        stack.append(level)
        if depth != len(stack):
            return (f'bookmark {i} (level {level}) has depth {depth}; its nearest preceding bookmark of smaller '
                    f'level is at depth {len(stack) - 1}')
    return None


def judge_targets(tree, want):
    """Each entry of the tree points to its bookmark's page and position: `want` = (page, x, y) of the bookmarks
    in document order (the pre-order of the tree, checked before)."""
    for (_, label, target, _), (page, x, y) in zip(flatten_tree(tree), want):
        if (int(target[0]), F(target[1]), F(target[2])) != (page, x, y):
            return (f'bookmark {label!r} points to page {target[0]} at ({target[1]}, {target[2]}); it lies on page '
                    f'{page} at ({x}, {y})')
    return None


def judge_outlines(forest, refs, wire_objects, dictionary, count, parent):
    """Clauses of `outline_links` on the dictionaries written by the implementation."""
    objs = {o[0]: dict(zip(('num', 'title', 'page', 'x', 'y', 'count', 'prev', 'next', 'first', 'last', 'parent'), o))
            for o in wire_objects}
    numbers = iter(sorted(objs))

    def visible(children):
        return sum(1 + (0 if st == 'closed' else visible(kids)) for _, _, kids, st in children)

    def walk(children, parent_number):
        nums = []
        for label, (page, x, y), kids, state in children:
            n = next(numbers, None)
            if n is None:
                return 'fewer outline dictionaries than bookmarks'
            o = objs[n]
            nums.append(n)
            if o['title'] != esc(label) or o['page'] != refs[page] or (o['x'], o['y']) != (x, y):
                return f'outline {n} does not describe bookmark {label!r}'
            if o['parent'] != parent_number:
                return f'outline {n}: Parent is {o["parent"]}, expected {parent_number}'
            want = visible(kids)
            if o['count'] != (-want if state == 'closed' else want):
                return f'outline {n}: Count {o["count"]}, {want} descendants visible when open, state {state}'
            what = walk(kids, n)
            if isinstance(what, str):
                return what
            if (o['first'], o['last']) != ((what[0], what[-1]) if what else (None, None)):
                return f'outline {n}: First/Last {o["first"]}/{o["last"]} but children are {what}'
        for i, n in enumerate(nums):
            if objs[n]['prev'] != (nums[i - 1] if i else None) or objs[n]['next'] != (
                    nums[i + 1] if i + 1 < len(nums) else None):
                return f'outline {n}: Prev/Next {objs[n]["prev"]}/{objs[n]["next"]} among siblings {nums}'
        return nums

    top_parent = dictionary[0] if dictionary else parent
    top = walk(forest, top_parent)
    if isinstance(top, str):
        return top
    if next(numbers, None) is not None:
        return 'more outline dictionaries than bookmarks'
    if parent is None and forest:
        if not dictionary:
            return 'no outlines dictionary'
        if dictionary[1:] != [visible(forest), top[0], top[-1]]:
            return f'outlines dictionary {dictionary}: expected Count {visible(forest)} First {top[0]} Last {top[-1]}'
    if count != visible(forest):
        return f'returned count {count}, visible {visible(forest)}'
    return None


def judge_resolved(pages, out):
    """Clauses of `links_resolved`."""
    all_names = [n for anchors, _ in pages for n, _, _ in anchors]
    seen = {}
    for i, (anchors, _) in enumerate(pages):
        for n, x, y in anchors:
            seen.setdefault(n, (i, x, y))
    got = {}
    for i, (_, page_anchors) in enumerate(out):
        for n, x, y in page_anchors:
            if n in got:
                return f'anchor {n!r} is listed twice'
            got[n] = (i, x, y)
    if got != seen:
        return f'named destinations {got} are not the first occurrences {seen}'
    for (anchors, links), (page_links, _) in zip(pages, out):
        want = [l for l in links if l[0] != 'internal' or l[1] in set(all_names)]
        if [tuple(l) for l in page_links] != want:
            return f'links {page_links} but expected {want} (internal links with a missing anchor dropped)'
    return None


def judge_gather(spec, impl):
    """Clauses on gather_anchors, stated on the mock tree: one link per non-text non-line box carrying a
    link (rectangle = bounding box of the transformed hit area), one bookmark per labelled box, one
    anchor per name — the first box carrying it, at its transformed hit-area corners."""
    if impl.startswith('err:'):
        return f'gather_anchors raised {impl}'
    anchors, links, bookmarks = sx.loads_line(impl)
    want_links, want_bookmarks, want_anchors = [], [], {}

    def mul(m, n):
        a, b, c, d, e, f = m
        a2, b2, c2, d2, e2, f2 = n
        return (a * a2 + b * c2, a * b2 + b * d2, c * a2 + d * c2, c * b2 + d * d2,
                e * a2 + f * c2 + e2, e * b2 + f * d2 + f2)

    def point(m, x, y):
        return (x, y) if m is None else (x * m[0] + y * m[2] + m[4], x * m[1] + y * m[3] + m[5])

    def pct(d, ref):
        return d[1] if d[0] == 'px' else ref * d[1] / 100

    def walk(s, matrix):
        (bx, by, bw, bh), (hx, hy, hw, hh) = spec_boxes(s['geom'], s['kind'])
        if s['ops'] and s['kind'] != 'inline':
            ox, oy = bx + pct(s['origin'][0], bw), by + pct(s['origin'][1], bh)
            m = (F(1), F(0), F(0), F(1), ox, oy)
            for op in s['ops']:
                if op[0] == 'scale':
                    step = (op[1], F(0), F(0), op[2], F(0), F(0))
                elif op[0] == 'translate':
                    step = (F(1), F(0), F(0), F(1), pct(op[1], bw), pct(op[2], bh))
                else:
                    step = tuple(op[1:])
                m = mul(step, m)
            m = mul((F(1), F(0), F(0), F(1), -ox, -oy), m)
            matrix = m if matrix is None else mul(m, matrix)
        if s['link'] and s['kind'] not in ('text', 'line'):
            corners = [point(matrix, x, y) for x in (hx, hx + hw) for y in (hy, hy + hh)]
            kind = 'attachment' if s['link'][0] == 'external' and s['attachment'] else s['link'][0]
            want_links.append([esc(kind), esc(s['link'][1]), min(c[0] for c in corners), min(c[1] for c in corners),
                               max(c[0] for c in corners), max(c[1] for c in corners)])
        has_bookmark = bool(s['label'] and s['level'])
        if has_bookmark:
            want_bookmarks.append([s['level'], esc(s['label']), *point(matrix, hx, hy), esc(s['state'])])
        if s['anchor'] and s['anchor'] not in want_anchors:
            want_anchors[s['anchor']] = point(matrix, hx, hy) + point(matrix, hx + hw, hy + hh)
        for k in s['kids']:
            walk(k, matrix)
    walk(spec, None)
    got_links = [[k, t] + [F(v) for v in rect] for k, t, *rect in links]
    if got_links != want_links:
        return f'links {got_links}; boxes carrying a link give {want_links}'
    got_bookmarks = [[int(lvl), lab, F(x), F(y), st] for lvl, lab, x, y, st in bookmarks]
    if got_bookmarks != want_bookmarks:
        return f'bookmarks {got_bookmarks}; labelled boxes give {want_bookmarks}'
    if [a[0] for a in anchors] != [esc(n) for n in want_anchors]:
        return f'anchors {[a[0] for a in anchors]}; first occurrences of the ids are {list(want_anchors)}'
    for (name, *rect), want in zip(anchors, want_anchors.values()):
        if want is not None and tuple(F(v) for v in rect) != want:
            return f'anchor {name!r} at {[str(v) for v in rect]}; the first box carrying it is at {[str(v) for v in want]}'
    return None


def judge_watt(meta, impl):
    """write_pdf_attachment: the attachment is embedded under its name (else the basename of its URL, else
    attachment.bin) with its description and all its bytes; a failing source embeds nothing."""
    _, table = A.stub_fetcher(meta['urls'])
    att = A.att_model(meta['case'], table)
    if impl.startswith('err:') or impl.startswith('bad'):
        return f'write_pdf_attachment on {meta["case"]}: {impl}'
    spec, end = sx.loads_line(impl)
    if att['size'] is None:
        return None if spec == 'none' and int(end) == meta['start'] else f'unreadable attachment embedded: {impl}'
    if spec == 'none':
        return f'readable attachment {meta["case"]} not embedded'
    want_name = att['name'] or (att['urlBase'] if att['urlBase'] is not None else 'attachment.bin')
    if spec[2] != esc(want_name) or int(spec[4]) != att['size'] or spec[5] != esc(att['description'] or ''):
        return (f'attachment {meta["case"]} embedded as name {spec[2]!r}, {spec[4]} bytes, description {spec[5]!r}; '
                f'expected {want_name!r}, {att["size"]} bytes, {att["description"]!r}')
    return None


def judge_annots(meta, impl):
    """add_annotations: one /FileAttachment annotation per attachment link whose URL can be read, covering the
    link rectangle, all links to one URL sharing one embedded file; a failing URL gives no annotation."""
    _, table = A.stub_fetcher(meta['urls'])
    if impl.startswith('err:') or impl.startswith('bad'):
        return f'add_annotations: {impl}'
    pages, specs, _ = sx.loads_line(impl)
    readable = lambda t: table.get(t) is not None  # noqa: E731
    name_of = {int(sp[1]): sp[2] for sp in specs}
    seen = set()
    for (scale, height, links), annots in zip(meta['pages'], pages):
        want = [(t, rect) for k, t, rect in links if k == 'attachment' and readable(t)]
        if len(annots) != len(want):
            return f'{len(annots)} annotations for the readable attachment links {[t for t, _ in want]}'
        for (t, rect), a in zip(want, annots):
            seen.add(t)
            expected = (F(rect[0]) * scale, (height - F(rect[1])) * scale, F(rect[2]) * scale, (height - F(rect[3])) * scale)
            if tuple(F(v) for v in a[3:]) != expected:
                return f'annotation Rect {a[3:]} for link rectangle {rect}'
            final = table[t][1]
            from os.path import basename
            from urllib.parse import unquote, urlsplit
            want_name = basename(unquote(urlsplit(final).path)) if urlsplit(final).path else 'attachment.bin'
            if name_of.get(int(a[2])) != esc(want_name):
                return f'annotation for {t} points to the file {name_of.get(int(a[2]))!r}, expected {want_name!r}'
    if len(specs) != len(seen):
        return f'{len(specs)} files embedded for {len(seen)} distinct readable URLs'
    return None


def judge_metadata(meta, impl):
    """get_html_metadata / generate_rdf_metadata against the clauses stated on the head elements."""
    head = [tuple(el) for el in meta['head']]
    want = D.reference_meta(head)
    if impl.startswith('err:'):
        return f'metadata extraction raised {impl}'
    text = lambda cps: ''.join(chr(int(c)) for c in cps)  # noqa: E731
    if meta['kind'] == 'meta':
        title, description, generator, keywords, authors, created, modified, _lang = sx.loads_line(impl)
        got = {'title': None if title == 'none' else text(title), 'description': None if description == 'none'
               else text(description), 'generator': None if generator == 'none' else text(generator),
               'keywords': [text(k) for k in keywords], 'authors': [text(a) for a in authors],
               'created': None if created == 'none' else text(created),
               'modified': None if modified == 'none' else text(modified)}
        if got != want:
            return f'get_html_metadata gives {got}; the head elements say {want}'
        return None
    fields = {f[0]: [text(v) for v in f[1:]] for f in sx.loads_line(impl)[0]}
    expected = {'dc:title': [want['title']] if want['title'] else None, 'dc:creator': want['authors'] or None,
                'dc:subject': [want['description']] if want['description'] else None,
                'pdf:Keywords': [', '.join(want['keywords'])] if want['keywords'] else None,
                'xmp:CreatorTool': [want['generator']] if want['generator'] else None,
                'xmp:CreateDate': [want['created']] if want['created'] else None,
                'xmp:ModifyDate': [want['modified']] if want['modified'] else None}
    for key, value in expected.items():
        if fields.get(key) != value:
            return f'XMP {key} is {fields.get(key)}; the document says {value}'
    return None


def pdf_date_fields(s):
    """Parse a PDF date string D:YYYY[MM[DD[HH[mm[SS]]]]][Z|±HH'mm] -> tuple with defaults, or None."""
    import re
    m = re.fullmatch(r"D:(\d{4})(\d\d)?(\d\d)?(\d\d)?(\d\d)?(\d\d)?(?:(Z)|([+-])(\d\d)'(\d\d)'?)?", s)
    if not m:
        return None
    y, mo, d, h, mi, se, z, sign, th, tm = m.groups()
    tz = 'Z' if z else ((sign, int(th), int(tm)) if sign else None)
    return (int(y), int(mo or 1), int(d or 1), int(h or 0), int(mi or 0), int(se or 0), tz)


def w3c_fields(s):
    import re
    m = re.fullmatch(
        r'\s*(\d{4})(?:-(\d\d)(?:-(\d\d)(?:T(\d\d):(\d\d)(?::(\d\d)(?:\.\d+)?)?(?:(Z)|([+-])(\d\d):(\d\d)))?)?)?\s*', s)
    if not m:
        return None
    y, mo, d, h, mi, se, z, sign, th, tm = m.groups()
    tz = 'Z' if z else ((sign, int(th), int(tm)) if sign else None)
    return (int(y), int(mo or 1), int(d or 1), int(h or 0), int(mi or 0), int(se or 0), tz)


def judge_date(string, out):
    want = w3c_fields(string)
    if out != 'none' and not out.startswith('err:') and not D._valid_w3c(string):
        return f'{string!r} is not a W3C date (a field is out of range or the form is wrong) but is written as {out!r}'
    if want is not None and not D._valid_w3c(string):
        return None
    if want is None:
        return None
    if out == 'none' or out.startswith('err:'):
        return f'valid W3C date {string!r} gives {out}'
    got = pdf_date_fields(out)
    if got != want:
        return f'{string!r} -> {out!r}: reads back as {got}, the W3C date is {want}'
    return None


class C18(PropCheck):
    id = 'C18'
    extractors = (w3c_date.generate, c18_meta_keys.generate)
    modules = ('WpModel.Props.C18', 'WpModel.Props.C18Pdf', 'WpModel.Props.C18Tree', 'WpModel.Props.C18LinkAttr', 'WpModel.Props.C18Doc',
               'WpModel.Witness.C18')
    trusted_base = (
        'modelled, not verified: make_page_bookmark_tree / Document.make_bookmark_tree (zipper for the aliased '
        'last_by_depth lists), add_outlines (object numbers = len(pdf.objects)), resolve_links, gather_anchors '
        '(rational transform fragment: scale / translate / matrix; no form inputs), rectangle_aabb, Matrix, '
        '_w3c_date_to_pdf and a deterministic matcher for W3C_DATE_RE (pattern text, key tuples and tz graph '
        'regenerated from the source each run), get_html_metadata, the Info block of generate_pdf and '
        'generate_rdf_metadata (key tables regenerated from the source), write_pdf_attachment / add_annotations / the '
        'EmbeddedFiles block (fetched bytes, urlsplit/unquote/basename, mimetypes, md5 supplied by the harness), '
        'pydyf.String.data with a reader of PDF string objects (ISO 32000-1 7.3.4, 7.9.2.2)',
        'Python `re` (the matcher is compared with it on generated strings), pydyf object numbering and serialisation',
    )
    assumptions = (
        '`\\d` of W3C_DATE_RE is modelled as ASCII digits (the six W3C formats use no other digits)',
        'rotate()/skew() transforms are outside the modelled fragment (irrational matrix entries)',
        'get_link_attribute: str.strip() strips ASCII white space only, no `[` `]` in URL authorities (urlsplit raises '
        'no ValueError), no lone surrogates; attachment I/O is not modelled',
    )

    # -------------------------------------------------------------- correspondence
    def correspondence(self, run):
        docs.quiet()
        self.sec_bookmarks(run)
        self.sec_document_tree(run)
        self.sec_outlines(run)
        self.sec_resolve(run)
        self.sec_matrix(run)
        self.sec_gather(run)
        self.sec_dates(run)
        self.sec_pdf_strings(run)
        self.sec_attachments(run)
        self.sec_metadata(run)
        self.sec_linkattr(run)
        D.document_sections(self, run)
        self.report_branches(run)

    EXPECTED_BRANCHES = {
        'bookmark-tree-direct': ['adjust-append-0', 'adjust-append-skip', 'adjust-pop0', 'adjust-pop1', 'adjust-pop2',
                                 'adjust-pop3', 'adjust-re-add', 'adjust-exact', 'pop-on-empty', 'assert-depth==len',
                                 'assert-depth>=1', 'err:IndexError', 'err:AssertionError@depth==len',
                                 'err:AssertionError@depth>=1', 'ok', 'pages1', 'pages4'],
        'outlines-direct': ['closed', 'closed-with-children', 'state-other', 'page-negative', 'page-out-of-range',
                            'parent', 'top', 'empty', 'err', 'depth6'],
        'resolve-links-direct': ['duplicate', 'dropped', 'pages0'],
        'rectangle-aabb': ['none', 'identity', 'axis', 'general', 'matmul', 'tpoint'],
        'gather-anchors-direct': ['transform', 'transform-inline-ignored', 'link', 'link-on-text/line', 'attachment',
                                  'anchor', 'anchor-duplicate', 'bookmark', 'inline-horizontal-margin',
                                  'inline-vertical-margin'],
        'w3c-dates': ['nomatch', 'len6', 'len8', 'len10', 'len17', 'len22', 'tz-neg-zero'],
        'pdf-strings': ['enc-literal', 'enc-utf16', 'enc-error', 'enc-escape', 'enc-cr', 'enc-astral', 'dec-written',
                        'lit-octal3', 'lit-octal12', 'lit-escape-letter', 'lit-continuation', 'lit-raw-cr', 'lit-nested',
                        'lit-unknown-escape', 'hex-odd', 'hex-ws', 'hex-bom', 'hex-invalid', 'dec-unterminated',
                        'dec-undecodable', 'dec-text'],
        'attachments-direct': ['watt-failed', 'watt-name', 'watt-url-basename', 'watt-default-name', 'watt-string',
                               'watt-url', 'watt-url-missing', 'annots-reused-url', 'annots-failing-url',
                               'annots-other-link-types'],
        'metadata-direct': ['meta-title', 'meta-author', 'meta-description', 'meta-keywords', 'meta-generator',
                            'meta-dcterms.created', 'meta-dcterms.modified', 'meta-other', 'rdf-a1', 'rdf-ua1'],
        'doc-bookmark-tree': ['page-heights-differ'],
        'doc-pdf-outlines': ['page-heights-differ'],
        'doc-page-subset': ['pages-dropped', 'page-repeated', 'pages-reordered', 'link-to-unselected-page', 'links',
                            'outlines', 'attachments', 'second-write-of-attachments'],
        'doc-gather': ['anchors', 'links', 'bookmarks', 'inline-link-with-horizontal-margin'],
        'link-attribute-direct': ['none', 'internal', 'external', 'fragment-only', 'same-document', 'same-path-other-query',
                                  'other-document-with-fragment', 'no-fragment', 'no-base', 'empty', 'fragment-escaped',
                                  'unquote-replacement', 'unquote-non-ascii'],
        'doc-one-per-element': ['split', 'nosplit', 'fragments-interleaved-with-other-bookmarks', 'pseudo-element'],
        'doc-pdf-links': ['duplicate-across-pages', 'links', 'anchors'],
        'doc-attachments': ['link-level', 'link-rel-attachment', 'option', 'failing', 'missing-href', 'keys-reordered',
                            'keys-written-form-differs', 'keys-duplicate'],
        'doc-link-elements': ['internal', 'external', 'attachment', 'rel-other-spelling', 'id-and-name',
                              'same-path-other-query'],
    }

    def report_branches(self, run):
        """Generator distribution: the branch tags every section must reach in each run, and those it missed."""
        missing = {}
        for sec in run.sections:
            want = self.EXPECTED_BRANCHES.get(sec.name, [])
            never = [t for t in want if not sec.tags.get(t)]
            if never:
                missing[sec.name] = never
        run.extra['branches_expected'] = sum(len(v) for v in self.EXPECTED_BRANCHES.values())
        run.extra['branches_never_hit'] = missing
        if missing:
            run.notes.append(f'branches never hit in this run: {missing}')

    def sec_bookmarks(self, run):
        rng = run.rng
        sec = run.section(
            'bookmark-tree-direct',
            'make_page_bookmark_tree called page after page on stub pages (0..80 bookmarks split anyhow over pages, '
            'page matrices, reachable and unreachable initial states); non-trivial = at least 3 bookmarks with two '
            'different levels')
        for i in range(run.n(1800, 40000)):
            adversarial = i % 5 == 4
            n = rng.choice([0, 1, 2, 3, 5, 8, 13, 30, 80]) if i % 7 else rng.randint(0, 80)
            bookmarks = gen_bookmarks(rng, n, adversarial)
            init = (adversarial_state(rng) if adversarial and rng.random() < 0.5 else
                    consistent_state(rng) if rng.random() < 0.3 else ([], 0, 1))
            chunks = G.split_pages(rng, bookmarks)
            pages = [(rng.choice([k, k, k + 3]), G.rand_matrix_values(rng, adversarial), chunk)
                     for k, chunk in enumerate(chunks)]
            out = G.outcome(lambda: run_real_pbt(init, pages))
            levels = [b[0] for b in bookmarks]
            tags = level_tags(levels, init[1]) + stack_tags(levels, init) + [
                f'pages{min(len(pages), 4)}', 'adv' if adversarial else 'valid', out if out.startswith('err:') else 'ok']
            sec.add(pbt_line(init, pages), out, meta={'init': init, 'pages': pages, 'kind': 'pbt'},
                    nontrivial=n >= 3 and len(set(levels)) >= 2, tags=tags)

    def sec_document_tree(self, run):
        from weasyprint.document import Document
        rng = run.rng
        sec = run.section(
            'bookmark-tree-document',
            'Document.make_bookmark_tree(scale, transform_pages) on stub pages with heights; non-trivial = at '
            'least 3 bookmarks over at least 2 pages')
        for i in range(run.n(1200, 20000)):
            adversarial = i % 6 == 5
            n = rng.choice([0, 1, 3, 6, 12, 40, 80]) if i >= 40 else rng.choice([1, 2, 3])   # readable cases first
            bookmarks = gen_bookmarks(rng, n, adversarial)
            chunks = G.split_pages(rng, bookmarks, 6 if i >= 40 else 3)
            pages = [(G.dyadic(rng, 1, 400), chunk) for chunk in chunks]
            scale = rng.choice([F(1), F(3, 4), F(3, 2), F(3, 8), G.any_rat(rng)])
            transform = rng.random() < 0.5
            stub = SimpleNamespace(pages=[
                SimpleNamespace(height=h, bookmarks=[(lvl, lab, (x, y), st) for lvl, lab, x, y, st in chunk])
                for h, chunk in pages])
            out = G.outcome(lambda: sx.dumps(G.tree_wire(Document.make_bookmark_tree(stub, scale, transform))))
            line = sx.line('mbt', scale, transform,
                           [[h, [[lvl, esc(lab), x, y, esc(st)] for lvl, lab, x, y, st in chunk]] for h, chunk in pages])
            sec.add(line, out, meta={'pages': pages, 'scale': scale, 'transform': transform, 'kind': 'mbt'},
                    nontrivial=n >= 3 and len(pages) >= 2,
                    tags=[f'pages{min(len(pages), 4)}', 'flip' if transform else 'noflip'])

    def sec_outlines(self, run):
        rng = run.rng
        sec = run.section(
            'outlines-direct',
            'add_outlines on a real pydyf.PDF() (pages added first, filler objects in between), dictionaries read '
            'back from pdf.objects; non-trivial = at least 4 nodes, depth >= 2')
        for i in range(run.n(1500, 30000)):
            adversarial = i % 8 == 7
            n_pages = rng.randint(1, 5)
            gaps = [rng.choice([0, 0, 1, 3]) for _ in range(n_pages)]
            forest = G.rand_forest(rng, rng.choice([0, 1, 2, 4, 8, 20, 80]), n_pages=n_pages, adversarial=adversarial)
            with_parent = rng.random() < 0.15
            out, refs, start, parent = run_real_outlines(n_pages, gaps, forest, with_parent)
            line = sx.line('outl', refs, start, parent, G.tree_wire(forest))
            size, depth = G.tree_size(forest), G.tree_depth(forest)
            sec.add(line, out, meta={'forest': forest, 'refs': refs, 'parent': parent, 'kind': 'outl',
                                     'n_pages': n_pages, 'gaps': gaps},
                    nontrivial=size >= 4 and depth >= 2,
                    tags=[f'depth{min(depth, 6)}', 'parent' if with_parent else 'top',
                          'err' if out.startswith('err:') else 'ok', 'empty' if not forest else 'nonempty'] +
                    [t for t, c in (('closed', any(n[3] == 'closed' for n in _walk(forest))),
                                    ('closed-with-children', any(n[3] == 'closed' and n[2] for n in _walk(forest))),
                                    ('state-other', any(n[3] not in ('open', 'closed') for n in _walk(forest))),
                                    ('page-negative', any(n[1][0] < 0 for n in _walk(forest))),
                                    ('page-out-of-range', any(n[1][0] >= n_pages or n[1][0] < -n_pages
                                                              for n in _walk(forest)))) if c])

    def sec_resolve(self, run):
        rng = run.rng
        sec = run.section(
            'resolve-links-direct',
            'resolve_links on stub pages (duplicate anchors across pages, missing targets, external / attachment / '
            'unknown link types); non-trivial = a duplicate anchor or a dropped link')
        for _ in range(run.n(2500, 40000)):
            pages = gen_link_pages(rng)
            out = G.outcome(lambda: run_real_resolve(pages))
            names = [n for anchors, _ in pages for n, _, _ in anchors]
            dropped = any(k == 'internal' and t not in names for _, links in pages for k, t, _ in links)
            dup = len(set(names)) < len(names)
            sec.add(resolve_line(pages), out, meta={'pages': pages, 'kind': 'resolve'}, nontrivial=dup or dropped,
                    tags=[t for t, c in (('duplicate', dup), ('dropped', dropped)) if c] + [f'pages{min(len(pages), 4)}'])

    def sec_matrix(self, run):
        from weasyprint.anchors import rectangle_aabb
        rng = run.rng
        sec = run.section(
            'rectangle-aabb',
            'rectangle_aabb, Matrix.__matmul__, Matrix.transform_point with Fraction entries (identity, page flips, '
            'axis-aligned, quarter turns, arbitrary); non-trivial = matrix not None and not identity')
        for i in range(run.n(2500, 40000)):
            adversarial = i % 4 == 3
            values = G.rand_matrix_values(rng, adversarial)
            none = rng.random() < 0.1
            gen = G.any_rat if adversarial else G.dyadic
            x, y, w, h = gen(rng), gen(rng), gen(rng), gen(rng)
            out = G.outcome(lambda: sx.line(*[G.frac(v) for v in rectangle_aabb(
                None if none else G.real_matrix(values), x, y, w, h)]))
            identity = values == (1, 0, 0, 1, 0, 0)
            sec.add(sx.line('aabb', None if none else list(values), x, y, w, h), out,
                    meta={'matrix': None if none else values, 'rect': (x, y, w, h), 'kind': 'aabb'},
                    nontrivial=not none and not identity,
                    tags=['none' if none else 'identity' if identity else
                          'axis' if values[1] == 0 and values[2] == 0 else 'general'])
            if i % 3 == 0:
                other = G.rand_matrix_values(rng, adversarial)
                out = G.outcome(lambda: sx.line(*[G.frac(v) for v in (
                    G.real_matrix(values) @ G.real_matrix(other)).values]))
                sec.add(sx.line('matmul', list(values), list(other)), out,
                        meta={'kind': 'matmul', 'm': values, 'n': other}, tags=['matmul'])
                out = G.outcome(lambda: sx.line(*[G.frac(v) for v in G.real_matrix(values).transform_point(x, y)]))
                sec.add(sx.line('tpoint', list(values), x, y), out, meta={'kind': 'tpoint', 'm': values, 'p': (x, y)},
                        tags=['tpoint'])

    def sec_gather(self, run):
        rng = run.rng
        sec = run.section(
            'gather-anchors-direct',
            'gather_anchors on trees of real boxes (Block/Inline/Line/Text, dict styles, Fraction used values: position, '
            'size, margins, paddings, border widths — the model computes border box and hit_area() from them; '
            'scale/translate/matrix transforms, duplicate anchors, links on text boxes, attachments); non-trivial = '
            'a transformed box with a link, bookmark or anchor below it')
        for i in range(run.n(1000, 30000)):
            names = rng.sample(['a', 'b', 'c', 'x y'], rng.randint(1, 4))
            spec = gen_gbox(rng, 0, names)
            if i < 80:                 # small trees first: a disagreement is reported on a readable input
                spec['kids'] = [dict(gen_gbox(rng, 4, names), kids=[]) for _ in range(rng.choice([1, 1, 2]))]
                if i < 40:
                    spec['ops'] = []
            real = make_real_gbox(spec)
            out = G.outcome(lambda: run_real_gather(real))
            sec.add(sx.line('gatherraw', gbox_wire(spec, real)), out, meta={'spec': spec, 'kind': 'gather'},
                    nontrivial=_has_transformed_payload(spec, False), tags=_gather_tags(spec))

    def sec_dates(self, run):
        from weasyprint.pdf import _w3c_date_to_pdf
        rng = run.rng
        sec = run.section(
            'w3c-dates',
            '_w3c_date_to_pdf on strings printed from structured dates (six formats, Z and every ±hh:mm, white '
            'space around) and on an adversarial stream (1-3 character edits, out-of-range fields); non-trivial = '
            'the string matches W3C_DATE_RE')
        cases = []
        for sign in '+-':                      # every tz hour, both signs of 00
            for hour in range(24):
                cases.append(f'2001-02-03T04:05:06{sign}{hour:02d}:{rng.randint(0, 59):02d}')
        for fmt in range(1, 7):
            cases.extend(G.date_string(rng, fmt)[0] for _ in range(run.n(150, 4000)))
        valid = list(cases)
        for _ in range(run.n(1500, 40000)):
            cases.append(G.mutate_date(rng, rng.choice(valid)))
        for _ in range(run.n(300, 8000)):
            cases.append(G.out_of_range_date(rng))
        cases.extend(['', ' ', '2024', '20240', '2024-', 'D:2024', '2024-05-17T10:30', '2024-05-17T10:30:00',
                      '2024-05-17T10:30:00.Z', '2024-05-17T10:30:00.5', '2024-05-17T10:30Z\n', '\n2024\n\n',
                      '2024-05-17T10:30:00.123456789+23:59', '2024-05-17 10:30Z', '2024-05-17t10:30z'])
        for s in cases:
            out = G.outcome(lambda: _w3c_date_to_pdf(s, 'verif'))
            out = 'none' if out is None else out
            fields = w3c_fields(s)
            fmt = 'nomatch' if out == 'none' else f'len{len(out)}'
            sec.add(sx.line('w3c', G.cps(s)), out, meta={'string': s, 'kind': 'w3c'}, nontrivial=out != 'none',
                    tags=[fmt, 'tz-neg-zero' if fields and fields[6] not in (None, 'Z') and fields[6][0] == '-'
                          and fields[6][1] == 0 else 'other'])

    def sec_pdf_strings(self, run):
        import pydyf
        from harness import c18_pdf
        rng = run.rng
        sec = run.section(
            'pdf-strings',
            'pydyf.String(s).data for ASCII / Unicode / astral / control / lone-surrogate strings against the model '
            'encoder, and the harness PDF string reader against the proved Lean reader on those bytes and on '
            'adversarial literal / hexadecimal strings (escapes, octal, nested parentheses, end-of-line forms, odd '
            'hex digits); non-trivial = needs escaping or UTF-16')
        alphabets = ['abc XYZ 019', '()\\', '()\\ab', '\n\t\r\x0c\x08', 'é中Ω\xa0', '😀𝒳\U0010ffff', '\x18\x1f\x7f\x00',
                     '\ud800\udfff']
        for i in range(run.n(1500, 30000)):
            chosen = rng.sample(alphabets[:7], rng.randint(1, 3)) + (['\ud800\udfff'] if rng.random() < 0.03 else [])
            pool = ''.join(chosen)
            string = ''.join(rng.choice(pool) for _ in range(rng.choice([0, 1, 2, 5, 12, 40])))

            def enc():
                try:
                    return sx.dumps(list(pydyf.String(string).data))
                except UnicodeEncodeError:
                    return 'err:ValueError'
            out = G.outcome(enc)
            kind = ('error' if out.startswith('err') else 'literal' if string.isascii() else 'utf16')
            sec.add(sx.line('pdfenc', G.cps(string)), out, meta={'kind': 'pdfenc', 'string': string},
                    nontrivial=not string.isascii() or any(c in '()\\' for c in string),
                    tags=['enc-' + kind] + [t for t, c in (('enc-escape', any(ch in '()\\' for ch in string)),
                                                           ('enc-cr', '\r' in string and string.isascii()),
                                                           ('enc-astral', any(ord(ch) > 0xffff for ch in string))) if c])
            if not out.startswith('err'):
                data = bytes(pydyf.String(string).data)
                sec.add(sx.line('pdfdec', list(data)), _py_read_string(c18_pdf, data),
                        meta={'kind': 'pdfdec', 'bytes': list(data), 'string': string}, tags=['dec-written'])
        pieces = [b'a', b'(', b')', b'\\', b'\\n', b'\\r', b'\\(', b'\\)', b'\\\\', b'\\101', b'\\7', b'\\12x', b'\\777', b'\r',
                  b'\n', b'\r\n', b'\\\r\n', b'\\\n', b'\\\r', b'\\q', b' ', b'8', b'\x18', b'\x7f', b'\xe9', b'\xfe\xff', b'\x00A']
        hex_pieces = [b'0', b'a', b'F', b'fe', b'ff', b'FEFF', b'00', b'41', b'd83d', b'de00', b'D800', b' ', b'\n', b'g',
                      b'9']
        for i in range(run.n(1500, 30000)):
            if i % 2:
                body = b''.join(rng.choice(pieces) for _ in range(rng.randint(0, 10)))
                data = b'(' + body + rng.choice([b')', b')', b')', b''])
            else:
                body = b''.join(rng.choice(hex_pieces) for _ in range(rng.randint(0, 10)))
                data = b'<' + body + rng.choice([b'>', b'>', b'>', b''])
            data += rng.choice([b'', b'', b' /Next', b')'])
            out = _py_read_string(c18_pdf, data)
            import re as _re
            if i % 2:
                dtags = ['dec-literal'] + [t for t, pat in (
                    ('lit-octal3', rb'\\\\[0-7]{3}'), ('lit-octal12', rb'\\\\[0-7]{1,2}(?![0-7])'), ('lit-escape-letter', rb'\\\\[nrtbf]'),
                    ('lit-continuation', rb'\\\\[\r\n]'), ('lit-raw-cr', rb'(?<!\\\\)\r'), ('lit-nested', rb'(?<!\\\\)\('),
                    ('lit-unknown-escape', rb'\\\\q')) if _re.search(pat, body)]
            else:
                dtags = ['dec-hex'] + [t for t, c in (('hex-odd', len(_re.sub(rb'\s', b'', body)) % 2 == 1),
                                                      ('hex-ws', b' ' in body or b'\n' in body),
                                                      ('hex-bom', body.lower().startswith(b'feff')),
                                                      ('hex-invalid', b'g' in body)) if c]
            dtags.append('dec-unterminated' if out == 'unterminated' else 'dec-undecodable' if 'undecodable' in out
                         else 'dec-text')
            sec.add(sx.line('pdfdec', list(data)), out, meta={'kind': 'pdfdec', 'bytes': list(data)},
                    nontrivial=len(body) >= 2, tags=dtags)

    def sec_metadata(self, run):
        from xml.etree import ElementTree
        from weasyprint import __version__
        from weasyprint.document import DocumentMetadata
        from weasyprint.html import get_html_metadata
        from weasyprint.pdf.metadata import NS, generate_rdf_metadata
        rng = run.rng
        sec = run.section(
            'metadata-direct',
            'get_html_metadata on parsed documents (titles, meta elements in any case / order / repetition, keywords '
            'lists, valid and invalid dates, lang) and generate_rdf_metadata (the XMP packet of PDF/A, PDF/UA) on its '
            'result, parsed back with ElementTree; non-trivial = at least two head elements')
        prefixes = {uri: prefix for prefix, uri in NS.items()}

        def qname(tag):
            uri, _, local = tag[1:].partition('}')
            return f'{prefixes[uri]}:{local}'
        for _ in range(run.n(400, 8000)):
            head = D.gen_head(rng, False)
            if rng.random() < 0.5:
                head = [el for el in head if '\x0c' not in ''.join(el[1:])]   # form feed is not XML
            lang = rng.choice([None, None, 'fr', 'en-GB', ''])
            html = D.doc_html({'head': head, 'lang': lang, 'blocks': [], 'width': 100, 'height': 100, 'margin': 0,
                               'attach_head': D.gen_attach_head(rng)})
            head_wire = [['title', G.cps(el[1])] if el[0] == 'title' else ['meta', G.cps(el[1]), G.cps(el[2])]
                         for el in head]
            lang_wire = None if lang is None else G.cps(lang)

            def opt(v):
                return None if v is None else G.cps(v)

            def real_meta():
                meta = get_html_metadata(docs.html(html))
                return meta, sx.line(opt(meta['title']), opt(meta['description']), opt(meta['generator']),
                                     [G.cps(k) for k in meta['keywords']], [G.cps(a) for a in meta['authors']],
                                     opt(meta['created']), opt(meta['modified']), opt(meta['lang']))
            got = G.outcome(real_meta)
            out = got if isinstance(got, str) else got[1]
            names = sorted({el[1].lower() if el[0] == 'meta' else 'title' for el in head})
            sec.add(sx.line('meta', lang_wire, head_wire), out, meta={'kind': 'meta', 'html': html, 'head': head},
                    nontrivial=len(head) >= 2, tags=['meta-' + n for n in names])
            if isinstance(got, str) or any(c in ''.join(''.join(el[1:]) for el in head) for c in '\x0c\x0b\r'):
                continue
            variant, version, conformance = rng.choice([('a', 1, 'B'), ('a', 3, 'U'), ('a', 4, None), ('ua', 1, None),
                                                        ('a', 2, '')])

            def real_rdf():
                attachments = got[0].pop('attachments')
                metadata = DocumentMetadata(**got[0])
                got[0]['attachments'] = attachments
                root = ElementTree.fromstring(generate_rdf_metadata(metadata, variant, version, conformance))
                fields = []
                for description in root:
                    for key, value in description.attrib.items():
                        if qname(key) != 'rdf:about':
                            fields.append(['@' + qname(key), G.cps(value)])
                    for child in description:
                        items = [li.text or '' for li in child.iter(f'{{{NS["rdf"]}}}li')]
                        fields.append([qname(child.tag)] + [G.cps(t) for t in (items or [child.text or ''])])
                return sx.dumps(fields)
            sec.add(sx.line('rdf', variant, str(version), None if conformance is None else esc(conformance),
                            G.cps(f'WeasyPrint {__version__}'), lang_wire, head_wire),
                    G.outcome(real_rdf), meta={'kind': 'rdf', 'html': html, 'head': head}, nontrivial=len(head) >= 2,
                    tags=[f'rdf-{variant}{version}'])

    def sec_linkattr(self, run):
        from urllib.parse import unquote
        rng = run.rng
        sec = run.section(
            'link-attribute-direct',
            'get_link_attribute on an <a href> element and a base URL (fragment-only hrefs, the document\'s own URL '
            'spelled relatively / absolutely with the same or another query string, other documents, no base URL, '
            'white space, escaped and non-ASCII fragments) and urllib.parse.unquote on escaped strings (valid, '
            'truncated, overlong, surrogate UTF-8); non-trivial = the href has a fragment and is not fragment-only')
        for _ in range(run.n(2500, 20000)):
            href, base = L.gen_case(rng)
            out = L.run_real(href, base)
            found = L.tags(href, base, out)
            sec.add(L.line(href, base), out, meta={'kind': 'linkattr', 'href': href, 'base': base},
                    nontrivial=any(t in found for t in ('same-document', 'same-path-other-query',
                                                        'other-document-with-fragment')), tags=found)
        for _ in range(run.n(800, 6000)):
            string = L.gen_unquote(rng)
            out = G.outcome(lambda: sx.dumps(G.cps(unquote(string))))
            sec.add(sx.line('unquote', G.cps(string)), out, meta={'kind': 'unquote', 'string': string},
                    nontrivial='%' in string,
                    tags=[t for t, c in (('unquote-replacement', '\ufffd' in unquote(string)),
                                         ('unquote-non-ascii', not string.isascii())) if c])

    def sec_attachments(self, run):
        import pydyf
        from weasyprint import Attachment
        from weasyprint.pdf.anchors import add_annotations, write_pdf_attachment
        rng = run.rng
        sec = run.section(
            'attachments-direct',
            'write_pdf_attachment on real Attachment objects (string / URL sources through a stub fetcher: content, '
            'redirects, failures; names, descriptions) and add_annotations over several pages sharing annot_files, on a '
            'real pydyf.PDF(); file specification, embedded stream and annotation objects read back; non-trivial = a '
            'URL used twice or a failing URL')
        for _ in range(run.n(600, 12000)):
            urls = A.gen_urls(rng)
            fetcher, table = A.stub_fetcher(urls)
            # one write_pdf_attachment call
            case = A.gen_attachment(rng, urls)
            pdf = pydyf.PDF()
            for _k in range(rng.randint(0, 3)):
                pdf.add_object(pydyf.Dictionary({'Type': '/Filler'}))
            start = len(pdf.objects)
            attachment = A.real_attachment(Attachment, case, fetcher)

            def call():
                spec = write_pdf_attachment(pdf, attachment, compress=False)
                return A.spec_wire(pdf, spec, case) + ' ' + sx.atom(len(pdf.objects))
            out = G.outcome(call)
            att = A.att_model(case, table)
            guesses = A.guesses_for([att])
            sec.add(sx.line('watt', guesses, start, A.att_wire(att)), out,
                    meta={'kind': 'watt', 'case': case, 'urls': urls, 'start': start},
                    nontrivial=att['size'] is not None,
                    tags=['watt-' + ('failed' if att['size'] is None else 'name' if att['name'] else
                                     'url-basename' if att['urlBase'] is not None else 'default-name'),
                          'watt-' + case['source']])
            # add_annotations over pages
            pages = A.gen_att_pages(rng, urls)
            pdf = pydyf.PDF()
            start = len(pdf.objects)
            out = G.outcome(lambda: A.run_real_annotations(pydyf, add_annotations, pdf, pages, fetcher))
            atts = {u: A.att_model({'source': 'url', 'url': u, 'name': None, 'description': None}, table) for u in urls}
            targets = [l[1] for _, _, links in pages for l in links if l[0] == 'attachment']
            sec.add(sx.line('annots', A.guesses_for(atts.values()), [[esc(u), A.att_wire(a)] for u, a in atts.items()],
                            start, [[scale, height, [[esc(t)] + list(rect) for k, t, rect in links if k == 'attachment']]
                                    for scale, height, links in pages]),
                    out, meta={'kind': 'annots', 'pages': pages, 'urls': urls},
                    nontrivial=len(set(targets)) < len(targets) or any(t not in atts or atts[t]['size'] is None for t in targets),
                    tags=[t for t, c in (('annots-reused-url', len(set(targets)) < len(targets)),
                                         ('annots-failing-url', any(t not in atts or atts[t]['size'] is None for t in targets)),
                                         ('annots-other-link-types', any(l[0] != 'attachment' for _, _, ls in pages
                                                                         for l in ls))) if c])

    # -------------------------------------------------------------- judge / search / replay
    def judge(self, d):
        meta = d.get('meta') or {}
        kind = meta.get('kind')
        impl = d['impl']
        if kind in ('pbt', 'mbt'):
            if kind == 'pbt':
                init = meta['init']
                bookmarks = [b for _, _, chunk in meta['pages'] for b in chunk]
                if list(init[0]) or init[1] != 0 or init[2] != 1:
                    return None          # the clauses speak about the initial state of make_bookmark_tree
            else:
                bookmarks = [b for _, chunk in meta['pages'] for b in chunk]
            levels = [b[0] for b in bookmarks]
            if any(level < 1 for level in levels):
                return None
            if impl.startswith('err:'):
                return f'bookmark levels {levels} (all >= 1): {impl}'
            tree = wire_tree_to_tuples(sx.loads_line(impl)[0])
            what = judge_bookmark_tree(levels, [esc(b[1]) for b in bookmarks], tree)
            if what:
                return what
            if kind == 'pbt':
                # the point of each bookmark through the matrix given for its page, with that page's number
                want = [(n, F(x) * F(m[0]) + F(y) * F(m[2]) + F(m[4]), F(x) * F(m[1]) + F(y) * F(m[3]) + F(m[5]))
                        for n, m, chunk in meta['pages'] for _, _, x, y, _ in chunk]
            else:
                # CSS px from the top of *its own* page -> scaled; with transform_pages, PDF units from the bottom
                scale = F(meta['scale'])
                want = [(i, F(x) * scale, (F(h) - F(y)) * scale if meta['transform'] else F(y) * scale)
                        for i, (h, chunk) in enumerate(meta['pages']) for _, _, x, y, _ in chunk]
            return judge_targets(tree, want)
        if kind == 'outl':
            forest, refs = meta['forest'], meta['refs']
            pages_ok = all(0 <= page < len(refs) for _, (page, _, _), _, _ in _walk(forest))
            if not pages_ok:
                return None
            if impl.startswith('err:') or impl.startswith('bad'):
                return f'add_outlines on a well-formed bookmark tree: {impl}'
            objs, dictionary, count = sx.loads_line(impl)
            conv = [[int(o[0]), o[1], int(o[2]), F(o[3]), F(o[4]), int(o[5])] +
                    [None if v == 'none' else int(v) for v in o[6:]] for o in objs]
            dictionary = None if dictionary == 'none' else [int(v) for v in dictionary]
            return judge_outlines(forest, refs, conv, dictionary, int(count), meta['parent'])
        if kind == 'resolve':
            if impl.startswith('err:'):
                return f'resolve_links raised {impl}'
            parsed, logged = sx.loads_line(impl)
            out = [([(k, t, int(i)) for k, t, i in links], [(n, F(x), F(y)) for n, x, y in anchors])
                   for links, anchors in parsed]
            names = {esc(n) for anchors, _ in meta['pages'] for n, _, _ in anchors}
            missing = [esc(t) for _, links in meta['pages'] for k, t, _ in links if k == 'internal' and esc(t) not in names]
            if logged != missing:
                return f'errors logged for {logged}; the links to missing anchors are {missing}'
            pages = [([(esc(n), x, y) for n, x, y in anchors], [(esc(k), esc(t), i) for k, t, i in links])
                     for anchors, links in meta['pages']]
            return judge_resolved(pages, out)
        if kind == 'aabb':
            return _judge_aabb(meta, impl)
        if kind in ('matmul', 'tpoint'):
            return _judge_matrix(meta, impl)
        if kind == 'gather':
            return judge_gather(meta['spec'], impl)
        if kind == 'watt':
            return judge_watt(meta, impl)
        if kind == 'annots':
            return judge_annots(meta, impl)
        if kind in ('meta', 'rdf'):
            return judge_metadata(meta, impl)
        if kind == 'w3c':
            return judge_date(meta['string'], impl)
        if kind == 'linkattr':
            return L.judge(meta['href'], meta['base'], impl)
        if kind == 'unquote':
            want = sx.dumps(G.cps(L.reference_unquote(meta['string'])))
            return None if impl == want else f'unquote({meta["string"]!r}) gives {impl}, expected {want}'
        if kind in D.DOC_KINDS:
            return D.judge(meta, d)
        return None

    def search(self, run, failures):
        """Function level first (the judges on fresh inputs of the real functions), then documents."""
        from weasyprint.pdf import _w3c_date_to_pdf
        docs.quiet()
        rng = run.rng
        found = []

        def record(what, meta):
            found.append({'what': what, 'input': {'meta': meta}, 'signature': what[:80]})
        battery = ['2024-01-01T24:00Z', '2024-13-01', '2024-12-32', '2024-01-01T23:60Z', '2024-01-01T23:59:60Z',
                   '2024-01-01T00:00+24:00', '2024-01-01T00:00+00:60', '2024-1-01', '24-01-01', '2024-01-01T00:00',
                   '2024-01-01T00:00:00', '2024-01-01 00:00Z', '2024-01-01T0:00Z']
        battery += [G.date_string(rng)[0] for _ in range(300)] + [G.out_of_range_date(rng) for _ in range(100)]
        battery += [f'2001-02-03T04:05:06{sign}{hour:02d}:{minute:02d}' for sign in '+-' for hour in range(24)
                    for minute in (0, 30, 59)]
        for string in battery:
            run.search_stats['evaluations'] += 1
            out = G.outcome(lambda: _w3c_date_to_pdf(string, 'verif'))
            what = judge_date(string, 'none' if out is None else out)
            if what:
                record(what, {'kind': 'w3c', 'string': string})
                break
        for _ in range(300):
            run.search_stats['evaluations'] += 1
            bookmarks = gen_bookmarks(rng, rng.choice([2, 3, 5, 8]))
            pages = [(k, G.rand_matrix_values(rng), chunk) for k, chunk in enumerate(G.split_pages(rng, bookmarks, 3))]
            meta = {'kind': 'pbt', 'init': ([], 0, 1), 'pages': pages}
            what = self.judge({'meta': meta, 'impl': G.outcome(lambda: run_real_pbt(([], 0, 1), pages))})
            if what:
                record(what, meta)
                break
        from weasyprint.document import Document
        for _ in range(300):
            run.search_stats['evaluations'] += 1
            bookmarks = gen_bookmarks(rng, rng.choice([1, 2, 3, 5]))
            pages = [(G.dyadic(rng, 1, 400), chunk) for chunk in G.split_pages(rng, bookmarks, 3)]
            scale, transform = rng.choice([F(1), F(3, 4), F(3, 2)]), rng.random() < 0.7
            stub = SimpleNamespace(pages=[
                SimpleNamespace(height=h, bookmarks=[(lvl, lab, (x, y), st) for lvl, lab, x, y, st in chunk])
                for h, chunk in pages])
            meta = {'kind': 'mbt', 'pages': pages, 'scale': scale, 'transform': transform}
            out = G.outcome(lambda: sx.dumps(G.tree_wire(Document.make_bookmark_tree(stub, scale, transform))))
            what = self.judge({'meta': meta, 'impl': out})
            if what:
                record(what, meta)
                break
        for _ in range(300):
            run.search_stats['evaluations'] += 1
            n_pages = rng.randint(1, 3)
            forest = G.rand_forest(rng, rng.choice([1, 2, 4, 8]), n_pages=n_pages)
            out, refs, _, parent = run_real_outlines(n_pages, [0] * n_pages, forest, False)
            meta = {'kind': 'outl', 'forest': forest, 'refs': refs, 'parent': parent, 'n_pages': n_pages,
                    'gaps': [0] * n_pages}
            what = self.judge({'meta': meta, 'impl': out})
            if what:
                record(what, meta)
                break
        for _ in range(300):
            run.search_stats['evaluations'] += 1
            pages = gen_link_pages(rng)
            meta = {'kind': 'resolve', 'pages': pages}
            what = self.judge({'meta': meta, 'impl': G.outcome(lambda: run_real_resolve(pages))})
            if what:
                record(what, meta)
                break
        for _ in range(600):
            run.search_stats['evaluations'] += 1
            href, base = L.gen_case(rng)
            what = L.judge(href, base, L.run_real(href, base))
            if what:
                record(what, {'kind': 'linkattr', 'href': href, 'base': base})
                break
        for _ in range(300):
            run.search_stats['evaluations'] += 1
            spec = gen_gbox(rng, 2, ['a', 'b'])
            what = judge_gather(spec, G.outcome(lambda: run_real_gather(make_real_gbox(spec))))
            if what:
                record(what, {'kind': 'gather', 'spec': spec})
                break
        if len(found) >= 3:
            return found
        return found + D.search(self, run, failures)

    def finding_replays(self):
        return {'pdf-string-cr': D.replay_pdf_string_cr,
                'embedded-files-duplicate-keys': D.replay_embedded_files_duplicate_keys,
                'anchor-id-shadowed-by-name': D.replay_anchor_id_shadowed}

    def replay(self, data):
        inp = data.get('input', {})
        if 'html' in inp:
            return D.replay_html(inp)
        meta = inp.get('meta') or {}
        kind = meta.get('kind')
        meta = _revive(meta)
        if kind == 'pbt':
            pages = [(n, tuple(F(v) for v in m), [(b[0], b[1], F(b[2]), F(b[3]), b[4]) for b in chunk])
                     for n, m, chunk in meta['pages']]
            init = (list(meta['init'][0]), meta['init'][1], meta['init'][2])
            out = G.outcome(lambda: run_real_pbt(init, pages))
            return self.judge({'meta': dict(meta, init=init, pages=pages), 'impl': out})
        if kind == 'mbt':
            from weasyprint.document import Document
            pages = [(F(h), [(b[0], b[1], F(b[2]), F(b[3]), b[4]) for b in chunk]) for h, chunk in meta['pages']]
            meta = dict(meta, scale=F(meta['scale']))
            stub = SimpleNamespace(pages=[
                SimpleNamespace(height=h, bookmarks=[(lvl, lab, (x, y), st) for lvl, lab, x, y, st in chunk])
                for h, chunk in pages])
            out = G.outcome(lambda: sx.dumps(G.tree_wire(
                Document.make_bookmark_tree(stub, meta['scale'], meta['transform']))))
            return self.judge({'meta': dict(meta, pages=pages), 'impl': out})
        if kind == 'outl':
            forest = _tuple_forest(meta['forest'])
            out, refs, _, parent = run_real_outlines(meta['n_pages'], meta['gaps'], forest, meta['parent'] is not None)
            return self.judge({'meta': dict(meta, forest=forest, refs=refs, parent=parent), 'impl': out})
        if kind == 'resolve':
            pages = [([(a[0], F(a[1]), F(a[2])) for a in anchors], [tuple(l) for l in links])
                     for anchors, links in meta['pages']]
            out = G.outcome(lambda: run_real_resolve(pages))
            return self.judge({'meta': dict(meta, pages=pages), 'impl': out})
        if kind == 'aabb':
            from weasyprint.anchors import rectangle_aabb
            m = None if meta['matrix'] is None else tuple(F(v) for v in meta['matrix'])
            rect = tuple(F(v) for v in meta['rect'])
            out = G.outcome(lambda: sx.line(*[G.frac(v) for v in rectangle_aabb(
                None if m is None else G.real_matrix(m), *rect)]))
            return self.judge({'meta': dict(meta, matrix=m, rect=rect), 'impl': out})
        if kind in ('matmul', 'tpoint'):
            m = tuple(F(v) for v in meta['m'])
            if kind == 'matmul':
                n = tuple(F(v) for v in meta['n'])
                out = G.outcome(lambda: sx.line(*[G.frac(v) for v in (G.real_matrix(m) @ G.real_matrix(n)).values]))
                return self.judge({'meta': dict(meta, m=m, n=n), 'impl': out})
            point = tuple(F(v) for v in meta['p'])
            out = G.outcome(lambda: sx.line(*[G.frac(v) for v in G.real_matrix(m).transform_point(*point)]))
            return self.judge({'meta': dict(meta, m=m, p=point), 'impl': out})
        if kind == 'meta':
            from weasyprint.html import get_html_metadata

            def opt(v):
                return None if v is None else G.cps(v)

            def real_meta():
                got = get_html_metadata(docs.html(meta['html']))
                return sx.line(opt(got['title']), opt(got['description']), opt(got['generator']),
                               [G.cps(k) for k in got['keywords']], [G.cps(a) for a in got['authors']],
                               opt(got['created']), opt(got['modified']), opt(got['lang']))
            return judge_metadata(meta, G.outcome(real_meta))
        if kind == 'w3c':
            from weasyprint.pdf import _w3c_date_to_pdf
            out = G.outcome(lambda: _w3c_date_to_pdf(meta['string'], 'verif'))
            return judge_date(meta['string'], 'none' if out is None else out)
        if kind == 'gather':
            spec = _revive_gbox(meta['spec'])
            return judge_gather(spec, G.outcome(lambda: run_real_gather(make_real_gbox(spec))))
        if kind == 'linkattr':
            return L.judge(meta['href'], meta['base'], L.run_real(meta['href'], meta['base']))
        if kind == 'unquote':
            from urllib.parse import unquote
            out = G.outcome(lambda: sx.dumps(G.cps(unquote(meta['string']))))
            return self.judge({'meta': meta, 'impl': out})
        if kind == 'watt':
            import pydyf
            from weasyprint import Attachment
            from weasyprint.pdf.anchors import write_pdf_attachment
            fetcher, _ = A.stub_fetcher(meta['urls'])
            pdf = pydyf.PDF()
            while len(pdf.objects) < meta['start']:
                pdf.add_object(pydyf.Dictionary({'Type': '/Filler'}))
            attachment = A.real_attachment(Attachment, meta['case'], fetcher)
            out = G.outcome(lambda: A.spec_wire(pdf, write_pdf_attachment(pdf, attachment, compress=False),
                                                meta['case']) + ' ' + sx.atom(len(pdf.objects)))
            return judge_watt(meta, out)
        if kind == 'annots':
            import pydyf
            from weasyprint.pdf.anchors import add_annotations
            fetcher, _ = A.stub_fetcher(meta['urls'])
            pages = [(F(p[0]), F(p[1]), [(l[0], l[1], tuple(F(v) for v in l[2])) for l in p[2]]) for p in meta['pages']]
            out = G.outcome(lambda: A.run_real_annotations(pydyf, add_annotations, pydyf.PDF(), pages, fetcher))
            return judge_annots(dict(meta, pages=pages), out)
        if kind in D.DOC_KINDS:
            return D.replay_meta(meta)
        return None


def _py_read_string(c18_pdf, data):
    """The harness reader on a string object at the head of `data`, in the output form of `pdfdec`."""
    got = (c18_pdf.read_literal(data, 1) if data[:1] == b'(' else c18_pdf.read_hex(data, 1) if data[:1] == b'<'
           else None)
    if got is None:
        return 'unterminated'
    raw, pos = got
    text = c18_pdf.text_of(raw)
    return (sx.dumps(list(raw)) + ' ' + ('undecodable' if text is None else sx.dumps(G.cps(text))) + ' ' +
            sx.atom(len(data) - pos))


def _revive(x):
    """JSON replay data -> Fractions (written by json.dumps(default=str) as 'n/d' strings)."""
    import re
    if isinstance(x, str) and re.fullmatch(r'-?\d+/\d+', x):
        return F(x)
    if isinstance(x, list):
        return [_revive(v) for v in x]
    if isinstance(x, dict):
        return {k: _revive(v) for k, v in x.items()}
    return x


def _revive_gbox(spec):
    """A mock-box spec read back from a replay file: every number a Fraction again (json.dumps(default=str)
    writes Fraction(5) as '5', which `_revive` cannot tell from a label)."""
    def dim(d):
        return [d[0], F(d[1])]

    def op(o):
        if o[0] == 'translate':
            return ['translate', dim(o[1]), dim(o[2])]
        return [o[0]] + [F(v) for v in o[1:]]
    return dict(spec, ops=[op(o) for o in spec['ops']], origin=[dim(d) for d in spec['origin']],
                geom={k: F(v) for k, v in spec['geom'].items()}, kids=[_revive_gbox(k) for k in spec['kids']])


def _tuple_forest(items):
    return [(lab, (t[0], F(t[1]), F(t[2])), _tuple_forest(kids), st) for lab, t, kids, st in items]


def _walk(forest):
    for node in forest:
        yield node
        yield from _walk(node[2])


def _judge_aabb(meta, impl):
    m, (x, y, w, h) = meta['matrix'], meta['rect']
    if impl.startswith('err:'):
        return f'rectangle_aabb raised {impl}'
    x1, y1, x2, y2 = [F(v) for v in impl.split()]
    if m is None:
        corners = [(x, y), (x + w, y), (x, y + h), (x + w, y + h)]
        if (x1, y1, x2, y2) != (x, y, x + w, y + h):
            return f'untransformed rectangle {(x, y, w, h)} gives {(x1, y1, x2, y2)}'
        return None
    a, b, c, d, e, f = m
    corners = [(px * a + py * c + e, px * b + py * d + f) for px, py in
               [(x, y), (x + w, y), (x, y + h), (x + w, y + h)]]
    xs, ys = [p[0] for p in corners], [p[1] for p in corners]
    if (x1, y1, x2, y2) != (min(xs), min(ys), max(xs), max(ys)):
        return (f'rectangle_aabb of {(x, y, w, h)} under {m} is {(x1, y1, x2, y2)}; the bounding box of the '
                f'transformed corners is {(min(xs), min(ys), max(xs), max(ys))}')
    return None


def _judge_matrix(meta, impl):
    """Matrix.__matmul__ / transform_point on affine matrices: (x, y) -> (x a + y c + e, x b + y d + f);
    `m @ n` transforms by m first, then by n."""
    if impl.startswith('err:'):
        return f'Matrix operation raised {impl}'
    got = tuple(F(v) for v in impl.split())
    a, b, c, d, e, f = [F(v) for v in meta['m']]

    def point(matrix, x, y):
        return x * matrix[0] + y * matrix[2] + matrix[4], x * matrix[1] + y * matrix[3] + matrix[5]
    if meta['kind'] == 'tpoint':
        want = point((a, b, c, d, e, f), *[F(v) for v in meta['p']])
        return None if got == want else f'Matrix{meta["m"]}.transform_point{tuple(meta["p"])} gives {got}, expected {want}'
    n = [F(v) for v in meta['n']]
    # the product is determined by the images of (0, 0), (1, 0), (0, 1)
    images = [point(n, *point((a, b, c, d, e, f), x, y)) for x, y in ((0, 0), (1, 0), (0, 1))]
    want = (images[1][0] - images[0][0], images[1][1] - images[0][1], images[2][0] - images[0][0],
            images[2][1] - images[0][1], images[0][0], images[0][1])
    return None if got == want else f'Matrix{meta["m"]} @ Matrix{meta["n"]} gives {got}, expected {want}'


def _has_transformed_payload(spec, under):
    under = under or (bool(spec['ops']) and spec['kind'] != 'inline')
    payload = (spec['label'] and spec['level']) or spec['link'] or spec['anchor']
    return bool(under and payload) or any(_has_transformed_payload(k, under) for k in spec['kids'])


def _gather_tags(spec):
    tags = set()

    def walk(s, seen):
        if s['ops']:
            tags.add('transform-inline-ignored' if s['kind'] == 'inline' else 'transform')
        if s['link']:
            tags.add('link-on-text/line' if s['kind'] in ('text', 'line') else 'link')
            if s['attachment'] and s['link'][0] == 'external' and s['kind'] not in ('text', 'line'):
                tags.add('attachment')
        if s['anchor']:
            tags.add('anchor-duplicate' if s['anchor'] in seen else 'anchor')
            seen.add(s['anchor'])
        if s['label'] and s['level']:
            tags.add('bookmark')
        if s['kind'] == 'inline' and (s['link'] or s['anchor'] or (s['label'] and s['level'])):
            g = s['geom']
            if g['margin_left'] or g['margin_right']:
                tags.add('inline-horizontal-margin')
            if g['margin_top'] or g['margin_bottom']:
                tags.add('inline-vertical-margin')
        for k in s['kids']:
            walk(k, seen)
    walk(spec, set())
    return sorted(tags)


PROP = C18()

MANIFEST = {
    'design_ref': 'DESIGN.md §4 C18',
    'technique': 'Lean 4 theorems over hand-written models of the bookmark-tree builder, add_outlines, resolve_links, '
                 'gather_anchors / rectangle_aabb and the W3C->PDF date converter (regex pattern, key tuples and tz '
                 'graph regenerated from the source each run); executable correspondence with the real functions '
                 '(direct calls with stub pages, real pydyf objects, real boxes) and with rendered documents '
                 '(Page.bookmarks/links/anchors, make_bookmark_tree, /Outlines /Dests /Annots /Info of the PDF)',
    'text': 'Unbounded theorems: PDF strings written by pydyf read back unchanged (UTF-16 for any Unicode, literal for '
            'plain ASCII); gather_anchors over a page is a fold over its boxes in document order (one link entry per '
            'link-carrying box fragment, first box wins for an id); make_bookmark_tree composed with add_outlines '
            'never fails and lists every bookmark once in order; attachments are embedded unchanged, in order, one '
            'file per distinct URL, failures skipped; every link is either emitted or reported; a link is internal only '
            'for a bare fragment or the document\'s own URL (same scheme, host, path and query) and then targets the unquoted '
            'fragment, otherwise it carries the resolved URL; unquote undoes iri_to_uri; the clickable rectangle of a box is '
            'its border box (inline: over the line height) computed from the used values; /Dests is sorted by the bytes of '
            'its keys for every set of names, and so is /EmbeddedFiles for every list of attachments (equal names in document order); every outline entry points into its own page (its number, its height) whatever the page sizes; a PDF written from a selection of the pages (Document.copy) keeps on each page exactly the links of the whole document minus the internal ones whose anchor is on no selected page, and a document written again embeds the same files; at document level (resolve_links + add_links + the name sort as compared with written PDFs) no /Link names a missing /Dests key, every key is there once, in byte order, and points into a page carrying that anchor. Also: the bookmark builder never fails on levels >= 1 however the list is split over pages, '
            'the pre-order of its tree is the bookmark list, depths follow the nearest-smaller-level rule and the '
            'result does not depend on the page split; add_outlines links siblings both ways, sets First/Last/Parent '
            'and Count = visible descendants; resolve_links emits no dangling internal link and lists every anchor '
            'once at its first page; rectangle_aabb contains the four transformed corners and is tight; the PDF '
            'date reads back as the W3C date for all six formats and every time zone.',
    'note': 'Trusted: Lean kernel, the extractor, the harness abstraction of real boxes / pydyf objects, Python re. '
            'rotate()/skew() and attachment bytes are outside the models.',
}
