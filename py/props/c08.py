"""C08 — box generation: right boxes, anonymous fix-ups, text preserved."""
import copy
import itertools
import re

from extract import box_kinds, char_table, content_tables
from harness import boxtree as bt
from harness import docs
from vlib import sx
from vlib.framework import PropCheck

WS_VALUES = bt.WS_VALUES
COLLAPSE = ('normal', 'nowrap', 'pre-line')
WHITE = ' \t\n\r'


def build_mod():
    from weasyprint.formatting_structure import build
    return build


def cps(text):
    return [ord(c) for c in text]


def show(box):
    return sx.dumps(bt.ser(box))


# ------------------------------------------------------------------------------------------------
# property clauses stated directly on the implementation's output (judge / search only)

def nonspace(text):
    return [c for c in text if c not in WHITE]


CSS_WHITE = ' \t\n\r\f'      # the characters the white-space property acts on (css-text-3 4.1)


def visible_chars(text):
    """The characters that must survive box generation, as a multiset (tables move captions, headers and
    footers): everything but CSS white space.  NBSP, U+2003, U+2028 ... are text."""
    return sorted(c for c in text if c not in CSS_WHITE)


def reference_transform(text, text_transform, hyphens):
    """css-text-3 2.1 / 6.1 on one text run."""
    import unicodedata
    if text_transform == 'uppercase':
        text = text.upper()
    elif text_transform == 'lowercase':
        text = text.lower()
    elif text_transform == 'capitalize':
        out, start = '', True
        for ch in text:
            cat = unicodedata.category(ch)[0]
            if start and cat in 'LN':
                out += ch.upper()
                start = False
            else:
                out += ch
                if cat == 'Z':
                    start = True
        text = out
    elif text_transform == 'full-width':
        text = ''.join('\u3000' if c == ' ' else chr(ord(c) + 0xfee0) if 0x21 <= ord(c) <= 0x7e else c for c in text)
    if hyphens == 'none':
        text = text.replace('\xad', '')
    return text


def transform_violation(before_box, expected, result):
    """process_text_transform: every text run of the inline content of the box is transformed as its own
    style says (the fullwidth form of '-' is accepted as U+FF0D or, as the code has it, U+2212)."""
    from weasyprint.formatting_structure import boxes
    texts = [b for b, _ in walk_real(result) if isinstance(b, boxes.TextBox)]
    for box, (original, want, must) in zip(texts, expected):
        got = box.text.replace('\u2212', '\uff0d')
        want = want.replace('\u2212', '\uff0d')
        if got != want and not (not must and box.text == original):
            return (f'text-transform:{box.style["text_transform"]} hyphens:{box.style["hyphens"]} turned '
                    f'{original!r} into {box.text!r}, expected {want!r}')
    return None


def transform_expectations(box):
    """[(original text, transformed text, must be transformed)] for the text boxes in tree order: the
    text runs reached from the box through inline boxes only belong to its inline content."""
    from weasyprint.formatting_structure import boxes
    out = []

    def visit(b, reached):
        if isinstance(b, boxes.TextBox):
            out.append((b.text, reference_transform(b.text, b.style['text_transform'], b.style['hyphens']), reached))
            return
        for child in getattr(b, 'children', ()):
            visit(child, reached and not b.is_running() and isinstance(child, (boxes.TextBox, boxes.InlineBox)))
    visit(box, True)
    return out


def empty_column_groups(box):
    """[(column group box, number of columns its span attribute asks for)] for groups without any child."""
    from weasyprint.formatting_structure import boxes
    out = []
    for b, _ in walk_real(box):
        if isinstance(b, boxes.TableColumnGroupBox) and not b.children:
            value = bt.parse_attr(b.element, 'span')
            out.append((b, max(value, 1) if value is not None else 1))
    return out


def flow_text(box):
    """Text of the inline content of a box in normal flow (None when some run does not collapse)."""
    from weasyprint.formatting_structure import boxes
    parts = []

    def visit(b):
        for child in b.children:
            if not child.is_in_normal_flow():
                continue
            if isinstance(child, boxes.TextBox):
                if child.style['white_space'] not in COLLAPSE:
                    raise ValueError
                parts.append(child.text)
            elif isinstance(child, boxes.InlineBox):
                visit(child)
            else:
                parts.append('\ufffc')
    try:
        visit(box)
    except ValueError:
        return None
    return ''.join(parts)


def counter_missing(required, got):
    """Characters of `required` (a Counter) that `got` lacks."""
    import collections
    return collections.Counter(required) - collections.Counter(got)


def required_chars(text, ws, processed_by_pw=False):
    """What must reach the box tree of one text run: under a collapsing white-space value everything but
    white space; under pre / pre-wrap every character (spaces, tabs and newlines are content there)."""
    if ws in COLLAPSE:
        return [c for c in text if c not in CSS_WHITE]
    if processed_by_pw == 'every-run':      # a document: every element's box goes through process_whitespace
        text = text.replace('\r\n', '\n').replace('\r', '\n')
    elif processed_by_pw:
        # one call on a tree: line feeds are normalised in the runs process_whitespace enters and left alone
        # in the others (inside atomic inlines and blocks); `ifc_violation` states the exact text of the former
        return [c for c in text if c not in '\r\n']
    return list(text)


def box_segments(box, out=None):
    """Text runs of a real box tree before a rewriting step: (text, white-space, may_vanish).
    A run may vanish only where a specification says so: white-space-only text that is a direct child
    of a flex / grid container (css-flexbox-1 4, css-grid-2 6.1), that sits between two internal table
    boxes / captions (CSS 2.1 17.2.1 rule 1.4) or is the first / last child of a tabular container next to
    one (rule 1.3) - the anonymous wrappers re-apply the rules to contiguous runs of the same children, so
    the neighbours are those of the input -, and anything inside a column / column group.  White space is CSS
    white space: NBSP, U+2003, U+2028 among table parts are text and must stay."""
    from weasyprint.formatting_structure import boxes
    out = [] if out is None else out
    if isinstance(box, (boxes.TableColumnBox, boxes.TableColumnGroupBox)):
        return out
    kids = list(getattr(box, 'children', ()))
    internal = [bool(k.internal_table_or_caption) for k in kids]
    item_context = isinstance(box, (boxes.FlexContainerBox, boxes.GridContainerBox))
    last = len(kids) - 1
    for i, kid in enumerate(kids):
        if isinstance(kid, boxes.TextBox):
            text = kid.text
            css_white = all(c in CSS_WHITE for c in text)
            before, after = i > 0 and internal[i - 1], i < last and internal[i + 1]
            # rule 1.4: between two internal table boxes / captions, under any parent; rule 1.3: first or last
            # child of a tabular container, next to an internal table box / caption
            between = before and after
            edge = bool(box.tabular_container) and last >= 1 and ((i == last and before) or (i == 0 and after))
            may_vanish = css_white and (item_context or between or edge)
            out.append((text, kid.style['white_space'], may_vanish))
        else:
            box_segments(kid, out)
    return out


def text_reaches_violation(segments, result, what, processed_by_pw=False):
    """Text reaches the box tree unchanged: every required character of every run that may not vanish is
    in the result, and (for steps that do not rewrite text) nothing else appears."""
    import collections
    got = collections.Counter(real_text_all(result))
    required = collections.Counter()
    everything = collections.Counter()
    for text, ws, may_vanish in segments:
        everything.update(text)
        if not may_vanish:
            required.update(required_chars(text, ws, processed_by_pw))
    missing = required - got
    if missing:
        lost = ''.join(sorted(missing.elements()))
        return f'{what} lost the characters {lost!r}: {[s[:2] for s in segments]!r} -> {real_text_all(result)!r}'
    if not processed_by_pw:
        extra = got - everything
        if extra:
            return f'{what} invented the characters {"".join(sorted(extra.elements()))!r}'
    return None


def real_text_all(box):
    """Every character of every text box of the result (column_groups hold none)."""
    from weasyprint.formatting_structure import boxes
    if isinstance(box, boxes.TextBox):
        return box.text
    return ''.join(real_text_all(c) for c in getattr(box, 'children', ()))


def words(text):
    return [w for w in re.split('[ \t\n\r]+', text) if w]


def ws_violation(ws, text, fcs, out):
    """CSS 2.1 16.6.1 (first part) on one text run."""
    if nonspace(out) != nonspace(text):
        return f'non-white-space characters changed: {text!r} -> {out!r}'
    if words(out) != words(text):
        return f'words changed: {text!r} -> {out!r}'
    normalised = text.replace('\r\n', '\n').replace('\r', '\n')
    if ws in ('pre', 'pre-wrap'):
        if out != normalised:
            return f'white-space:{ws} must only normalise line feeds: {text!r} -> {out!r}'
        return None
    if '  ' in out or '\t' in out or '\r' in out:
        return f'white-space:{ws} left a tab / CR / double space: {text!r} -> {out!r}'
    if ws in ('normal', 'nowrap') and '\n' in out:
        return f'white-space:{ws} left a newline: {text!r} -> {out!r}'
    if ws == 'pre-line':
        if out.count('\n') != normalised.count('\n'):
            return f'white-space:pre-line changed the number of newlines: {text!r} -> {out!r}'
        if ' \n' in out or '\n ' in out:
            return f'white-space:pre-line kept a space around a newline: {text!r} -> {out!r}'
    if fcs and out.startswith(' '):
        return f'a space follows a collapsible space: {text!r} -> {out!r}'
    return None


def reference_run(text, ws):
    """CSS 2.1 16.6.1 steps 1-4 on one text run taken alone (css-text-3 4.1.1 / 4.1.2)."""
    text = text.replace('\r\n', '\n').replace('\r', '\n')
    if ws in COLLAPSE:
        text = re.sub('[ \t]*\n[ \t]*', '\n', text)                   # spaces and tabs around a line feed
    if ws in ('normal', 'nowrap'):
        text = text.replace('\n', ' ')                                 # segment breaks become spaces
    if ws in COLLAPSE:
        text = re.sub('[ \t]+', ' ', text)                             # tabs -> spaces, runs -> one space
    return text


def ifc_expectations(box, fcs):
    """CSS 2.1 16.6.1 step 4 across one inline formatting context: "a collapsible space following another
    collapsible space - even one outside the boundary of the inline containing that space, provided both are
    within the same inline formatting context - is removed".  -> [(text box, original text, expected text |
    None)] in tree order, computed before the call.  A preserved run (pre, pre-wrap), an atomic inline or a
    block in flow ends the 'previous character is a collapsible space' state; empty texts and out-of-flow boxes
    do not touch it.  The box itself may be anything - a float, an absolutely positioned box: its inline
    content is one formatting context all the same.  Not judged (None): text inside out-of-flow *children*
    (another formatting context) and inside boxes process_whitespace does not enter."""
    from weasyprint.formatting_structure import boxes
    out = []

    def unjudged(b):
        for child in getattr(b, 'children', ()):
            if isinstance(child, boxes.TextBox):
                out.append((child, child.text, None))
            else:
                unjudged(child)

    def visit(b, state):
        for child in b.children:
            if isinstance(child, boxes.TextBox):
                if not child.is_in_normal_flow():
                    out.append((child, child.text, None))
                    continue
                if not child.text:
                    out.append((child, child.text, ''))
                    continue
                ws = child.style['white_space']
                alone = reference_run(child.text, ws)
                if ws in COLLAPSE:
                    out.append((child, child.text, alone[1:] if state and alone.startswith(' ') else alone))
                    state = alone.endswith(' ')
                else:
                    out.append((child, child.text, alone))
                    state = False
            elif isinstance(child, boxes.InlineBox):
                if child.is_in_normal_flow():
                    state = visit(child, state)
                else:
                    unjudged(child)
            else:
                unjudged(child)
                if child.is_in_normal_flow():
                    state = False
        return state
    if isinstance(box, boxes.TextBox):
        return None
    visit(box, fcs)
    return out


def ifc_violation(expectations, what='process_whitespace'):
    """Compare the texts after the call with `ifc_expectations` taken before it."""
    if expectations is None:
        return None
    for i, (tbox, original, expected) in enumerate(expectations):
        if expected is not None and tbox.text != expected:
            before = [(o, b.style['white_space']) for b, o, _ in expectations[:i + 1]]
            return (f'{what}: white space across the runs of one inline formatting context: run {i} '
                    f'{original!r} (white-space: {tbox.style["white_space"]}) became {tbox.text!r}, expected '
                    f'{expected!r} after {before[:-1]!r}')
    return None


def threading_violation(texts, fcs=False, nested=()):
    """CSS 2.1 16.6.1 across the text runs of one inline formatting context: [(text, white-space)] (any
    white-space values), processed by the real process_whitespace inside one inline box; the runs whose index
    is in `nested` sit in an inline box of their own."""
    from weasyprint.formatting_structure import boxes
    texts = [tuple(t) for t in texts]
    kids = [boxes.TextBox('span', bt.style_from('-', ws), None, text or 'x') for text, ws in texts]
    for k, (text, _) in zip(kids, texts):
        k.text = text
    children = [boxes.InlineBox('span', bt.style_from('-', k.style['white_space']), None, [k]) if i in nested else k
                for i, k in enumerate(kids)]
    parent = boxes.InlineBox('span', bt.style_from('-', 'normal'), None, children)
    expectations = ifc_expectations(parent, fcs)
    try:
        build_mod().process_whitespace(parent, fcs)
    except Exception as exc:  # noqa: BLE001
        return f'process_whitespace raised {type(exc).__name__} on {texts!r}'
    what = ifc_violation(expectations)
    if what:
        return what
    if all(ws in COLLAPSE for _, ws in texts):
        out = ''.join(k.text for k in kids)
        if '  ' in out:
            return f'two consecutive spaces across text boxes: {texts!r} -> {[k.text for k in kids]!r}'
        if fcs and out.startswith(' '):
            return f'a space follows a collapsible space: {texts!r} -> {[k.text for k in kids]!r}'
    source = ''.join(t for t, _ in texts)
    out = ''.join(k.text for k in kids)
    if nonspace(out) != nonspace(source):
        return f'characters changed: {texts!r} -> {[k.text for k in kids]!r}'
    return None


def anonymous_table_violation(root):
    """CSS 2.1 17.2.1 rule 3.2 (css-tables-3 3.7.1 step 3.2) on the result of anonymous_table_boxes, where the
    parent of an anonymous table wrapper still is the box it was generated from: the anonymous table around
    misparented table parts is an inline-table iff that parent is an inline box, and a table otherwise (block
    container, inline-block, flex / grid container, cell, caption ...); the wrapper is an inline-block iff
    the table is an inline-table."""
    from weasyprint.css import AnonymousStyle
    from weasyprint.formatting_structure import boxes
    for box, parent in walk_real(root):
        if parent is None or parent.is_running() or not box.is_table_wrapper:
            continue
        if not isinstance(box.style, AnonymousStyle) or box.element is not parent.element:
            continue
        for table in box.children:
            if (isinstance(table, boxes.TableBox) and isinstance(table.style, AnonymousStyle) and
                    table.element is parent.element):
                inline_parent = isinstance(parent, boxes.InlineBox)
                if inline_parent != isinstance(table, boxes.InlineTableBox):
                    return (f'the anonymous table generated for table parts inside a {type(parent).__name__} is a '
                            f'{type(table).__name__} (an inline-table goes inside inline boxes only, a block-level '
                            'table everywhere else)')
                if isinstance(table, boxes.InlineTableBox) != isinstance(box, boxes.InlineBlockBox):
                    return f'the wrapper of an anonymous {type(table).__name__} is a {type(box).__name__}'
    return None


def document_anonymous_table_violation(root):
    """The same on a final box tree of a document: the box an anonymous table was generated from is the
    principal box of its element (or an anonymous box that is not an inline box)."""
    from weasyprint.css import AnonymousStyle
    from weasyprint.formatting_structure import boxes
    principal = {}
    for box, _ in walk_real(root):
        # the block flex_children / grid_children put around an inline-level item shares the item's style
        item_wrapper = (type(box) is boxes.BlockBox and (box.is_flex_item or box.is_grid_item) and
                        box.style['display'][0] == 'inline')
        if (not isinstance(box.style, AnonymousStyle) and box.element is not None and not item_wrapper and
                not isinstance(box, boxes.TextBox) and '::' not in (box.element_tag or '')):
            principal.setdefault(id(box.element), box)
    for box, parent in walk_real(root):
        if (isinstance(box, boxes.TableBox) and isinstance(box.style, AnonymousStyle) and parent is not None and
                parent.is_table_wrapper and parent.element is box.element and not box.is_running()):
            owner = principal.get(id(box.element))
            if owner is None or owner.is_running() or isinstance(owner, boxes.TableBox):
                continue
            if isinstance(owner, boxes.InlineBox) != isinstance(box, boxes.InlineTableBox):
                return (f'the anonymous table generated for table parts inside the {type(owner).__name__} of '
                        f'<{owner.element_tag} n={owner.element.get("n")}> is a {type(box).__name__}')
    return None


def capitalize_violation(text, out):
    """text-transform: capitalize = first letter/number of each word (words split at Z* characters)."""
    import unicodedata
    expect, start = '', True
    for ch in text:
        cat = unicodedata.category(ch)[0]
        if start and cat in 'LN':
            expect += ch.upper()
            start = False
        else:
            expect += ch
            if cat == 'Z':
                start = True
    return None if out == expect else f'capitalize({text!r}) = {out!r}, expected {expect!r}'


def proper_children_violation(box):
    """tests/testing_utils._sanity_checks (PROPER_CHILDREN) on a final box tree."""
    from weasyprint.formatting_structure import boxes
    if not isinstance(box, boxes.ParentBox) or box.is_running():
        return None     # running elements are left as they are until they are copied into a margin box
    table = (
        (boxes.BlockContainerBox, ((boxes.BlockLevelBox,), (boxes.LineBox,))),
        (boxes.LineBox, ((boxes.InlineLevelBox,),)),
        (boxes.InlineBox, ((boxes.InlineLevelBox,),)),
        (boxes.TableBox, ((boxes.TableCaptionBox, boxes.TableColumnGroupBox, boxes.TableColumnBox,
                           boxes.TableRowGroupBox, boxes.TableRowBox),)),
        (boxes.TableColumnGroupBox, ((boxes.TableColumnBox,),)),
        (boxes.TableRowGroupBox, ((boxes.TableRowBox,),)),
        (boxes.TableRowBox, ((boxes.TableCellBox,),)),
    )
    for cls in type(box).mro():
        lists = [lists for c, lists in table if c is cls]
        if lists:
            ok = any(all(isinstance(child, types) or not child.is_in_normal_flow() for child in box.children)
                     for types in lists[0])
            if not ok:
                return f'{type(box).__name__} has children {[type(c).__name__ for c in box.children]}'
            break
    if isinstance(box, boxes.TableBox) and not box.is_running():
        pass
    for child in box.children:
        what = proper_children_violation(child)
        if what:
            return what
    return None


def tables_violation(box, allow_known=True):
    """Every table is inside a wrapper; the cells of a row group own disjoint slot rectangles."""
    from weasyprint.formatting_structure import boxes
    if box.is_running():
        return None     # running elements are not fixed up (known finding running-table-part-crash)
    for child in getattr(box, 'children', ()):
        if (isinstance(child, boxes.TableBox) and not box.is_table_wrapper and not box.is_running() and
                not child.is_running()):
            return f'{type(child).__name__} is not inside a table wrapper'
        what = tables_violation(child, allow_known)
        if what:
            return what
    if box.is_table_wrapper:
        seen_table = False
        for child in box.children:
            if isinstance(child, boxes.TableBox):
                seen_table = True
            elif isinstance(child, boxes.TableCaptionBox):
                side = child.style['caption_side']
                if (side == 'top') == seen_table:
                    return f'a caption with caption-side: {side} is {"after" if seen_table else "before"} the table'
    if isinstance(box, boxes.TableBox) and hasattr(box, 'column_groups'):
        for group in box.children:
            what = group_slots_violation(group, allow_known)
            if what:
                return what
        # CSS 2.1 17.2: only the first table-header-group / table-footer-group is a header / footer; the
        # header comes first, the footer last
        groups = list(box.children)
        headers = [g for g in groups if getattr(g, 'is_header', False)]
        footers = [g for g in groups if getattr(g, 'is_footer', False)]
        if len(headers) > 1 or len(footers) > 1:
            return f'a table with {len(headers)} header and {len(footers)} footer groups'
        if headers and headers[0] is not groups[0]:
            return 'the header group is not the first row group of the table'
        if footers and footers[0] is not groups[-1]:
            return 'the footer group is not the last row group of the table'
        for flag, display, found in (('header', ('table-header-group',), headers),
                                     ('footer', ('table-footer-group',), footers)):
            styled = [g for g in groups if g.style['display'] == display]
            if styled and not found:
                return f'a table with a {display[0]} but no {flag}'
            if found and found[0].style['display'] != display:
                return f'the {flag} of the table has display {found[0].style["display"]}'
    return None


def group_slots_violation(group, allow_known=True):
    owner = {}
    n_rows = len(group.children)
    for y, row in enumerate(group.children):
        for cell in row.children:
            if not hasattr(cell, 'grid_x'):
                return 'cell without grid_x'
            if y + cell.rowspan > n_rows or cell.rowspan < 1:
                return f'rowspan {cell.rowspan} of a cell in row {y} leaves its group of {n_rows} rows'
            if cell.colspan < 1:
                return f'a cell with colspan {cell.colspan} owns no grid slot (HTML: colspan is clamped to >= 1)'
            # the rectangle is the one the attributes ask for (HTML 4.9.11): colspan as written (at least 1),
            # rowspan clipped to the row group, rowspan=0 = down to the end of the group
            want_cols, want_rows = bt.parse_attr(cell.element, 'colspan'), bt.parse_attr(cell.element, 'rowspan')
            if cell.colspan != (max(want_cols, 1) if want_cols is not None else 1):
                return f'a cell with colspan={cell.element.get("colspan")!r} spans {cell.colspan} columns'
            if want_rows is None or want_rows >= 0:
                expect = n_rows - y if want_rows == 0 else min(1 if want_rows is None else want_rows, n_rows - y)
                if cell.rowspan != expect:
                    return (f'a cell with rowspan={cell.element.get("rowspan")!r} in row {y} of a group of {n_rows} '
                            f'rows spans {cell.rowspan} rows, expected {expect}')
            for yy in range(y, y + cell.rowspan):
                for xx in range(cell.grid_x, cell.grid_x + cell.colspan):
                    if (yy, xx) in owner:
                        oy, ox, ocs = owner[(yy, xx)]
                        known = cell.colspan > 1 and xx > cell.grid_x and oy < y
                        if not (allow_known and known):
                            return f'slot ({yy},{xx}) owned by two cells'
                    else:
                        owner[(yy, xx)] = (y, cell.grid_x, cell.colspan)
    return None


def leaf_text(node, skip_columns=True):
    """Concatenated text of an abstract tree (columns / column groups hold no rendered text)."""
    if skip_columns and node[0] in ('TableColumnBox', 'TableColumnGroupBox'):
        return ''
    if node[0] == 'TextBox':
        return node[5]
    return ''.join(leaf_text(k, skip_columns) for k in node[6])


def real_text(box):
    from weasyprint.formatting_structure import boxes
    if isinstance(box, boxes.TextBox):
        return box.text
    if isinstance(box, (boxes.TableColumnBox, boxes.TableColumnGroupBox)):
        return ''
    return ''.join(real_text(c) for c in box.children)


def has_running(node):
    return 'r' in node[1] or any(has_running(k) for k in node[6])


# ------------------------------------------------------------------------------------------------
# generators for tables and documents

def random_cell(rng, ws='normal'):
    attrs = [rng.choice([None, None, '1', '2', '2', '3', '4', ' 2']), rng.choice([None, None, None, '1', '2', '2', '3', '4', '0']),
             None]
    kids = [bt.text_node(rng, ws, allow_empty=False)] if rng.random() < 0.5 else []
    return ['TableCellBox', '-', ws, attrs, '-', '', kids]


def random_row(rng, max_cells=4):
    return ['TableRowBox', '-', 'normal', [None, None, None], '-', '',
            [random_cell(rng) for _ in range(rng.choice(range(0, max_cells + 1)))]]


def random_group(rng, displays=True):
    letters = rng.choice(['-', '-', 'h', 't']) if displays else '-'
    return ['TableRowGroupBox', letters, 'normal', [None, None, None], '-', '',
            [random_row(rng) for _ in range(rng.choice([0, 1, 2, 3, 4, 5]))]]


def random_table_children(rng, displays=True, adversarial=False):
    kids = []
    for _ in range(rng.choice([0, 1, 2, 3, 4, 5, 6])):
        r = rng.random()
        if r < 0.3:
            kids.append(random_group(rng, displays))
        elif r < 0.55:
            kids.append(random_row(rng))
        elif r < 0.7:
            kids.append(['TableColumnBox', '-', 'normal', [None, None, rng.choice(bt.ATTR_VALUES)], '-', '', []])
        elif r < 0.85:
            cols = [['TableColumnBox', '-', 'normal', [None, None, None], '-', '', []]
                    for _ in range(rng.choice([0, 0, 1, 2, 3]))]
            kids.append(['TableColumnGroupBox', '-', 'normal', [None, None, rng.choice(bt.ATTR_VALUES)], '-', '', cols])
        else:
            kids.append(['TableCaptionBox', rng.choice(['-', 'b']), 'normal', [None, None, None], '-', '', []])
    if adversarial:
        r = rng.random()
        if r < 0.5:
            kids.insert(rng.randrange(len(kids) + 1), ['BlockBox', '-', 'normal', [None, None, None], '-', '', []])
        else:
            row = random_row(rng)
            row[6].insert(0, ['BlockBox', '-', 'normal', [None, None, None], '-', '', []])
            kids.append(row)
    return kids


DISPLAYS = [
    'block', 'block', 'block', 'inline', 'inline', 'inline', 'inline-block', 'flow-root', 'table', 'inline-table',
    'table-row-group', 'table-header-group', 'table-footer-group', 'table-row', 'table-cell', 'table-cell',
    'table-column', 'table-column-group', 'table-caption', 'flex', 'inline-flex', 'grid', 'inline-grid', 'none',
    'inline flow-root', 'block flow']


INHERITED0 = {'ws': 'normal', 'tt': 'none', 'cap_bottom': False, 'hyph': False, 'quotes': 'auto', 'lst': 'disc',
              'outside': True}
TT_VALUES = ['none', 'capitalize', 'uppercase', 'lowercase', 'full-width']
QUOTES = ['auto', 'none', [['«'], ['»']], [['a', '('], ['b', '.']], [['“', '‘', '-'], ['”', '’', '-']]]
LIST_TYPES = ['disc', 'circle', 'square', 'none', 'disc', "'x '", "' '"]
CONTENT_ITEMS = ['open-quote', 'close-quote', 'no-open-quote', 'no-close-quote', 'open-quote', 'close-quote']
PSEUDO_DISPLAYS = ['inline', 'inline', 'inline', 'block', 'inline-block', 'none', 'table-cell', 'list-item',
                   'inline list-item', 'flex']


def tt_of(node):
    return node[4] if isinstance(node[4], str) else ('capitalize' if node[4] else 'none')


def extra(node):
    return node[12] if len(node) > 12 else {}


_COUNTER_STYLE = []


def document_counter_style():
    """The counter styles of a rendered document (predefined styles come from the user-agent style sheet)."""
    if not _COUNTER_STYLE:
        from weasyprint import DEFAULT_OPTIONS
        from weasyprint.css.counters import CounterStyle
        from weasyprint.document import Document
        html = docs.html('<p>')
        _, _, font_config = docs._env()
        counter_style = CounterStyle()
        Document._build_layout_context(html, font_config, counter_style, dict(DEFAULT_OPTIONS))
        _COUNTER_STYLE.append(counter_style)
    return _COUNTER_STYLE[0]


def marker_text(list_type):
    """`counter_style.render_marker(type, 0)` (counters are C15's: only value-independent types are used)."""
    if list_type == 'none':
        return None
    value = ('string', list_type[1:-1]) if list_type.startswith("'") else list_type
    return document_counter_style().render_marker(value, 0) or None


def random_content(rng):
    """A computed `content` list: [['s', text] | ['q', keyword] | ['a', attribute name]]."""
    items = []
    for _ in range(rng.choice([1, 1, 2, 3])):
        r = rng.random()
        if r < 0.45:
            items.append(['s', rng.choice(['', 'x', ' ', '(', 'a b', ' \n', ' ', 'é 1'])])
        elif r < 0.9:
            items.append(['q', rng.choice(CONTENT_ITEMS)])
        else:
            items.append(['a', rng.choice(['colspan', 'span', 'nosuch'])])
    return items


def random_pseudo(rng, inh, marker=False):
    """{'display', 'float', 'position', 'declared', 'content' (None: normal), inherited values}."""
    p = dict(inh)
    p['display'] = rng.choice(['inline'] * 6 + ['block'] * 3 + ['inline-block', 'inline-block', 'none'] if marker
                              else PSEUDO_DISPLAYS)
    p['float'] = rng.choice(['none'] * 8 + ['left'])
    p['position'] = rng.choice(['static'] * 8 + ['absolute', 'relative'])
    p['declared'] = {}
    if rng.random() < 0.25:
        p['ws'] = rng.choice(WS_VALUES)
        p['declared']['white-space'] = p['ws']
    if rng.random() < 0.2:
        p['tt'] = rng.choice(TT_VALUES)
        p['declared']['text-transform'] = p['tt']
    if rng.random() < 0.15:
        p['quotes'] = rng.choice(QUOTES)
        p['declared']['quotes'] = css_quotes(p['quotes'])
    if marker:
        p['content'] = random_content(rng) if rng.random() < 0.35 else None
    else:
        p['content'] = random_content(rng) if rng.random() < 0.9 else None
    return p


def css_string(text):
    return "'" + ''.join(f'\\{ord(c):06x}' for c in text) + "'"


def css_quotes(q):
    if isinstance(q, str):
        return q
    return ' '.join(f'{css_string(o)} {css_string(c)}' for o, c in zip(q[0], q[1]))


def css_content(items):
    if items is None:
        return 'normal'
    out = []
    for kind, value in items:
        out.append(css_string(value) if kind == 's' else value if kind == 'q' else f'attr({value})')
    return ' '.join(out)


def random_dom(rng, depth, inh=None, displays=None, generated=True):
    """[display, float, position, ws, tt, cap_bottom, attrs, text, kids, tail, declared, ident, extra]
    (specified display / float / position, computed values of the inherited properties)."""
    inh = dict(inh or INHERITED0)
    display = rng.choice(displays or DISPLAYS)
    if generated and rng.random() < 0.12:
        display = rng.choice(['list-item', 'list-item', 'inline list-item', 'flow-root list-item'])
    float_ = rng.choice(['none'] * 10 + ['left', 'right'])
    position = rng.choice(['static'] * 12 + ['relative', 'absolute', 'fixed', 'running'])
    declared = {}
    if rng.random() < 0.25:
        inh['ws'] = rng.choice(WS_VALUES)
        declared['white-space'] = inh['ws']
    if rng.random() < 0.15:
        inh['tt'] = rng.choice(TT_VALUES)
        declared['text-transform'] = inh['tt']
    if rng.random() < 0.1:
        inh['cap_bottom'] = not inh['cap_bottom']
        declared['caption-side'] = 'bottom' if inh['cap_bottom'] else 'top'
    if rng.random() < 0.08:
        inh['hyph'] = not inh['hyph']
        declared['hyphens'] = 'none' if inh['hyph'] else 'manual'
    if generated and rng.random() < 0.12:
        inh['quotes'] = rng.choice(QUOTES)
        declared['quotes'] = css_quotes(inh['quotes'])
    if generated and rng.random() < 0.12:
        inh['lst'] = rng.choice(LIST_TYPES)
        declared['list-style-type'] = inh['lst']
    if generated and rng.random() < 0.1:
        inh['outside'] = not inh['outside']
        declared['list-style-position'] = 'outside' if inh['outside'] else 'inside'
    attrs = [None, None, None]
    if display.startswith('table-') or rng.random() < 0.05:
        attrs = [rng.choice([None, None, '1', '2', '3', '4', '0', 'x']),
                 rng.choice([None, None, '1', '2', '3', '4', '0']), rng.choice([None, None, '1', '2', '3', '0'])]
    ext = dict(inh)
    ext['before'] = random_pseudo(rng, inh) if generated and rng.random() < 0.2 else None
    ext['after'] = random_pseudo(rng, inh) if generated and rng.random() < 0.2 else None
    ext['marker'] = random_pseudo(rng, inh, marker=True) if generated and rng.random() < 0.3 else None
    text = bt.random_text(rng) if rng.random() < 0.6 else ''
    kids = []
    if depth > 0 and display != 'none':
        kids = [random_dom(rng, depth - 1, inh, displays, generated) for _ in range(rng.choice([0, 0, 1, 1, 2, 3, 4]))]
    tail = bt.random_text(rng) if rng.random() < 0.55 else ''
    return [display, float_, position, inh['ws'], inh['tt'], inh['cap_bottom'], attrs, text, kids, tail, declared,
            rng.randrange(10 ** 9), ext]


def esc(text):
    return ''.join(f'&#{ord(c)};' for c in text)


def dom_html(node):
    display, float_, position, _ws, _tt, _cb, attrs, text, kids, tail, declared, ident = node[:12]
    pos = 'running(x)' if position == 'running' else position
    style = f'display:{display};float:{float_};position:{pos}'
    for name, value in declared.items():
        style += f';{name}:{value}'
    attr = ''.join(f' {n}="{v}"' for n, v in zip(('colspan', 'rowspan', 'span'), attrs) if v is not None)
    tag = 'span' if display.startswith('inline') else 'div'
    return (f'<{tag} n="{ident}" style="{style}"{attr}>{esc(text)}{"".join(dom_html(k) for k in kids)}</{tag}>'
            f'{esc(tail)}')


def dom_css(node):
    """Style rules of the pseudo-elements of a subtree."""
    out = []
    for name in ('before', 'after', 'marker'):
        p = extra(node).get(name)
        if p is None:
            continue
        pos = p['position']
        rule = f'display:{p["display"]};float:{p["float"]};position:{pos}'
        if name != 'marker' or p['content'] is not None:
            rule += f';content:{css_content(p["content"])}'
        for prop, value in p['declared'].items():
            rule += f';{prop}:{value}'
        out.append(f'[n="{node[11]}"]::{name}{{{rule}}}')
    for k in node[8]:
        out.extend(dom_css(k))
    return out


def validated_display(display):
    """The validator's tuple for a `display` declaration, obtained from the real validator."""
    import tinycss2
    from weasyprint.css.validation import properties as vp
    tokens = [t for t in tinycss2.parse_component_value_list(display) if t.type != 'whitespace']
    return list(vp.display(tokens))


def parse_int(value):
    if value is None:
        return None
    try:
        return int(value.strip())
    except ValueError:
        return None


TT_WIRE = {'none': '', 'capitalize': 'c', 'uppercase': 'u', 'lowercase': 'l', 'full-width': 'w'}


def estyle_wire(display, float_, position, vals):
    letters = (TT_WIRE[vals['tt']] + ('y' if vals['hyph'] else '') + ('b' if vals['cap_bottom'] else '') +
               ('o' if vals['outside'] else ''))
    q = vals['quotes']
    quotes = q if isinstance(q, str) else [[cps(x) for x in q[0]], [cps(x) for x in q[1]]]
    return [validated_display(display), float_, position, vals['ws'], letters or '-', quotes]


def content_wire(items, attrs):
    """Computed content: `attr(x)` is the attribute value (computed_values.compute_attr: '' when absent)."""
    if items is None:
        return 'inhibit'
    named = dict(zip(('colspan', 'rowspan', 'span'), attrs))
    out = []
    for kind, value in items:
        if kind == 's':
            out.append(['s'] + cps(value))
        elif kind == 'q':
            out.append(['q', 'open' in value, not value.startswith('no-')])
        else:
            out.append(['s'] + cps(named.get(value) or ''))
    return out


def pseudo_wire(p, attrs, marker=False):
    if p is None:
        return 'none'
    st = estyle_wire(p['display'], p['float'], p['position'], p)
    if marker:
        text = marker_text(p['lst'])
        return [st, content_wire(p['content'], attrs), cps(text) if text else 'none']
    return [st, content_wire(p['content'], attrs)]


def default_marker(vals):
    p = dict(vals)
    p.update({'display': 'inline', 'float': 'none', 'position': 'static', 'content': None})
    return p


def dom_wire(node):
    display, float_, position, ws, _tt, cap_bottom, attrs, text, kids, tail = node[:10]
    ext = dict(INHERITED0)
    ext.update({'ws': ws, 'tt': tt_of(node), 'cap_bottom': cap_bottom})
    ext.update(extra(node))
    marker = ext.get('marker') or default_marker(ext)
    return ['el', estyle_wire(display, float_, position, ext), [parse_int(a) for a in attrs],
            pseudo_wire(marker, attrs, marker=True), pseudo_wire(ext.get('before'), attrs),
            pseudo_wire(ext.get('after'), attrs), cps(text), [dom_wire(k) for k in kids], cps(tail)]


def plain_el(display, text, kids):
    return ['el', estyle_wire(display, 'none', 'static', INHERITED0), [None, None, None],
            pseudo_wire(default_marker(INHERITED0), [None] * 3, marker=True), 'none', 'none', cps(text), kids, []]


def document_wire(body_kids, body_text):
    head = plain_el('none', '', [])
    body = plain_el('block', body_text, [dom_wire(k) for k in body_kids])
    return plain_el('block', '', [head, body])


def document_html(body_kids, body_text):
    css = ''.join(rule for k in body_kids for rule in dom_css(k))
    style = f'<style>{css}</style>' if css else ''
    return (f'<html><head>{style}</head><body>' + esc(body_text) + ''.join(dom_html(k) for k in body_kids) +
            '</body></html>')


def formatting_structure(html_string):
    """The box tree before layout: the same calls as `Document._render`."""
    from weasyprint import DEFAULT_OPTIONS
    from weasyprint.css.counters import CounterStyle
    from weasyprint.document import Document
    from weasyprint.formatting_structure import build
    html = docs.html(html_string)
    _, _, font_config = docs._env()
    counter_style = CounterStyle()
    context = Document._build_layout_context(html, font_config, counter_style, dict(DEFAULT_OPTIONS))
    return build.build_formatting_structure(
        html.etree_element, context.style_for, context.get_image_from_uri, html.base_url,
        context.target_collector, counter_style, context.footnotes)


def dom_text(node):
    """Source text of a DOM subtree that can reach the page (display:none and columns hold none)."""
    display = node[0]
    blockified = node[1] != 'none' or node[2] in ('absolute', 'fixed')
    if display == 'none' or (display in ('table-column', 'table-column-group') and not blockified):
        return ''
    return node[7] + ''.join(dom_text(k) + k[9] for k in node[8])


def dom_has(node, pred):
    return pred(node) or any(dom_has(k, pred) for k in node[8])


# ------------------------------------------------------------------------------------------------

TREE_FUNCTIONS = {
    'iib': 'inline_in_block', 'bii': 'block_in_inline', 'atb': 'anonymous_table_boxes', 'flex': 'flex_boxes',
    'grid': 'grid_boxes', 'pipeline': 'create_anonymous_boxes', 'ptt': 'process_text_transform'}


def listify(box):
    from weasyprint.formatting_structure import boxes
    if isinstance(box, boxes.ParentBox):
        box.children = [listify(c) for c in box.children]
    return box


def content_tags(items, quotes, depth):
    tags = {f'quotes:{quotes if isinstance(quotes, str) else "pairs"}'}
    levels = 2 if quotes == 'auto' else 0 if quotes == 'none' else len(quotes[0])
    texts = 0
    for kind, value in items:
        if kind == 'q':
            is_open, insert = 'open' in value, not value.startswith('no-')
            tags.add('quote:' + value.replace('-quote', ''))
            if not is_open:
                if depth == 0:
                    tags.add('quote:close-at-zero')
                depth = max(0, depth - 1)
            if insert and levels and depth > levels - 1:
                tags.add('quote:depth-clamped')
            if insert and levels:
                texts += 1
            if is_open:
                depth += 1
        elif value:
            texts += 1
    tags.add('text:merged' if texts > 1 else 'text:none' if texts == 0 else 'text:one')
    return sorted(tags)


def document_tags(kids, out):
    tags = set()
    if out.startswith('err:'):
        tags.add(f'error:{out[4:]}')

    def visit(n, hidden):
        ext = dict(INHERITED0)
        ext.update(extra(n))
        if n[0] == 'none':
            tags.add('doc:display-none')
            return
        if 'list-item' in n[0] and not hidden:
            m = ext.get('marker') or default_marker(ext)
            if m['display'] != 'none':
                if m['content'] is not None:
                    tags.add('doc:marker-content')
                if m['content'] is not None or marker_text(m['lst']):
                    tags.add('doc:marker-outside' if ext['outside'] else 'doc:marker-inside')
        for name in ('before', 'after'):
            p = ext.get(name)
            if p and p['display'] != 'none' and p['content'] is not None:
                tags.add(f'doc:{name}')
                if any(k == 'q' for k, _ in p['content']):
                    tags.add('doc:quote')
                if 'list-item' in p['display']:
                    tags.add('doc:pseudo-list-item')
        if tt_of(n) != 'none':
            tags.add(f'doc:tt-{tt_of(n)}')
        if ext['hyph']:
            tags.add('doc:hyphens-none')
        if n[1] != 'none' or n[2] in ('absolute', 'fixed'):
            if n[0].startswith('inline') or n[0].startswith('table-'):
                tags.add('doc:blockified')
        previous_none = False
        for c in n[8]:
            if previous_none and c[9]:
                pass
            if c[0] == 'none' and c[9]:
                tags.add('doc:tail-merged')
            visit(c, hidden)
    for k in kids:
        visit(k, False)
    if ' (8203) ' in out:
        tags.add('doc:marker-filler')
    return sorted(tags)


def size_class(n):
    return '1' if n <= 1 else '2-4' if n <= 4 else '5-12' if n <= 12 else '13-40' if n <= 40 else '41+'


def walk_real(box, parent=None):
    yield box, parent
    for child in getattr(box, 'children', ()):
        yield from walk_real(child, box)
    for group in getattr(box, 'column_groups', ()):
        yield from walk_real(group, box)


def branch_tags(fn, before, result):
    """Which branches of the mirrored function the case went through, read off the result tree."""
    from weasyprint.css import AnonymousStyle
    from weasyprint.formatting_structure import boxes
    tags = set()
    nodes = list(walk_real(result))

    def anon(b):
        return isinstance(b.style, AnonymousStyle)
    if fn in ('iib', 'pipeline', 'e2b'):
        for b, parent in nodes:
            if isinstance(b, boxes.LineBox) and anon(b):
                if parent is not None and anon(parent) and len(parent.children) == 1 and type(parent) is boxes.BlockBox:
                    tags.add('iib:line-in-anonymous-block')
                else:
                    tags.add('iib:single-line')
                if any(c.is_absolutely_positioned() for c in b.children):
                    tags.add('iib:absolute-in-line')
                if any(c.is_floated() for c in b.children):
                    tags.add('iib:float-in-line')
            if b.leading_collapsible_space and not isinstance(b, boxes.TextBox):
                tags.add('iib:leading-space-flag')
            if b.trailing_collapsible_space:
                tags.add('iib:trailing-space-flag')
        texts_before = bt.texts_of_ser(before)
        texts_after = [b.text for b, _ in nodes if isinstance(b, boxes.TextBox)]
        if texts_before.count('') > texts_after.count(''):
            tags.add('iib:empty-text-removed')
        if texts_before.count(' ') > texts_after.count(' '):
            tags.add('iib:line-start-space-removed')
        if any(isinstance(b, boxes.InlineBox) and not b.children and b.trailing_collapsible_space for b, _ in nodes):
            tags.add('iib:emptied-inline-box')
    if fn == 'bii':
        lines_after = sum(1 for b, _ in nodes if isinstance(b, boxes.LineBox))
        if lines_after > bt.kind_count_ser(before, 'LineBox'):
            tags.add('bii:line-split')
        if any(isinstance(b, boxes.InlineBox) and not b.children for b, _ in nodes) and 'bii:line-split' in tags:
            tags.add('bii:empty-inline-piece')
    if fn in ('atb', 'pipeline', 'e2b', 'wraptable'):
        for b, parent in nodes:
            if anon(b) and not isinstance(b, (boxes.TextBox, boxes.LineBox)):
                if b.is_table_wrapper:
                    tags.add('atb:wrapper-inline' if isinstance(b, boxes.InlineBlockBox) else 'atb:wrapper-block')
                elif isinstance(b, (boxes.TableBox, boxes.TableRowGroupBox, boxes.TableRowBox, boxes.TableCellBox,
                                    boxes.TableColumnGroupBox, boxes.TableColumnBox)):
                    tags.add(f'atb:anonymous-{type(b).__name__}')
            if getattr(b, 'is_header', False):
                tags.add('atb:header')
            if getattr(b, 'is_footer', False):
                tags.add('atb:footer')
            if isinstance(b, boxes.TableCellBox) and hasattr(b, 'grid_x'):
                if b.colspan > 1:
                    tags.add('atb:colspan')
                if b.rowspan > 1:
                    tags.add('atb:rowspan')
            if isinstance(b, boxes.TableCaptionBox) and parent is not None and parent.is_table_wrapper:
                tags.add('atb:caption-bottom' if b.style['caption_side'] == 'bottom' else 'atb:caption-top')
        if bt.count_ser(before) > sum(1 for _ in nodes) :
            tags.add('atb:boxes-removed')
    if fn in ('flex', 'grid', 'pipeline', 'e2b'):
        for b, parent in nodes:
            if b.is_flex_item:
                tags.add('flex:item')
            if b.is_grid_item:
                tags.add('grid:item')
            if (b.is_flex_item or b.is_grid_item) and type(b) is boxes.BlockBox and parent is not None and \
                    isinstance(parent, (boxes.FlexContainerBox, boxes.GridContainerBox)) and \
                    b.style['display'][0] == 'inline':
                tags.add('item:inline-level-wrapped')
    return sorted(tags)


EXPECTED_BRANCHES = {
    'inline-in-block': ['iib:line-in-anonymous-block', 'iib:single-line', 'iib:absolute-in-line', 'iib:float-in-line',
                        'iib:leading-space-flag', 'iib:trailing-space-flag', 'iib:empty-text-removed',
                        'iib:line-start-space-removed', 'error:AssertionError'],
    'whitespace-then-inline-in-block': ['iib:empty-text-removed', 'iib:trailing-space-flag', 'iib:leading-space-flag',
                                        'iib:emptied-inline-box'],
    'block-in-inline': ['bii:line-split', 'bii:empty-inline-piece', 'error:AssertionError'],
    'table-fixup': ['atb:wrapper-block', 'atb:wrapper-inline', 'atb:anonymous-TableBox', 'atb:anonymous-InlineTableBox',
                    'atb:anonymous-TableRowGroupBox', 'atb:anonymous-TableRowBox', 'atb:anonymous-TableCellBox',
                    'atb:anonymous-TableColumnGroupBox', 'atb:anonymous-TableColumnBox', 'atb:header', 'atb:footer',
                    'atb:colspan', 'atb:rowspan', 'atb:caption-top', 'atb:caption-bottom', 'atb:boxes-removed',
                    'error:AttributeError'],
    'flex-grid': ['flex:item', 'grid:item', 'item:inline-level-wrapped'],
    'wrap-table': ['header', 'footer', 'caption-top', 'caption-bottom', 'rowspan0', 'rowspan-clipped', 'colspan',
                   'empty-column-group', 'stray-rows', 'stray-columns', 'error:KeyError', 'error:AttributeError'],
    'slots': ['column-skipped', 'groups0', 'groups1', 'groups2', 'groups3', 'groups4'],
    'content': ['quote:open', 'quote:close', 'quote:no-open', 'quote:no-close', 'quote:depth-clamped',
                'quote:close-at-zero', 'quotes:none', 'quotes:auto', 'text:merged', 'text:none'],
    'documents': ['doc:marker-outside', 'doc:marker-inside', 'doc:marker-filler', 'doc:marker-content',
                  'doc:before', 'doc:after', 'doc:quote', 'doc:tt-uppercase', 'doc:tt-lowercase', 'doc:tt-capitalize',
                  'doc:tt-full-width', 'doc:hyphens-none', 'doc:blockified', 'doc:tail-merged', 'doc:display-none',
                  'doc:pseudo-list-item', 'error:AttributeError'],
}


def call_tree_function(fn, box):
    build = build_mod()
    if fn == 'ptt':
        build.process_text_transform(box)
        return box
    return getattr(build, TREE_FUNCTIONS[fn])(box)


class C08(PropCheck):
    id = 'C08'
    extractors = (box_kinds.generate, char_table.generate, content_tables.generate)
    modules = ('WpModel.Props.C08', 'WpModel.Props.C08Pipeline', 'WpModel.Props.C08Total', 'WpModel.Witness.C08')
    trusted_base = (
        'modelled, not verified: build.process_whitespace / capitalize / inline_in_block / block_in_inline / '
        'anonymous_table_boxes / table_boxes_children / wrap_improper / wrap_table / flex_children / grid_children / '
        'element_to_box (structure only) and computed_values.display / compute_float as hand-written Lean functions',
        'class tests are issubclass tables regenerated from boxes.py; the three white-space regular expressions are '
        'mirrored by scanners (pattern strings regenerated and pinned by a theorem; behaviour tied by correspondence)',
        'unicodedata.category / str.upper are tabulated from the Python runtime over a fixed alphabet; the character '
        'class of build.is_whitespace is the graph of the real function over the same alphabet',
    )
    assumptions = (
        'kind-trees keep of a box only what build.py reads or writes (class, float/position/white-space/'
        'text-transform/display-group/caption-side, colspan/rowspan/span attributes, collapsible-space flags, text)',
        'documents use div/span elements with style attributes only (no generated content, markers, footnotes, '
        'replaced elements): html.handle_element is the identity there',
    )

    # ---- correspondence -------------------------------------------------------------------
    def correspondence(self, run):
        docs.quiet()
        self._regression_section(run)
        self._text_sections(run)
        self._display_section(run)
        self._tree_sections(run)
        self._table_sections(run)
        self._document_section(run)
        never = {}
        for sec in run.sections:
            expected = EXPECTED_BRANCHES.get(sec.name)
            if expected:
                missing = [t for t in expected if not sec.tags.get(t)]
                if missing:
                    never[sec.name] = missing
        run.extra['branches_expected'] = {k: len(v) for k, v in EXPECTED_BRANCHES.items()}
        run.extra['branches_never_hit'] = never

    def _regression_section(self, run):
        """corpus/C08/regressions.json first: the inputs of repaired findings (`fixed:` lines) and of earlier
        disagreements, through the same commands, judges and replays as the generated cases."""
        import json
        from vlib.paths import CORPUS
        sec = run.section(
            'regressions', 'corpus/C08/regressions.json: minimal inputs of repaired findings (inline-table flex / '
            'grid item keeps its wrapper, NBSP-like text between table parts stays, ::marker{display:none}) and of '
            'past disagreements, as trees (pipeline / atb / flex / grid / iib / pw) and as documents; non-trivial = all')
        for case in json.loads((CORPUS / 'C08' / 'regressions.json').read_text()):
            tags = [f'regression:{case["id"]}']
            if case['fn'] == 'e2b':
                kids, body_text = case['kids'], case.get('body_text', '')
                html = document_html(kids, body_text)
                out = docs.outcome(lambda: show(formatting_structure(html)))
                sec.add(sx.line('e2b', document_wire(kids, body_text)), out,
                        meta={'fn': 'e2b', 'html': html, 'kids': kids, 'body_text': body_text, 'case': case['id']},
                        tags=tags)
            elif case['fn'] == 'pw':
                box = bt.make_real(case['tree'])
                before = bt.ser(box)
                ret = docs.outcome(lambda: build_mod().process_whitespace(box, case['fcs']))
                out = ret if isinstance(ret, str) else f'{str(bool(ret)).lower()} {show(box)}'
                sec.add(sx.line('pw', case['fcs'], before), out,
                        meta={'fn': 'pw', 'tree': case['tree'], 'fcs': case['fcs'], 'case': case['id']}, tags=tags)
            else:
                self._tree_case(sec, case['fn'], case['tree'], tags=tags, nontrivial=True)

    def _text_sections(self, run):
        from weasyprint.formatting_structure import boxes
        build = build_mod()
        rng = run.rng
        sec = run.section(
            'text-whitespace',
            'process_whitespace on one real TextBox: every string over {a,space,tab,LF,CR} up to length L and random '
            'texts over the tabulated alphabet, 5 white-space values x following_collapsible_space; non-trivial = '
            'the text contains white space')

        def one(ws, fcs, text, tag):
            box = boxes.TextBox('div', bt.style_from('-', ws), None, text)
            ret = docs.outcome(lambda: build.process_whitespace(box, fcs))
            if isinstance(ret, str):
                out = ret
            else:
                out = (f'{sx.dumps(cps(box.text))} {str(bool(box.leading_collapsible_space)).lower()} '
                       f'{str(bool(ret)).lower()}')
            sec.add(sx.line('ptext', ws, fcs, cps(text)), out, meta={'fn': 'ptext', 'ws': ws, 'fcs': fcs, 'text': text},
                    nontrivial=any(c in WHITE for c in text), tags=[tag, f'ws:{ws}'])
        max_len = run.n(4, 6)
        for n in range(1, max_len + 1):
            for chars in itertools.product('a \t\n\r', repeat=n):
                text = ''.join(chars)
                for ws in WS_VALUES:
                    for fcs in (False, True):
                        one(ws, fcs, text, 'exhaustive')
        for _ in range(run.n(3000, 60000)):
            one(rng.choice(WS_VALUES), rng.random() < 0.5, bt.random_text(rng), 'random')
        run.extra['exhaustive'] = True
        run.extra['exhaustive_what'] = (
            f'process_whitespace on all strings over {{a,space,tab,LF,CR}} of length <= {max_len}; '
            'computed_values.display / compute_float on every validator output x float x position x root')

        sec2 = run.section(
            'capitalize', 'build.capitalize on random texts and all strings of length <= 3 over 9 characters; '
            'non-trivial = the output differs from the input')
        small = ['a', 'ß', 'ǆ', ' ', ' ', '1', '-', '\n', 'A']
        texts = [''.join(p) for n in (1, 2, 3) for p in itertools.product(small, repeat=n)]
        texts += [bt.random_text(rng) for _ in range(run.n(1500, 30000))]
        for text in texts:
            out = docs.outcome(lambda: build.capitalize(text))
            sec2.add(sx.line('cap', cps(text)), sx.dumps(cps(out)) if not out.startswith('err:') else out,
                     meta={'fn': 'cap', 'text': text}, nontrivial=out != text)

        self._content_section(run)
        sec3 = run.section('is-whitespace', 'build.is_whitespace on text boxes and other boxes; non-trivial = true')
        for _ in range(run.n(600, 6000)):
            if rng.random() < 0.8:
                text = rng.choice([bt.random_text(rng), ''.join(rng.choice(bt.SPACES) for _ in range(rng.choice([1, 2, 3])))])
                node = ['TextBox', '-', 'normal', [None, None, None], '-', text, []]
            else:
                node = bt.random_tree(rng, 0)
            box = bt.make_real(node)
            out = build.is_whitespace(box)
            sec3.add(sx.line('wspace', bt.ser(box)), str(bool(out)).lower(), meta={'fn': 'wspace', 'tree': node},
                     nontrivial=bool(out))

    def _content_section(self, run):
        """build.content_to_boxes on a real box: strings and the four quote keywords, every `quotes` style,
        any incoming quote depth."""
        from weasyprint.css.counters import CounterStyle
        from weasyprint.css.targets import TargetCollector
        from weasyprint.formatting_structure import boxes
        build = build_mod()
        rng = run.rng
        sec = run.section(
            'content', 'content_to_boxes (compute_content_list) on a real box for lists of strings and open-/close-/'
            'no-open-/no-close-quote, quotes none / auto / 1-3 pairs, incoming depth 0-4: texts of the boxes and '
            'the quote depth afterwards; non-trivial = a quote keyword is present')
        for _ in range(run.n(1500, 30000)):
            items = [['s', rng.choice(['', 'x', ' ', 'a b'])] if rng.random() < 0.35 else ['q', rng.choice(CONTENT_ITEMS)]
                     for _ in range(rng.choice([0, 1, 2, 3, 4, 6]))]
            quotes = rng.choice(QUOTES)
            depth = rng.choice([0, 0, 1, 2, 3, 4])
            style = bt.style_from('-', 'normal')
            style['content'] = tuple(('string', v) if k == 's' else ('quote', v) for k, v in items)
            style['quotes'] = quotes if isinstance(quotes, str) else (tuple(quotes[0]), tuple(quotes[1]))
            style['lang'] = None
            parent = boxes.InlineBox('span', style, None, [])
            state = [depth]

            def call():
                result = build.content_to_boxes(style, parent, state, {}, None, TargetCollector(), CounterStyle())
                text = ''.join(b.text for b in result)
                assert len(result) <= 1 and all(isinstance(b, boxes.TextBox) for b in result)
                return f'{sx.dumps(cps(text))} {state[0]}'
            wire_q = quotes if isinstance(quotes, str) else [[cps(x) for x in quotes[0]], [cps(x) for x in quotes[1]]]
            sec.add(sx.line('content', wire_q, content_wire(items, [None] * 3), depth), docs.outcome(call),
                    meta={'fn': 'content', 'items': items, 'quotes': quotes, 'depth': depth},
                    nontrivial=any(k == 'q' for k, _ in items),
                    tags=content_tags(items, quotes, depth))

    def _display_section(self, run):
        from weasyprint.css import computed_values
        build = build_mod()
        sec = run.section(
            'display', 'computed_values.display / compute_float / BOX_TYPE_FROM_DISPLAY on every value of the '
            'validator x float x position x root; non-trivial = the computed display differs from the specified one')

        class Style:
            def __init__(self, float_, position, root):
                self.specified = {'float': float_,
                                  'position': ('running()', 'x') if position == 'running' else position}
                self.is_root_element = root
        values = box_kinds.display_values()
        for value in values:
            for float_ in box_kinds.FLOATS:
                for position in box_kinds.POSITIONS:
                    for root in (False, True):
                        result = computed_values.display(Style(float_, position, root), 'display', value)
                        sec.add(sx.line('blockify', list(value), float_, position, root), sx.dumps(list(result)),
                                meta={'fn': 'blockify', 'value': list(value), 'float': float_, 'position': position,
                                      'root': root, 'result': list(result)},
                                nontrivial=tuple(result) != tuple(value), tags=['blockify'])
        for float_ in box_kinds.FLOATS:
            for position in box_kinds.POSITIONS:
                result = computed_values.compute_float(Style(float_, position, False), 'float', float_)
                sec.add(sx.line('cfloat', float_, position), result,
                        meta={'fn': 'cfloat', 'float': float_, 'position': position}, tags=['float'])
        for value in values + [('none', 'x'), ('block',), ('inline', 'ruby')]:
            def box_type():
                return build.BOX_TYPE_FROM_DISPLAY[tuple(value)[:2]].__name__
            sec.add(sx.line('boxtype', list(value)), docs.outcome(box_type), meta={'fn': 'boxtype', 'value': list(value)},
                    tags=['boxtype'])

    def _tree_case(self, sec, fn, node, tags=(), nontrivial=None, prepare=None, prepared=True):
        box = bt.make_real(node)
        if prepare is not None:
            try:
                box = prepare(box)
            except Exception:  # noqa: BLE001 - the preparation step itself is compared in its own section
                return False
        before = bt.ser(box)
        n_before = bt.count_ser(before)
        result = []

        def call():
            result.append(call_tree_function(fn, box))
            return show(result[0])
        out = docs.outcome(call)
        changed = out != sx.dumps(before)
        branch = branch_tags(fn, before, result[0]) if result else [f'error:{out[4:]}']
        sec.add(sx.line(fn, before), out,
                meta={'fn': fn, 'tree': node, 'prepared': prepared if prepare is not None else False},
                nontrivial=changed if nontrivial is None else nontrivial,
                tags=list(tags) + branch + [f'size:{size_class(n_before)}'])
        return True

    def _tree_sections(self, run):
        build = build_mod()
        rng = run.rng
        inline_pool = ['TextBox'] * 5 + ['InlineBox'] * 4 + ['InlineBlockBox', 'InlineReplacedBox', 'BlockBox',
                                                            'InlineFlexBox', 'TableCellBox']
        sec = run.section(
            'tree-whitespace', 'process_whitespace(box, following) on real trees of text / inline / atomic / '
            'out-of-flow boxes, every white-space value; non-trivial = some text changed')
        for _ in range(run.n(1500, 30000)):
            node = bt.random_tree(rng, rng.choice([1, 2, 3]), pool=inline_pool, p_out=0.15)
            if node[0] == 'TextBox':
                node = ['BlockBox', '-', node[2], [None, None, None], '-', '', [node]]
            fcs = rng.random() < 0.4
            box = bt.make_real(node)
            before = bt.ser(box)
            ret = docs.outcome(lambda: build.process_whitespace(box, fcs))
            out = ret if isinstance(ret, str) else f'{str(bool(ret)).lower()} {show(box)}'
            sec.add(sx.line('pw', fcs, before), out, meta={'fn': 'pw', 'tree': node, 'fcs': fcs},
                    nontrivial=sx.dumps(bt.ser(box)) != sx.dumps(before), tags=[f'root:{node[0]}'])

        sec = run.section(
            'text-transform', 'process_text_transform on real trees (capitalize / uppercase / lowercase / '
            'full-width / none, hyphens: none); non-trivial = some text changed')
        for _ in range(run.n(400, 8000)):
            node = bt.random_tree(rng, rng.choice([1, 2]), pool=inline_pool, p_out=0.15)
            self._mark_capitalize(rng, node)
            self._tree_case(sec, 'ptt', node)

        sec = run.section(
            'inline-in-block', 'inline_in_block on real trees over all box classes (collapsible-space flags, empty '
            'texts, out-of-flow boxes, rare stray LineBox -> AssertionError); non-trivial = the tree changed')
        mixed = ['TextBox'] * 5 + ['InlineBox'] * 3 + ['BlockBox'] * 3 + [
            'InlineBlockBox', 'InlineReplacedBox', 'BlockReplacedBox', 'FlexBox', 'InlineFlexBox', 'GridBox',
            'TableCellBox', 'TableRowBox', 'TableBox', 'TableCaptionBox']
        for _ in range(run.n(2500, 50000)):
            node = bt.random_tree(rng, rng.choice([1, 2, 3, 4]), pool=mixed, p_out=0.15,
                                  line_boxes=0.01 if rng.random() < 0.2 else 0.0)
            self._tree_case(sec, 'iib', node, tags=[f'root:{node[0]}'])

        sec = run.section(
            'whitespace-then-inline-in-block', 'inline_in_block on the real output of process_whitespace, as '
            'element_to_box / create_anonymous_boxes chain them: inline content with many white-space-only runs, so '
            'that text boxes are emptied (space collapsed with a preceding one) and inline boxes lose all their '
            'children; the leading / trailing_collapsible_space flags are part of the compared tree; non-trivial = '
            'an emptied text box was removed')
        spaced = ['TextBox'] * 7 + ['InlineBox'] * 5 + ['InlineBlockBox', 'BlockBox']

        def whitespace(box):
            build.process_whitespace(box)
            return box
        for _ in range(run.n(1500, 30000)):
            node = bt.random_tree(rng, rng.choice([2, 3, 4]), pool=spaced, p_out=0.05, width=(1, 1, 2, 2, 3, 4))
            for text_node in bt.text_nodes(node):
                if rng.random() < 0.45:
                    text_node[5] = rng.choice([' ', ' ', '  ', '\n', ' \t', 'a ', ' a', ''])
                text_node[4] = '-'
            if node[0] in ('TextBox', 'InlineBox'):
                node = ['BlockBox', '-', 'normal', [None, None, None], '-', '', [node]]
            self._tree_case(sec, 'iib', node, prepare=whitespace, prepared='pw', tags=['after-pw'])

        sec = run.section(
            'block-in-inline', 'block_in_inline on the real output of inline_in_block (blocks nested in inline '
            'boxes at any depth) and on raw trees; non-trivial = a line was split')
        nested = ['TextBox'] * 4 + ['InlineBox'] * 6 + ['BlockBox'] * 3 + ['InlineBlockBox', 'BlockReplacedBox',
                                                                          'FlexBox', 'TableBox']
        for _ in range(run.n(2500, 50000)):
            node = bt.random_tree(rng, rng.choice([2, 3, 4, 5]), pool=nested, p_out=0.12, width=(0, 1, 2, 2, 3, 4))
            if node[0] in ('TextBox', 'InlineBox'):
                node = ['BlockBox', '-', node[2], [None, None, None], '-', '', [node]]
            if rng.random() < 0.9:
                self._tree_case(sec, 'bii', node, prepare=build.inline_in_block, tags=['after-iib'])
            else:
                raw = bt.random_tree(rng, 3, pool=nested + ['LineBox'] * 3)
                # children as lists (as every earlier pass leaves them): with tuples the *message* of the
                # failing assert ('%r' % box.children) raises TypeError instead of AssertionError
                self._tree_case(sec, 'bii', raw, tags=['raw'], prepare=listify)

        sec = run.section(
            'flex-grid', 'flex_boxes / grid_boxes on real trees with flex and grid containers; non-trivial = the '
            'tree changed')
        fg = ['TextBox'] * 3 + ['InlineBox', 'BlockBox', 'InlineBlockBox', 'FlexBox', 'InlineFlexBox', 'GridBox',
                                'InlineGridBox', 'InlineReplacedBox', 'TableCellBox']
        for _ in range(run.n(800, 16000)):
            node = bt.random_tree(rng, rng.choice([1, 2, 3]), pool=fg, p_out=0.25)
            self._tree_case(sec, rng.choice(['flex', 'grid']), node)

        sec = run.section(
            'table-fixup', 'anonymous_table_boxes on real trees with table parts anywhere (stray cells, rows, '
            'columns, captions, white-space text between them, span / colspan / rowspan attributes); '
            'non-trivial = the tree changed')
        tpool = ['TextBox'] * 4 + ['BlockBox', 'InlineBox', 'InlineBlockBox'] + bt.TABLE_KINDS * 2
        for _ in range(run.n(3000, 60000)):
            node = bt.random_tree(rng, rng.choice([1, 2, 3, 4]), pool=tpool, p_out=0.08)
            self._tree_case(sec, 'atb', node, tags=[f'root:{node[0]}'])

        sec = run.section(
            'pipeline', 'create_anonymous_boxes (table, flex, grid, inline-in-block, block-in-inline in sequence) '
            'on real trees over all classes; non-trivial = the tree changed')
        allp = bt.INLINE_KINDS + bt.BLOCK_KINDS + bt.TABLE_KINDS
        for _ in range(run.n(2500, 50000)):
            node = bt.random_tree(rng, rng.choice([1, 2, 3, 4]), pool=allp, p_out=0.1)
            if node[0] == 'TextBox':
                continue
            self._tree_case(sec, 'pipeline', node, tags=[f'root:{node[0]}'])

    @staticmethod
    def _mark_capitalize(rng, node):
        if rng.random() < 0.6 and not any(c in node[1] for c in 'culw'):
            node[1] = node[1].replace('-', '') + rng.choice('cculw')
        if rng.random() < 0.2 and 'y' not in node[1]:
            node[1] = node[1].replace('-', '') + 'y'
        for k in node[6]:
            C08._mark_capitalize(rng, k)

    def _table_sections(self, run):
        from weasyprint.formatting_structure import boxes
        build = build_mod()
        rng = run.rng
        sec = run.section(
            'wrap-table', 'wrap_table called directly on a real (Inline)TableBox and processed children: column '
            'groups, header/footer groups, rows, captions, colspan <= 4, rowspan <= 4 and 0; a few ill-typed '
            'children (KeyError / AttributeError); non-trivial = some cell spans')
        sec2 = run.section(
            'slots', 'grid_x / clipped rowspan / grid_width / grid_height of wrap_table (the last two observed '
            'through the call to collapse_table_borders) against the slot model; non-trivial = some rowspan != 1')

        def cells_of(kids):
            for g in kids:
                rows = g[6] if g[0] == 'TableRowGroupBox' else [g] if g[0] == 'TableRowBox' else []
                for r in rows:
                    for c in r[6]:
                        yield c
        for _ in range(run.n(2500, 50000)):
            adversarial = rng.random() < 0.04
            displays = rng.random() < 0.5
            kids = random_table_children(rng, displays, adversarial)
            kind = rng.choice(['TableBox', 'TableBox', 'InlineTableBox'])
            letters = rng.choice(['-', '-', '-', 'f', 'a', 'r'])
            table = [kind, letters, 'normal', [None, None, None], '-', '', []]
            tbox = bt.make_real(table)
            children = [bt.make_real(k) for k in kids]
            spans = any(c[3][0] not in (None, '1') or c[3][1] not in (None, '1') for c in cells_of(kids))
            line = sx.line('wraptable', bt.ser(tbox), [bt.ser(c) for c in children])
            out = docs.outcome(lambda: show(build.wrap_table(tbox, children)))
            wt_tags = []
            if out.startswith('err:'):
                wt_tags.append(f'error:{out[4:]}')
            for k in kids:
                if k[0] == 'TableRowGroupBox' and 'h' in k[1]:
                    wt_tags.append('header')
                if k[0] == 'TableRowGroupBox' and 't' in k[1]:
                    wt_tags.append('footer')
                if k[0] == 'TableCaptionBox':
                    wt_tags.append('caption-bottom' if 'b' in k[1] else 'caption-top')
                if k[0] == 'TableColumnGroupBox' and not k[6]:
                    wt_tags.append('empty-column-group')
                if k[0] == 'TableRowBox':
                    wt_tags.append('stray-rows')
                if k[0] == 'TableColumnBox':
                    wt_tags.append('stray-columns')
            for g in self._grouped_rows(kids):
                for y, r in enumerate(g[6]):
                    for c in r[6]:
                        if c[0] != 'TableCellBox':
                            continue
                        rs, cs_ = parse_cell(c, 'rowspan', 0), parse_cell(c, 'colspan', 1)
                        if rs == 0:
                            wt_tags.append('rowspan0')
                        if rs > len(g[6]) - y:
                            wt_tags.append('rowspan-clipped')
                        if cs_ > 1:
                            wt_tags.append('colspan')
            if ' none)' not in out and re.search(r'TableCellBox [^(]*\([^)]*\) \([^ ]+ \d+ \d+ [1-9]', out):
                pass
            sec.add(line, out, meta={'fn': 'wraptable', 'table': table, 'kids': kids}, nontrivial=spans,
                    tags=sorted(set([kind] + (['adversarial'] if adversarial else []) + wt_tags)))
            if displays or adversarial or out.startswith('err:'):
                continue
            # numeric view on fresh boxes; grid_width / grid_height are the arguments of collapse_table_borders
            seen = {}

            def recorder(tbl, width, height):
                seen['wh'] = (width, height)
                return None
            tbox2 = bt.make_real(table)
            tbox2.style['border_collapse'] = 'collapse'
            children2 = [bt.make_real(k) for k in kids]
            original = build.collapse_table_borders
            build.collapse_table_borders = recorder
            try:
                wrapped = build.wrap_table(tbox2, children2)
            finally:
                build.collapse_table_borders = original
            real_table = next(c for c in wrapped.children if isinstance(c, boxes.TableBox))
            col_in = [[len(g[6]), bt.parse_attr_raw(g[3][2], 1)] if g[0] == 'TableColumnGroupBox' else None
                      for g in kids if g[0] in ('TableColumnGroupBox', 'TableColumnBox')]
            col_in = self._grouped_columns(col_in)
            groups_in = [[[[parse_cell(c, 'colspan', 1), parse_cell(c, 'rowspan', 0)] for c in r[6]] for r in g[6]]
                         for g in self._grouped_rows(kids)]
            cols_out = [[g.grid_x, [c.grid_x for c in g.children]] for g in real_table.column_groups]
            groups_out = [[[[c.grid_x, c.colspan, c.rowspan] for c in r.children] for r in g.children]
                          for g in real_table.children]
            impl = f'{sx.dumps(cols_out)} {sx.dumps(groups_out)} {seen["wh"][0]} {seen["wh"][1]}'
            rowspans = any(c[1] != 1 for g in groups_in for r in g for c in r)
            skipped = any(row and any(b[0] != a[0] + a[1] for a, b in zip(row, row[1:])) or (row and row[0][0] != 0)
                          for g in groups_out for row in g)
            sec2.add(sx.line('slots', col_in, groups_in), impl,
                     meta={'fn': 'slots', 'cols': col_in, 'groups': groups_in}, nontrivial=rowspans,
                     tags=[f'groups{min(len(groups_in), 4)}'] + (['column-skipped'] if skipped else []))

    @staticmethod
    def _grouped_columns(items):
        """Consecutive stray columns (None) share one anonymous group of that many columns."""
        out, stray = [], 0
        for item in items:
            if item is None:
                stray += 1
            else:
                if stray:
                    out.append([stray, stray])
                    stray = 0
                out.append([item[0], item[0] if item[0] else item[1]])
        if stray:
            out.append([stray, stray])
        return out

    @staticmethod
    def _grouped_rows(kids):
        """Consecutive stray rows share one anonymous group (no header/footer displays here)."""
        groups, run_rows = [], []
        for k in kids:
            if k[0] == 'TableRowBox':
                run_rows.append(k)
            elif k[0] == 'TableRowGroupBox':
                if run_rows:
                    groups.append(['TableRowGroupBox', '-', 'normal', [None] * 3, '-', '', run_rows])
                    run_rows = []
                groups.append(k)
        if run_rows:
            groups.append(['TableRowGroupBox', '-', 'normal', [None] * 3, '-', '', run_rows])
        return groups

    def _document_section(self, run):
        rng = run.rng
        sec = run.section(
            'documents', 'build_formatting_structure on generated HTML (div/span with style attributes: every '
            'display value in any nesting, floats, absolute/fixed/running, 5 white-space values, capitalize, '
            'colspan/rowspan/span) against element_to_box + create_anonymous_boxes of the model; non-trivial = '
            'an anonymous box was created')
        for _ in range(run.n(220, 5000)):
            kids = [random_dom(rng, rng.choice([1, 2, 3, 3, 4])) for _ in range(rng.choice([1, 1, 2, 3]))]
            body_text = bt.random_text(rng) if rng.random() < 0.3 else ''
            html = document_html(kids, body_text)
            out = docs.outcome(lambda: show(formatting_structure(html)))
            wire = document_wire(kids, body_text)
            tags = []
            if any(dom_has(k, lambda n: n[0].startswith('table') or n[0] == 'inline-table') for k in kids):
                tags.append('table-parts')
            if any(dom_has(k, lambda n: n[0].startswith('inline') and any(
                    c[0] in ('block', 'flow-root', 'table', 'flex', 'grid', 'block flow') for c in n[8])) for k in kids):
                tags.append('block-in-inline')
            if any(dom_has(k, lambda n: n[1] != 'none' or n[2] not in ('static', 'relative')) for k in kids):
                tags.append('out-of-flow')
            tags += document_tags(kids, out)
            sec.add(sx.line('e2b', wire), out, meta={'fn': 'e2b', 'html': html, 'kids': kids, 'body_text': body_text},
                    nontrivial=bool(re.search(r'\((?!TextBox)\w+Box [fnarchtb]*A ', out)), tags=tags)

    # ---- judge ------------------------------------------------------------------------------
    def judge(self, d):
        meta = d.get('meta') or {}
        fn = meta.get('fn')
        impl = d['impl']
        if fn == 'ptext':
            if impl.startswith('err:'):
                return f'process_whitespace raised {impl} on {meta["text"]!r}'
            fields = sx.loads_line(impl)
            out = ''.join(chr(int(c)) for c in fields[0])
            what = ws_violation(meta['ws'], meta['text'], meta['fcs'], out)
            if what is None and len(fields) == 3 and meta['text']:
                # the state handed to the next run: "the text ended with a collapsible space"
                alone = reference_run(meta['text'], meta['ws'])
                expect = meta['ws'] in COLLAPSE and alone.endswith(' ')
                if str(fields[2]) != str(expect).lower():
                    what = (f'process_whitespace({meta["text"]!r}, white-space: {meta["ws"]}) tells the next run that '
                            f'a collapsible space precedes it: {fields[2]}, expected {str(expect).lower()}')
            return what
        if fn == 'cap':
            if impl.startswith('err:'):
                return f'capitalize raised {impl}'
            out = ''.join(chr(int(c)) for c in sx.loads_line(impl)[0])
            return capitalize_violation(meta['text'], out)
        if fn == 'blockify':
            return blockify_violation(meta['value'], meta['float'], meta['position'], meta['root'], meta['result'])
        if fn == 'content':
            return content_violation(meta['items'], meta['quotes'], meta['depth'])
        if fn == 'cfloat':
            return float_violation(meta['float'], meta['position'])
        if fn == 'boxtype':
            if impl.startswith('err:') and not d['model'].startswith('err:'):
                return f'display {meta["value"]} has no box class'
            return None
        if fn == 'slots':
            return self._replay_slots(meta)
        if fn == 'wraptable':
            return self._replay_wraptable(meta)
        if fn in TREE_FUNCTIONS or fn == 'pw':
            return self._replay_tree(meta)
        if fn == 'e2b':
            if known_document(meta['kids']):
                return None     # in the scope of a known finding: no clause can be judged on this document
            if impl.startswith('err:'):
                return (f'build_formatting_structure raised {impl[4:]}: the elements of the document generate no '
                        'box at all')
            return document_violation(meta['html'], meta['kids'], meta['body_text'])
        return None

    def _replay_tree(self, meta):
        """The clauses that can be stated on one rewriting step of the implementation."""
        build = build_mod()
        node, fn = meta['tree'], meta['fn']
        box = bt.make_real(copy.deepcopy(node))
        if meta.get('prepared') == 'pw':
            build.process_whitespace(box)
        elif meta.get('prepared'):
            box = build.inline_in_block(box) if 'LineBox' not in bt.kinds_of(node) else listify(box)
        flags = trailing_flag_expectations(box) if fn == 'iib' else []
        source = real_text(box)
        segments = box_segments(box)
        expectations = transform_expectations(box) if fn == 'ptt' else None
        ifc = ifc_expectations(box, meta['fcs']) if fn == 'pw' and not has_running(node) else None
        empty_groups = empty_column_groups(box) if fn in ('atb', 'pipeline') else []
        malformed = 'LineBox' in bt.kinds_of(node)
        try:
            if fn == 'pw':
                build.process_whitespace(box, meta['fcs'])
                result = box
            else:
                result = call_tree_function(fn, box)
        except Exception as exc:  # noqa: BLE001
            if malformed or has_running(node):   # running table parts: known finding running-table-part-crash
                return None
            return f'{TREE_FUNCTIONS.get(fn, fn)} raised {type(exc).__name__} on a well-formed tree'
        after = real_text(result)
        if fn == 'ptt':
            return transform_violation(box, expectations, result)
        if fn == 'pw' and not has_running(node) and box.is_in_normal_flow() and not meta['fcs']:
            flow = flow_text(result)
            if flow is not None and '  ' in flow:
                return f'two consecutive spaces in the inline content after process_whitespace: {flow!r}'
        if fn == 'pw':
            what = ifc_violation(ifc)
            if what:
                return what
        if visible_chars(after) != visible_chars(source) and not has_running(node):
            return f'{TREE_FUNCTIONS.get(fn, fn)} changed the text: {source!r} -> {after!r}'
        if not has_running(node) and not malformed:
            what = text_reaches_violation(segments, result, TREE_FUNCTIONS.get(fn, fn), processed_by_pw=fn == 'pw')
            if what:
                return what
        if fn in ('atb', 'pipeline') and not has_running(node):
            for group, span in empty_groups:
                if len(group.children) != span:
                    return (f'an empty column group with span={span} got {len(group.children)} columns '
                            '(HTML 4.9.3: the group represents `span` columns)')
        if fn in ('atb', 'pipeline') and not malformed and not has_running(node):
            # rule 3.2 is judged where the generating parent still is the parent: right after the table pass
            after_tables = result if fn == 'atb' else build.anonymous_table_boxes(bt.make_real(copy.deepcopy(node)))
            what = anonymous_table_violation(after_tables)
            if what:
                return what
        if fn == 'pipeline' and not malformed and not has_running(node):
            return self._pipeline_structure_violation(node, result)
        if fn == 'atb' and not has_running(node):
            return tables_violation(result)
        if fn in ('flex', 'grid') and not has_running(node):
            # each pass is judged on its own kind of container (the other kind is not processed yet)
            what = item_violation(result)
            if what and ((fn == 'flex') == ('flex item' in what)):
                return what
        if fn == 'iib' and not has_running(node):
            for b in flags:
                if not b.trailing_collapsible_space:
                    return ('inline_in_block forgot a collapsed space: the last child of a '
                            f'{type(b).__name__} was a text box emptied by process_whitespace (its space collapsed '
                            'with a preceding one, leading_collapsible_space set), yet the box does not carry '
                            'trailing_collapsible_space, the break opportunity after it')
        if fn == 'iib' and not malformed and not has_running(node):
            return iib_violation(result)
        if fn == 'bii' and not malformed and not has_running(node) and meta.get('prepared'):
            return bii_violation(result)
        return None

    @staticmethod
    def _pipeline_structure_violation(node, result):
        """_sanity_checks on the result of create_anonymous_boxes.  The fix-ups give inline-level content a line
        box only inside a block container, and split inline boxes around blocks only inside a line box: the
        clause says nothing about the children of a bare inline box at the root of the tree (in a document the
        root element's box is blockified), so the check starts below such boxes."""
        from weasyprint.formatting_structure import boxes

        def check(box):
            if isinstance(box, boxes.InlineBox):
                for child in box.children:
                    what = check(child)
                    if what:
                        return what
                return None
            return proper_children_violation(box)
        return check(result) or tables_violation(result)

    def _replay_wraptable(self, meta):
        build = build_mod()
        tbox = bt.make_real(meta['table'])
        children = [bt.make_real(k) for k in meta['kids']]
        well_typed = all(k[0] in ('TableRowGroupBox', 'TableRowBox', 'TableColumnBox', 'TableColumnGroupBox',
                                  'TableCaptionBox') for k in meta['kids']) and all(
            c[0] == 'TableCellBox' for g in meta['kids'] if g[0] in ('TableRowGroupBox', 'TableRowBox')
            for r in (g[6] if g[0] == 'TableRowGroupBox' else [g]) for c in r[6])
        # the rows of every group and the stray rows, in document order, before the call
        expected = []
        for node, child in zip(meta['kids'], children):
            if node[0] == 'TableRowGroupBox':
                expected.append((node[1], [id(r) for r in child.children]))
            elif node[0] == 'TableRowBox':
                if expected and expected[-1][0] is None:
                    expected[-1][1].append(id(child))
                else:
                    expected.append((None, [id(child)]))
        source = ''.join(real_text_all(c) for c in children)
        captions = [id(c) for n, c in zip(meta['kids'], children) if n[0] == 'TableCaptionBox']
        try:
            wrapper = build.wrap_table(tbox, children)
        except Exception as exc:  # noqa: BLE001
            return f'wrap_table raised {type(exc).__name__}' if well_typed else None
        if not wrapper.is_table_wrapper:
            return 'wrap_table did not return a table wrapper'
        what = tables_violation(wrapper)
        if what or not well_typed:
            return what
        from weasyprint.formatting_structure import boxes
        table = next(c for c in wrapper.children if isinstance(c, boxes.TableBox))
        # CSS 2.1 17.2: the first header group first, the first footer group last, everything else in
        # document order; every row, caption and character exactly once
        header = next((e for e in expected if e[0] and 'h' in e[0]), None)
        footer = next((e for e in expected if e[0] and 't' in e[0]), None)
        order = ([header] if header else []) + [e for e in expected if e is not header and e is not footer] + (
            [footer] if footer else [])
        got = [[id(r) for r in g.children] for g in table.children]
        if got != [rows for _, rows in order]:
            return ('wrap_table does not keep the row groups in document order with the first header group first '
                    f'and the first footer group last: groups of sizes {[len(r) for _, r in expected]} with displays '
                    f'{[d for d, _ in expected]} -> sizes {[len(g) for g in got]}')
        if sorted(id(c) for c in wrapper.children if isinstance(c, boxes.TableCaptionBox)) != sorted(captions):
            return 'wrap_table lost or duplicated a caption'
        if sorted(real_text_all(wrapper)) != sorted(source):
            return f'wrap_table changed the text: {source!r} -> {real_text_all(wrapper)!r}'
        return None

    def _replay_slots(self, meta):
        from weasyprint.formatting_structure import boxes
        build = build_mod()
        kids = []
        for n_cols, span in meta['cols']:
            cols = [['TableColumnBox', '-', 'normal', [None] * 3, '-', '', []] for _ in range(n_cols)]
            kids.append(['TableColumnGroupBox', '-', 'normal', [None, None, str(span)], '-', '', cols])
        for group in meta['groups']:
            rows = [['TableRowBox', '-', 'normal', [None] * 3, '-', '',
                     [['TableCellBox', '-', 'normal', [str(c), str(r), None], '-', '', []] for c, r in row]]
                    for row in group]
            kids.append(['TableRowGroupBox', '-', 'normal', [None] * 3, '-', '', rows])
        tbox = bt.make_real(['TableBox', '-', 'normal', [None] * 3, '-', '', []])
        tbox.style['border_collapse'] = 'collapse'
        seen = {}
        original = build.collapse_table_borders
        build.collapse_table_borders = lambda tbl, width, height: seen.update(wh=(width, height))
        try:
            wrapper = build.wrap_table(tbox, [bt.make_real(k) for k in kids])
        finally:
            build.collapse_table_borders = original
        table = next(c for c in wrapper.children if isinstance(c, boxes.TableBox))
        for group in table.children:
            what = group_slots_violation(group)
            if what:
                return what
        # the grid is as wide as its widest row / its columns, and as high as its rows
        edges = [c.grid_x + c.colspan for g in table.children for r in g.children for c in r.children]
        columns = sum(len(g.children) if g.children else g.span for g in table.column_groups)
        width, height = seen['wh']
        if width != max(edges + [columns]):
            return (f'grid_width {width} of a table whose cells end at column {max(edges + [0])} and which has '
                    f'{columns} columns')
        if height != sum(len(g.children) for g in table.children):
            return f'grid_height {height} of a table with {sum(len(g.children) for g in table.children)} rows'
        return None

    # ---- search -----------------------------------------------------------------------------
    def search(self, run, failures):
        """Rendered documents judged by the structural oracle and the reference white-space processor;
        function-level oracles on fresh inputs first (cheap)."""
        docs.quiet()
        import random
        rng = random.Random(f'C08-search:{run.seed}')
        build = build_mod()
        from weasyprint.formatting_structure import boxes
        found = []

        def report(what, payload, signature):
            found.append({'what': what, 'input': payload, 'signature': signature})
            return len(found) >= 3
        # inputs of this run's disagreements first
        for f in failures:
            if f['kind'] != 'correspondence':
                continue
            try:
                what = self.judge(f['detail'])
            except Exception:  # noqa: BLE001
                what = None
            run.search_stats['evaluations'] += 1
            if what and report(what, f['detail'], f['detail']['line'][:200]):
                return found
        # white space, all short strings
        for n in range(1, 6):
            for chars in itertools.product('a \t\n\r', repeat=n):
                text = ''.join(chars)
                for ws in WS_VALUES:
                    for fcs in (False, True):
                        run.search_stats['evaluations'] += 1
                        box = boxes.TextBox('div', bt.style_from('-', ws), None, text)
                        try:
                            build.process_whitespace(box, fcs)
                            what = ws_violation(ws, text, fcs, box.text)
                        except Exception as exc:  # noqa: BLE001
                            what = f'process_whitespace raised {type(exc).__name__}'
                        if what and report(what, {'meta': {'fn': 'ptext', 'ws': ws, 'fcs': fcs, 'text': text}},
                                           f'ptext/{ws}/{text!r}'):
                            return found
        # white space threaded through two text boxes
        short = [''.join(p) for n in (1, 2, 3) for p in itertools.product('a \n', repeat=n)]
        for t1 in short:
            for t2 in short:
                for ws1, ws2 in (('normal', 'normal'), ('normal', 'pre-line'), ('pre-line', 'nowrap')):
                    run.search_stats['evaluations'] += 1
                    what = threading_violation([(t1, ws1), (t2, ws2)])
                    if what and report(what, {'meta': {'fn': 'thread', 'texts': [[t1, ws1], [t2, ws2]]}},
                                       f'thread/{t1!r}/{t2!r}/{ws1}/{ws2}'):
                        return found
        for t1 in short:
            for t2 in (' ', '\n', '  ', ' \n'):
                for t3 in short[:12]:
                    run.search_stats['evaluations'] += 1
                    texts = [(t1, 'normal'), (t2, 'normal'), (t3, 'normal')]
                    what = threading_violation(texts)
                    if what and report(what, {'meta': {'fn': 'thread', 'texts': [list(t) for t in texts]}},
                                       f'thread3/{t1!r}/{t2!r}/{t3!r}'):
                        return found
        # a preserved run (pre / pre-wrap), an empty run or a pre-line run between two collapsible runs, flat and
        # with runs in inline boxes of their own: only a *collapsible* space makes the next one go
        for t1 in ('a ', 'a', ' ', 'a\n', ''):
            for t2, ws2 in (('x', 'pre'), (' x ', 'pre'), ('x', 'pre-wrap'), (' ', 'pre-wrap'), ('x ', 'pre'),
                            ('', 'normal'), ('', 'pre'), ('x', 'pre-line'), ('x\n', 'pre-line'), (' ', 'nowrap')):
                for t3 in (' b', 'b', ' ', '\nb', '\tb'):
                    for nested in ((), (1,), (0, 2)):
                        for fcs in (False, True):
                            run.search_stats['evaluations'] += 1
                            texts = [[t1, 'normal'], [t2, ws2], [t3, 'normal']]
                            what = threading_violation(texts, fcs, nested)
                            if what and report(what, {'meta': {'fn': 'thread', 'texts': texts, 'fcs': fcs,
                                                               'nested': list(nested)}},
                                               f'thread-mixed/{t1!r}/{t2!r}/{ws2}/{t3!r}/{nested}/{fcs}'):
                                return found
        # one short text run in every position where a rewriting step may drop text: first in a block
        # container, between two blocks, child of a flex / grid container, between table parts
        def leaf(kind, kids=()):
            return [kind, '-', 'normal', [None, None, None], '-', '', list(kids)]
        runs = [' ', '  ', '\t', '\n', '\u00a0', '\u2003', ' a', 'a ', '\u00a0 ']
        for text in runs:
            for ws in WS_VALUES:
                tnode = ['TextBox', 'A', ws, [None, None, None], '-', text, []]
                inline = ['InlineBox', '-', ws, [None, None, None], '-', '', [['TextBox', 'A', ws, [None] * 3, '-', 'x', []]]]
                shapes = [
                    ('iib', ['BlockBox', '-', ws, [None] * 3, '-', '', [tnode, inline]]),
                    ('iib', ['BlockBox', '-', ws, [None] * 3, '-', '', [leaf('BlockBox'), tnode, leaf('BlockBox')]]),
                    ('iib', ['TableCellBox', '-', ws, [None] * 3, '-', '', [tnode, inline]]),
                    ('flex', ['FlexBox', '-', ws, [None] * 3, '-', '', [tnode, inline]]),
                    ('grid', ['GridBox', '-', ws, [None] * 3, '-', '', [tnode, inline]]),
                    ('flex', ['InlineFlexBox', '-', ws, [None] * 3, '-', '', [inline, tnode]]),
                    ('atb', ['TableBox', '-', ws, [None] * 3, '-', '', [leaf('TableRowBox'), tnode, leaf('TableRowBox')]]),
                    ('pipeline', ['BlockBox', '-', ws, [None] * 3, '-', '', [tnode, inline, leaf('BlockBox')]]),
                ]
                for fn, node in shapes:
                    run.search_stats['evaluations'] += 1
                    meta = {'fn': fn, 'tree': node}
                    try:
                        what = self._replay_tree(meta)
                    except Exception as exc:  # noqa: BLE001
                        what = f'oracle crashed: {type(exc).__name__}: {exc}'
                    if what and report(what, {'meta': meta}, f'corner/{fn}/{node[0]}/{text!r}/{ws}'):
                        return found
        # misparented table parts under every kind of parent (rule 3.2: which anonymous table, which wrapper)
        parents = ['BlockBox', 'InlineBox', 'InlineBlockBox', 'InlineFlexBox', 'InlineGridBox', 'FlexBox', 'GridBox',
                   'TableCellBox', 'TableCaptionBox', 'TableRowBox', 'TableRowGroupBox']
        parts = ['TableCellBox', 'TableRowBox', 'TableRowGroupBox', 'TableCaptionBox', 'TableColumnBox',
                 'TableColumnGroupBox']
        word = ['TextBox', 'A', 'normal', [None, None, None], '-', 'x', []]
        for parent in parents:
            for part in parts:
                stray = leaf(parent, [word, leaf(part, [] if 'Column' in part else [word])])
                for fn, node in (('atb', stray), ('pipeline', leaf('BlockBox', [word, stray]))):
                    run.search_stats['evaluations'] += 1
                    meta = {'fn': fn, 'tree': node}
                    try:
                        what = self._replay_tree(meta)
                    except Exception as exc:  # noqa: BLE001
                        what = f'oracle crashed: {type(exc).__name__}: {exc}'
                    if what and report(what, {'meta': meta}, f'stray/{fn}/{parent}/{part}'):
                        return found
        # several header / footer groups in one table: only the first of each is lifted, nothing is lost
        def group(letters, text):
            cell = leaf('TableCellBox', [['TextBox', 'A', 'normal', [None, None, None], '-', text, []]])
            return ['TableRowGroupBox', letters, 'normal', [None, None, None], '-', '', [leaf('TableRowBox', [cell])]]
        for letters in itertools.product('-ht', repeat=4):
            groups = [group(x, 'abcd'[i]) for i, x in enumerate(letters)]
            for fn, node in (('atb', leaf('TableBox', groups)), ('pipeline', leaf('BlockBox', [leaf('TableBox', groups)]))):
                run.search_stats['evaluations'] += 1
                meta = {'fn': fn, 'tree': node}
                try:
                    what = self._replay_tree(meta)
                except Exception as exc:  # noqa: BLE001
                    what = f'oracle crashed: {type(exc).__name__}: {exc}'
                if what and report(what, {'meta': meta}, f'groups/{fn}/{"".join(letters)}'):
                    return found
            run.search_stats['evaluations'] += 1
            meta = {'fn': 'wraptable', 'table': leaf('TableBox'), 'kids': groups}
            try:
                what = self._replay_wraptable(meta)
            except Exception as exc:  # noqa: BLE001
                what = f'oracle crashed: {type(exc).__name__}: {exc}'
            if what and report(what, {'meta': meta}, f'groups/wraptable/{"".join(letters)}'):
                return found
        # quotation marks: every sequence of up to three quote keywords, every `quotes` value, depth 0-3
        for quotes in QUOTES:
            for depth in range(4):
                for n in (1, 2, 3):
                    for keywords in itertools.product(sorted(set(CONTENT_ITEMS)), repeat=n):
                        run.search_stats['evaluations'] += 1
                        items = [['q', k] for k in keywords]
                        what = content_violation(items, quotes, depth)
                        if what and report(what, {'meta': {'fn': 'content', 'items': items, 'quotes': quotes,
                                                           'depth': depth}}, f'content/{quotes}/{depth}/{keywords}'):
                            return found
        # computed float
        for float_ in box_kinds.FLOATS:
            for position in box_kinds.POSITIONS:
                run.search_stats['evaluations'] += 1
                what = float_violation(float_, position)
                if what and report(what, {'meta': {'fn': 'cfloat', 'float': float_, 'position': position}},
                                   f'cfloat/{float_}/{position}'):
                    return found
        # floated / positioned children of flex and grid containers
        for container in ('FlexBox', 'InlineFlexBox', 'GridBox', 'InlineGridBox'):
            for letters in ('-', 'f', 'a', 'n'):
                for kind in ('BlockBox', 'InlineBox', 'InlineBlockBox', 'TextBox'):
                    kid = [kind, letters, 'normal', [None, None, None], '-', 'x' if kind == 'TextBox' else '', []]
                    fn = 'flex' if 'Flex' in container else 'grid'
                    meta = {'fn': fn, 'tree': leaf(container, [kid, leaf('BlockBox')])}
                    run.search_stats['evaluations'] += 1
                    try:
                        what = self._replay_tree(meta)
                    except Exception as exc:  # noqa: BLE001
                        what = f'oracle crashed: {type(exc).__name__}: {exc}'
                    if what and report(what, {'meta': meta}, f'items/{container}/{letters}/{kind}'):
                        return found
        # blockification and box classes
        for value in box_kinds.display_values():
            for float_ in box_kinds.FLOATS:
                for position in box_kinds.POSITIONS:
                    for root in (False, True):
                        run.search_stats['evaluations'] += 1
                        meta = self._blockify_meta(value, float_, position, root)
                        what = blockify_violation(meta['value'], float_, position, root, meta['result'])
                        if what and not known_blockify(meta['value'], meta['result']) and report(
                                what, {'meta': meta}, f'blockify/{value}/{float_}/{position}/{root}'):
                            return found
        # slot assignment
        for _ in range(run.n(1500, 20000)):
            run.search_stats['evaluations'] += 1
            groups = [[[[rng.choice([1, 1, 2, 3, 4]), rng.choice([1, 1, 1, 2, 3, 4, 0])]
                        for _ in range(rng.choice([0, 1, 2, 3, 4]))] for _ in range(rng.choice([1, 2, 3, 4, 5]))]
                      for _ in range(rng.choice([1, 2]))]
            meta = {'fn': 'slots', 'cols': [], 'groups': groups}
            try:
                what = self._replay_slots(meta)
            except Exception as exc:  # noqa: BLE001
                what = f'wrap_table raised {type(exc).__name__}'
            if what and report(what, {'meta': meta}, f'slots/{groups}'):
                return found
        # trees through the whole pipeline
        allp = bt.INLINE_KINDS + bt.BLOCK_KINDS + bt.TABLE_KINDS
        for _ in range(run.n(1500, 20000)):
            node = bt.random_tree(rng, rng.choice([1, 2, 3]), pool=allp, p_out=0.1)
            # like the root element, the root of the tree is a block container in normal flow
            node = ['BlockBox', '-', 'normal', [None, None, None], '-', '', [node]]
            if has_running(node):
                continue
            run.search_stats['evaluations'] += 1
            meta = {'fn': 'pipeline', 'tree': node}
            try:
                what = self._replay_tree(meta)
            except Exception as exc:  # noqa: BLE001
                what = f'oracle crashed: {type(exc).__name__}: {exc}'
            if what and report(what, {'meta': meta}, f'pipeline/{node}'):
                return found
        # one document per display value, in flow and floated
        for display in sorted(set(DISPLAYS)):
            for float_ in ('none', 'left'):
                node = [display, float_, 'static', 'normal', False, False, [None] * 3, 'x', [], 'y', {}, 1]
                kids = [['block', 'none', 'static', 'normal', False, False, [None] * 3, '', [node], '', {}, 2]]
                html = document_html(kids, '')
                run.search_stats['evaluations'] += 1
                try:
                    what = document_violation(html, kids, '')
                except Exception as exc:  # noqa: BLE001
                    what = f'build_formatting_structure raised {type(exc).__name__}: {exc}'
                if what and report(what, {'meta': {'fn': 'e2b', 'html': html, 'kids': kids, 'body_text': ''}},
                                   f'doc/{display}/{float_}'):
                    return found
        # a misparented table part in every kind of container
        for outer in ('block', 'inline', 'inline-block', 'inline-flex', 'inline-grid', 'flex', 'grid', 'table-cell',
                      'list-item', 'flow-root'):
            for part in ('table-cell', 'table-row', 'table-row-group', 'table-caption'):
                stray = [part, 'none', 'static', 'normal', False, False, [None] * 3, 'x', [], 'y', {}, 1]
                holder = [outer, 'none', 'static', 'normal', False, False, [None] * 3, 'w', [stray], 'z', {}, 2]
                kids = [['block', 'none', 'static', 'normal', False, False, [None] * 3, '', [holder], '', {}, 3]]
                html = document_html(kids, '')
                run.search_stats['evaluations'] += 1
                try:
                    what = document_violation(html, kids, '')
                except Exception as exc:  # noqa: BLE001
                    what = f'build_formatting_structure raised {type(exc).__name__}: {exc}'
                if what and report(what, {'meta': {'fn': 'e2b', 'html': html, 'kids': kids, 'body_text': ''}},
                                   f'doc-stray/{outer}/{part}'):
                    return found
        # rendered documents
        for _ in range(run.n(150, 1500)):
            kids = [random_dom(rng, rng.choice([1, 2, 3])) for _ in range(rng.choice([1, 2]))]
            if known_document(kids):
                continue
            body_text = ''
            html = document_html(kids, body_text)
            run.search_stats['evaluations'] += 1
            try:
                what = document_violation(html, kids, body_text)
            except Exception as exc:  # noqa: BLE001
                what = f'build_formatting_structure raised {type(exc).__name__}: {exc}'
            if not what:
                try:
                    what = document_violation(html, kids, body_text, rendered=True)
                except Exception:  # noqa: BLE001 - box generation succeeded: a layout failure is not C08's clause
                    what = None
            if what and report(what, {'meta': {'fn': 'e2b', 'html': html, 'kids': kids, 'body_text': body_text}},
                               f'doc/{html[:200]}'):
                return found
        return found

    @staticmethod
    def _blockify_meta(value, float_, position, root):
        from weasyprint.css import computed_values

        class Style:
            specified = {'float': float_, 'position': ('running()', 'x') if position == 'running' else position}
            is_root_element = root
        result = computed_values.display(Style(), 'display', tuple(value))
        return {'fn': 'blockify', 'value': list(value), 'float': float_, 'position': position, 'root': root,
                'result': list(result)}

    # ---- known findings / replay ------------------------------------------------------------
    def finding_replays(self):
        return {
            'colspan-overlaps-rowspan': finding_colspan_overlap,
            'blockify-inline-table-flex-grid': finding_blockify,
            'running-table-part-crash': finding_running_row,
        }

    def replay(self, data):
        inp = data.get('input', {})
        meta = inp.get('meta') or {}
        fn = meta.get('fn')
        if not fn:
            return None
        if fn == 'ptext':
            from weasyprint.formatting_structure import boxes
            box = boxes.TextBox('div', bt.style_from('-', meta['ws']), None, meta['text'])
            try:
                build_mod().process_whitespace(box, meta['fcs'])
            except Exception as exc:  # noqa: BLE001
                return f'process_whitespace raised {type(exc).__name__}'
            return ws_violation(meta['ws'], meta['text'], meta['fcs'], box.text)
        if fn == 'cap':
            return capitalize_violation(meta['text'], build_mod().capitalize(meta['text']))
        if fn == 'content':
            return content_violation(meta['items'], meta['quotes'], meta['depth'])
        if fn == 'cfloat':
            return float_violation(meta['float'], meta['position'])
        if fn == 'thread':
            return threading_violation([tuple(t) for t in meta['texts']], meta.get('fcs', False),
                                       tuple(meta.get('nested', ())))
        if fn == 'blockify':
            m = self._blockify_meta(meta['value'], meta['float'], meta['position'], meta['root'])
            return blockify_violation(m['value'], m['float'], m['position'], m['root'], m['result'])
        if fn == 'slots':
            return self._replay_slots(meta)
        if fn == 'wraptable':
            return self._replay_wraptable(meta)
        if fn == 'e2b':
            try:
                what = document_violation(meta['html'], meta['kids'], meta['body_text'])
            except Exception as exc:  # noqa: BLE001
                return f'build_formatting_structure raised {type(exc).__name__}: {exc}'
            if what:
                return what
            try:
                return document_violation(meta['html'], meta['kids'], meta['body_text'], rendered=True)
            except Exception:  # noqa: BLE001 - box generation succeeded: a layout failure is not C08's clause
                return None
        if fn in TREE_FUNCTIONS or fn == 'pw':
            return self._replay_tree(meta)
        return None


def parse_cell(node, name, floor):
    raw = node[3][0 if name == 'colspan' else 1]
    value = parse_int(raw)
    if value is None:
        return 1
    return max(value, floor)


# CSS 2.1 9.7 / css-display-3 2.7: what a floated, absolutely positioned or root element computes to
BLOCKIFIED = {
    ('inline', 'flow'): ('block', 'flow'), ('inline', 'flow-root'): ('block', 'flow-root'),
    ('inline', 'table'): ('block', 'table'), ('inline', 'flex'): ('block', 'flex'),
    ('inline', 'grid'): ('block', 'grid'),
}


def blockify_violation(value, float_, position, root, result):
    value, result = tuple(value), tuple(result)
    if value == ('none',):
        return None if result == value else f'display none became {result}'
    blockified = position in ('absolute', 'fixed') or float_ != 'none' or root
    if not blockified:
        return None if result == value else f'in-flow display {value} became {result}'
    if len(value) == 1 and value[0].startswith('table-'):
        expect = ('block', 'flow')
    elif value[:2] in BLOCKIFIED:
        expect = BLOCKIFIED[value[:2]] + value[2:]
    else:
        expect = value
    # a block flow-root and a block flow box are the same box once it is floated / positioned
    same = (result == expect) or (
        {result[:2], expect[:2]} == {('block', 'flow'), ('block', 'flow-root')} and result[2:] == expect[2:])
    if same:
        return None
    return (f'display {" ".join(value)} with float:{float_} position:{position} root:{root} computes to '
            f'{" ".join(result)}, expected {" ".join(expect)}')


def float_violation(float_, position):
    """CSS 2.1 9.7 (and css-gcpm-3 running elements, which leave the flow like absolutely positioned ones): an
    absolutely positioned, fixed or running element does not float; everything else keeps its float."""
    from weasyprint.css import computed_values

    class Style:
        specified = {'float': float_, 'position': ('running()', 'x') if position == 'running' else position}
        is_root_element = False
    result = computed_values.compute_float(Style(), 'float', float_)
    expect = 'none' if position in ('absolute', 'fixed', 'running') else float_
    if result != expect:
        return f'float: {float_} with position: {position} computes to {result}, expected {expect}'
    return None


def item_violation(box):
    """css-flexbox-1 4 ("float and clear do not create floating or clearance of flex item"): every child of a
    flex container that is not absolutely positioned (or a running / footnote element) is a flex item, floated
    or not; css-grid-2 6.1: every in-flow child of a grid container is a grid item."""
    from weasyprint.formatting_structure import boxes
    for b, parent in walk_real(box):
        if parent is None or parent.is_running():
            continue
        out = b.is_absolutely_positioned() or b.is_running() or b.style['float'] == 'footnote'
        if isinstance(parent, boxes.FlexContainerBox) and not out and not b.is_flex_item:
            return (f'a {type(b).__name__} child (float: {b.style["float"]}) of a {type(parent).__name__} is not a '
                    'flex item')
        if isinstance(parent, boxes.GridContainerBox) and not out and b.style['float'] == 'none' and not b.is_grid_item:
            return f'an in-flow {type(b).__name__} child of a {type(parent).__name__} is not a grid item'
    return None


def known_blockify(value, result):
    return tuple(value[:2]) in (('inline', 'table'), ('inline', 'flex'), ('inline', 'grid')) and \
        tuple(result[:2]) == ('block', 'flow')


def trailing_flag_expectations(box):
    """Boxes (with children, not running) whose last child is an empty text box with leading_collapsible_space:
    a collapsed space that inline_in_block must remember as `trailing_collapsible_space` of the box when it
    removes the empty text (it is the line-break opportunity split_inline_box looks for)."""
    from weasyprint.formatting_structure import boxes
    out = []
    for b, _ in walk_real(box):
        kids = list(getattr(b, 'children', ()))
        if (kids and not b.is_running() and isinstance(kids[-1], boxes.TextBox) and not kids[-1].text and
                kids[-1].leading_collapsible_space):
            out.append(b)
    return out


def iib_violation(box):
    """After inline_in_block: a block container holds only block-level boxes or exactly one line box."""
    from weasyprint.formatting_structure import boxes
    if isinstance(box, boxes.BlockContainerBox) and box.children:
        lines = [c for c in box.children if isinstance(c, boxes.LineBox)]
        if lines and len(box.children) != 1:
            return f'{type(box).__name__} mixes a line box with {len(box.children) - 1} other children'
        if not lines:
            for c in box.children:
                if isinstance(c, boxes.InlineLevelBox) and c.is_in_normal_flow():
                    return f'inline-level {type(c).__name__} directly in a {type(box).__name__}'
    if isinstance(box, boxes.LineBox):
        for c in box.children:
            if not isinstance(c, boxes.InlineLevelBox) and c.is_in_normal_flow():
                return f'{type(c).__name__} in normal flow inside a line box'
    for c in getattr(box, 'children', ()):
        what = iib_violation(c)
        if what:
            return what
    return None


def bii_violation(box, in_line=False):
    """After block_in_inline: no block-level in-flow box below a line box through inline boxes."""
    from weasyprint.formatting_structure import boxes
    if in_line and isinstance(box, boxes.BlockLevelBox) and box.is_in_normal_flow():
        return f'block-level {type(box).__name__} inside a line'
    if isinstance(box, boxes.LineBox):
        inside = True
    elif isinstance(box, boxes.InlineBox):
        inside = in_line
    else:
        inside = False
    for c in getattr(box, 'children', ()):
        what = bii_violation(c, inside)
        if what:
            return what
    return None


def display_box_violation(display, box):
    """css-display-3: the box an element generates has the nature its computed display prescribes."""
    from weasyprint.formatting_structure import boxes
    display = tuple(display)[:2]
    singles = {
        'table-row': boxes.TableRowBox, 'table-row-group': boxes.TableRowGroupBox,
        'table-header-group': boxes.TableRowGroupBox, 'table-footer-group': boxes.TableRowGroupBox,
        'table-column': boxes.TableColumnBox, 'table-column-group': boxes.TableColumnGroupBox,
        'table-cell': boxes.TableCellBox, 'table-caption': boxes.TableCaptionBox}
    name = type(box).__name__
    if len(display) == 1:
        cls = singles.get(display[0])
        if cls is None or type(box) is not cls:
            return f'display {display[0]} generated a {name}'
        return None
    outer, inner = display
    if outer == 'block' and not (isinstance(box, boxes.BlockLevelBox) and not isinstance(box, boxes.InlineLevelBox)):
        return f'display {outer} {inner} generated a {name}, which is not block-level'
    if outer == 'inline' and not (isinstance(box, boxes.InlineLevelBox) or type(box) is boxes.InlineTableBox):
        return f'display {outer} {inner} generated a {name}, which is not inline-level'
    want = {'flow': boxes.BlockContainerBox if outer == 'block' else boxes.InlineBox,
            'flow-root': boxes.BlockContainerBox, 'table': boxes.TableBox, 'flex': boxes.FlexContainerBox,
            'grid': boxes.GridContainerBox}[inner]
    if not isinstance(box, want):
        return f'display {outer} {inner} generated a {name}, which is not a {want.__name__}'
    return None


def element_boxes(root):
    """n attribute -> (box generated for that element, parent box); anonymous boxes are skipped, and so are
    the blocks flex_children / grid_children put around inline-level items (they share the item's style)."""
    from weasyprint.css import AnonymousStyle
    from weasyprint.formatting_structure import boxes
    candidates = {}

    def walk(box, parent):
        if (not isinstance(box.style, AnonymousStyle) and box.element is not None and
                box.element.get('n') is not None and not isinstance(box, boxes.TextBox)):
            candidates.setdefault(box.element.get('n'), []).append((box, parent))
        for child in box.children:
            walk(child, box)
        for group in getattr(box, 'column_groups', ()):
            walk(group, box)
    walk(root, None)
    found = {}
    for key, entries in candidates.items():
        def is_item_wrapper(entry):
            box = entry[0]
            return (type(box) is boxes.BlockBox and (box.is_flex_item or box.is_grid_item) and
                    box.style['display'][0] == 'inline')
        proper = [e for e in entries if not is_item_wrapper(e)]
        found[key] = (proper or entries)[0]
    return found


def dom_structure_violation(root, kids):
    """Boxes have the class their computed display prescribes; the table parts written in the document
    sit where CSS 2.1 17.2 puts them (group in table, row in group, cell in row, caption in wrapper)."""
    from weasyprint.formatting_structure import boxes
    found = element_boxes(root)

    def visit(node, blocked):
        display = node[0]
        if display == 'none':
            return None
        entry = found.get(str(node[11]))
        running = node[2] == 'running'
        if entry is None:
            return None
        box, parent = entry
        # css-flexbox-1 4 / css-grid-2 6.1: an inline-block item is blockified (its box is replaced by a block)
        blockified_item = ((box.is_flex_item or box.is_grid_item) and type(box) is boxes.BlockBox and
                           box.style['display'][:2] == ('inline', 'flow-root'))
        what = None if blockified_item else display_box_violation(box.style['display'], box)
        if what:
            return what
        if not blocked and not running and isinstance(box, boxes.TableBox):
            for child in node[8]:
                centry = found.get(str(child[11]))
                if centry is None or child[2] == 'running':
                    continue
                cbox, cparent = centry
                if isinstance(cbox, boxes.TableRowGroupBox) and cparent is not box:
                    return 'a row group written in a table is not a child of the table box'
                if isinstance(cbox, boxes.TableRowBox) and not (
                        isinstance(cparent, boxes.TableRowGroupBox) and cparent in box.children):
                    return 'a row written in a table is not in a row group of the table box'
                if type(cbox) is boxes.TableCaptionBox and not (
                        parent is not None and parent.is_table_wrapper and cparent is parent):
                    return 'a caption written in a table is not a child of the table wrapper'
                if isinstance(cbox, (boxes.TableColumnGroupBox,)) and cbox not in box.column_groups:
                    return 'a column group written in a table is not in its column_groups'
        if not blocked and not running and type(box) is boxes.TableRowBox:
            for child in node[8]:
                centry = found.get(str(child[11]))
                if centry is None or child[2] == 'running':
                    continue
                cbox, cparent = centry
                if isinstance(cbox, boxes.TableCellBox) and cparent is not box:
                    return 'a cell written in a row is not a child of the row box'
        for child in node[8]:
            what = visit(child, blocked or running or display in ('table-column', 'table-column-group'))
            if what:
                return what
        return None
    for k in kids:
        what = visit(k, False)
        if what:
            return what
    return None


def reference_whitespace(segments):
    """Reference CSS 2.1 16.6.1 processor on the text runs of one inline formatting context:
    segments = [(text, white-space)] -> rendered characters without white space, and words."""
    return [c for text, _ in segments for c in text if c not in WHITE]


TABLE_DISPLAYS = ('table', 'inline-table', 'table-row-group', 'table-header-group', 'table-footer-group',
                  'table-row', 'table-cell', 'table-caption', 'table-column', 'table-column-group')
ITEM_DISPLAYS = ('flex', 'inline-flex', 'grid', 'inline-grid')


def reference_quote(quotes, depth, is_open):
    """CSS 2.1 12.3.2: the pair of the current nesting level, the last pair beyond."""
    if quotes == 'none':
        return ''
    opens, closes = (['\u201c', '\u2018'], ['\u201d', '\u2019']) if quotes == 'auto' else quotes
    pair = opens if is_open else closes
    return pair[min(depth, len(pair) - 1)]


def reference_content(p, attrs, depth):
    """Text generated by one `content` list and the quote depth after it (CSS 2.1 12.2 / 12.3.2)."""
    out = ''
    named = dict(zip(('colspan', 'rowspan', 'span'), attrs))
    for kind, value in p['content'] or []:
        if kind == 's':
            out += value
        elif kind == 'a':
            out += named.get(value) or ''
        else:
            is_open, insert = 'open' in value, not value.startswith('no-')
            if not is_open:
                depth = max(0, depth - 1)
            if insert:
                out += reference_quote(p['quotes'], depth, is_open)
            if is_open:
                depth += 1
    return out, depth


def content_violation(items, quotes, depth):
    """CSS 2.1 12.2 / 12.3.2 on the real content_to_boxes: the generated text is the concatenation of the strings
    and of the quotation marks of the current nesting level (the last pair beyond the last level), and
    the nesting level after the list is the one the keywords lead to (never below zero)."""
    from weasyprint.css.counters import CounterStyle
    from weasyprint.css.targets import TargetCollector
    from weasyprint.formatting_structure import boxes
    style = bt.style_from('-', 'normal')
    style['content'] = tuple(('string', v) if k == 's' else ('quote', v) for k, v in items)
    style['quotes'] = quotes if isinstance(quotes, str) else (tuple(quotes[0]), tuple(quotes[1]))
    style['lang'] = None
    parent = boxes.InlineBox('span', style, None, [])
    state = [depth]
    try:
        result = build_mod().content_to_boxes(style, parent, state, {}, None, TargetCollector(), CounterStyle())
    except Exception as exc:  # noqa: BLE001
        return f'content_to_boxes raised {type(exc).__name__} on content {items!r} with quotes {quotes!r} at depth {depth}'
    got = ''.join(b.text for b in result)
    want, want_depth = reference_content({'content': items, 'quotes': quotes}, [None] * 3, depth)
    if got != want or state[0] != want_depth:
        return (f'content {items!r} with quotes {quotes!r} at depth {depth} generates {got!r} and leaves depth '
                f'{state[0]}, expected {want!r} and depth {want_depth}')
    return None


def generated_segments(kids):
    """Text runs produced by ::marker / ::before / ::after, in document order: (text, white-space, may_vanish)."""
    out = []
    state = {'depth': 0}

    def marker(node, owner_display):
        if 'list-item' not in owner_display:
            return
        ext = dict(INHERITED0)
        ext.update(extra(node))
        m = ext.get('marker') or default_marker(ext)
        if m['display'] == 'none':
            return
        if m['content'] is not None:
            text, state['depth'] = reference_content(m, node[6], state['depth'])
            out.append((text, m['ws'], True))
        else:
            text = marker_text(m['lst'])
            if text:
                out.append((text, 'pre-wrap', True))

    def pseudo(node, name):
        p = extra(node).get(name)
        if p is None or p['display'] == 'none' or p['content'] is None:
            return
        marker(node, p['display'])
        text, state['depth'] = reference_content(p, node[6], state['depth'])
        white = all(c in CSS_WHITE for c in text)
        out.append((text, p['ws'], white))

    def visit(node):
        if node[0] == 'none':
            return
        marker(node, node[0])
        pseudo(node, 'before')
        for child in node[8]:
            visit(child)
        pseudo(node, 'after')
    for k in kids:
        visit(k)
    return out


def document_sequence(kids, body_text):
    """The text of the document in document order, generated content at its place (before white-space
    processing and text-transform)."""
    out = [body_text]
    state = {'depth': 0}

    def marker(node, owner_display):
        if 'list-item' not in owner_display:
            return
        ext = dict(INHERITED0)
        ext.update(extra(node))
        m = ext.get('marker') or default_marker(ext)
        if m['display'] == 'none':
            return
        if m['content'] is not None:
            text, state['depth'] = reference_content(m, node[6], state['depth'])
            out.append(text)
        else:
            out.append(marker_text(m['lst']) or '')

    def pseudo(node, name):
        p = extra(node).get(name)
        if p is None or p['display'] == 'none' or p['content'] is None:
            return
        marker(node, p['display'])
        text, state['depth'] = reference_content(p, node[6], state['depth'])
        out.append(text)

    def visit(node):
        if node[0] != 'none':
            marker(node, node[0])
            pseudo(node, 'before')
            out.append(node[7])
            for child in node[8]:
                visit(child)
            pseudo(node, 'after')
        out.append(node[9])
    for k in kids:
        visit(k)
    return ''.join(out)


def ordered_text_violation(kids, body_text, trees):
    """Without tables (which move captions, headers and footers) the box tree holds the characters of the
    document in document order."""
    def simple(n):
        pseudo_tt = [(extra(n).get(name) or {}).get('tt', 'none') for name in ('before', 'after', 'marker')]
        pseudo_disp = [(extra(n).get(name) or {}).get('display', '') for name in ('before', 'after', 'marker')]
        return (n[0] not in TABLE_DISPLAYS and n[2] != 'running' and tt_of(n) != 'full-width' and
                'full-width' not in pseudo_tt and not any(d in TABLE_DISPLAYS for d in pseudo_disp))
    if not all(not dom_has(k, lambda n: not simple(n)) for k in kids):
        return None
    expect = [c for c in document_sequence(kids, body_text) if c not in CSS_WHITE + '\xad\u200b']
    got = [c for c in ''.join(real_text_all(t) for t in trees) if c not in CSS_WHITE + '\xad\u200b']
    a, b = ''.join(expect).upper(), ''.join(got).upper()
    if a != b:
        return f'the text of the document is not in document order: {a!r} -> {b!r}'
    return None


def dom_segments(kids, body_text):
    """Text runs of a generated document: (text, computed white-space of the parent element, may_vanish),
    with the same rule as box_segments stated on the DOM (the display values are the specified ones, which
    only makes the oracle more tolerant where blockification changes them)."""
    out = []

    def runs(texts, ws, children, display):
        table_context = display in TABLE_DISPLAYS or any(c[0] in TABLE_DISPLAYS for c in children)
        item_context = display in ITEM_DISPLAYS
        for text in texts:
            if not text:
                continue
            css_white = all(c in CSS_WHITE for c in text)
            out.append((text, ws, css_white and (item_context or table_context)))

    def visit(node):
        display = node[0]
        blockified = node[1] != 'none' or node[2] in ('absolute', 'fixed')
        if display == 'none' or (display in ('table-column', 'table-column-group') and not blockified):
            return
        runs([node[7]] + [c[9] for c in node[8]], node[3], node[8], display)
        for child in node[8]:
            visit(child)
    runs([body_text] + [k[9] for k in kids], 'normal', kids, 'block')
    for k in kids:
        visit(k)
    # generated text inside a column / marker boxes of out-of-flow items … may be dropped with its parent:
    # it is only required to be there when its own run may not vanish
    in_column = any(dom_has(k, lambda n: n[0] in ('table-column', 'table-column-group')) for k in kids)
    for text, ws, may_vanish in generated_segments(kids):
        out.append((text, ws, may_vanish or in_column))
    return out


def document_text_violation(kids, body_text, trees, capital):
    """The rendered text of the document is the white-space-processed text of its DOM."""
    import collections
    got = ''.join(real_text_all(t) for t in trees)
    required = collections.Counter()
    for text, ws, may_vanish in dom_segments(kids, body_text):
        if not may_vanish:
            chars = ''.join(required_chars(text, ws, processed_by_pw='every-run')).replace('\xad', '')
            required.update(chars.upper() if capital else chars)
    missing = required - collections.Counter(got.upper() if capital else got)
    if missing:
        return (f'text of the document lost the characters {"".join(sorted(missing.elements()))!r}: '
                f'{[s[:2] for s in dom_segments(kids, body_text)]!r} -> {got!r}')
    return None


def document_violation(html, kids, body_text, rendered=False):
    """Structure and text of the implementation's tree for a generated document."""
    from weasyprint.formatting_structure import boxes
    if rendered:
        document = docs.render(html)
        roots = [page._page_box for page in document.pages]
        trees = [c for root in roots for c in root.children if not isinstance(c, boxes.MarginBox)]
    else:
        trees = [formatting_structure(html)]
    running = any(dom_has(k, lambda n: n[2] == 'running') for k in kids)
    capital = any(dom_has(k, lambda n: tt_of(n) != 'none') for k in kids)
    for tree in trees:
        what = proper_children_violation(tree) if not rendered else None
        what = what or tables_violation(tree)
        if not what and not rendered:
            what = dom_structure_violation(tree, kids) or document_anonymous_table_violation(tree)
        if what:
            return what
    wide = any(dom_has(k, lambda n: tt_of(n) == 'full-width' or any(
        (extra(n).get(name) or {}).get('tt') == 'full-width' for name in ('before', 'after', 'marker'))) for k in kids)
    capital = capital or any(dom_has(k, lambda n: any(
        (extra(n).get(name) or {}).get('tt', 'none') != 'none' for name in ('before', 'after', 'marker'))) for k in kids)
    if not running and not rendered and not wide:
        generated = generated_segments(kids)
        source = body_text + ''.join(dom_text(k) + k[9] for k in kids)
        got = ''.join(real_text(t) for t in trees).replace('\u200b', '').replace('\xad', '')
        a = visible_chars(source.replace('\u200b', '').replace('\xad', ''))
        b = visible_chars(got)
        gen = visible_chars(''.join(t for t, _, _ in generated).replace('\u200b', '').replace('\xad', ''))
        if capital:
            a, b, gen = (sorted(''.join(x).upper()) for x in (a, b, gen))
        missing, extra_chars = counter_missing(a, b), counter_missing(b, a)
        # everything of the DOM is there; what is there beyond the DOM was generated (markers and
        # pseudo-elements of boxes that are dropped, e.g. inside a column, need not be there)
        if missing or counter_missing(extra_chars, gen):
            return f'text of the document changed: {source!r} + generated {generated!r} -> {got!r}'
        return document_text_violation(kids, body_text, trees, capital) or ordered_text_violation(
            kids, body_text, trees)
    return None


def known_document(kids):
    """Documents in the scope of the known finding running-table-part-crash (running elements are never
    fixed up)."""
    return any(dom_has(k, lambda n: n[2] == 'running') for k in kids)


def finding_running_row():
    """<div style="display:table-row;position:running(x)">a</div>: AttributeError in wrap_table."""
    try:
        formatting_structure('<div style="display:table-row;position:running(x)">a</div>')
    except AttributeError:
        return True
    return False


def finding_colspan_overlap():
    """<tr><td>a<td rowspan=2>b <tr><td colspan=2>c: slot (1,1) owned by b and c."""
    from weasyprint.formatting_structure import boxes
    root = formatting_structure(
        '<table><tr><td>a</td><td rowspan=2>b</td></tr><tr><td colspan=2>c</td></tr></table>')
    for box in root.descendants():
        if isinstance(box, boxes.TableBox):
            return any(group_slots_violation(g, allow_known=False) for g in box.children)
    return False


def finding_blockify():
    """float:left on display:inline-flex computes to block flow (a BlockBox), not block flex."""
    from weasyprint.formatting_structure import boxes
    root = formatting_structure('<body><div id=x style="display:inline-flex;float:left">a</div>')
    for box in root.descendants():
        if box.element is not None and box.element.get('id') == 'x' and not isinstance(box, boxes.TextBox):
            return not isinstance(box, boxes.FlexContainerBox)
    return True


PROP = C08()

MANIFEST = {
    'design_ref': 'DESIGN.md §4 C08',
    'technique': 'Lean 4 theorems over executable models of the box-generation code (white-space scanners, slot '
                 'assignment of wrap_table, anonymous table / flex / grid / inline-in-block / block-in-inline rewriters '
                 'on kind-trees, display -> box class) whose class and keyword tables are regenerated from boxes.py / '
                 'build.py / computed_values.py each run (AST + issubclass / complete graphs); exact executable '
                 'correspondence with the real build.* functions on real box trees and with build_formatting_structure '
                 'on generated HTML documents',
    'text': 'Unbounded theorems (any table, any text, any tree): cells of a row group own pairwise disjoint slot '
            'rectangles whenever no cell reaches by colspan over a column taken from above (in particular all colspans 1 '
            'or all rowspans 1), the origin slot of every cell is exclusively its own, rowspan is clipped to the group '
            '(0 = to the end), grid_width is the maximal right edge; white-space laws for every text and every '
            'white-space value (characters and words preserved, no tab/newline/double space when collapsing, pre modes '
            'only normalise line feeds, pre-line keeps the line breaks, leading space removed iff a collapsible space '
            'precedes, also across the boxes of an inline formatting context); capitalize = first letter of each word; '
            'display -> box class total and of the prescribed nature, blockification table; anonymous table fix-up '
            '(wrapper > captions + table > row groups, rows in groups, cells in rows, columns in column groups, no stray '
            'table part under other parents); inline_in_block and block_in_inline structural invariants with leaf '
            'preservation and their composition; the whole pipeline model (element_to_box with ::marker / ::before / '
            '::after and content: strings and quotes, process_whitespace, process_text_transform, '
            'anonymous_table_boxes, flex_boxes, grid_boxes, inline_in_block, block_in_inline) preserves the visible '
            'text as a multiset of text runs, except flex/grid white-space runs and text inside table columns, which '
            'must go (build_formatting_structure_text); the model never runs out of fuel: block_in_inline, '
            'table_boxes_children (5m+14 steps for m children) and build_formatting_structure terminate on every '
            'tree, so every model failure is one of the Python exceptions; content: laws (append, strings, quote '
            'depth; attr() enters as its computed string); rule 3.2: the anonymous table around misparented table '
            'parts is an inline-table in an inline-block exactly inside inline boxes; flex_boxes / grid_boxes keep '
            'every table in a table wrapper; is_whitespace = CSS white space for every code point. Replaced-element handlers, counters / target-* / url() in content, first-letter / first-line '
            'and collapsed borders are outside the model (correspondence on documents only for the first two).',
    'note': 'Trusted: Lean kernel, the AST/graph translators (box_kinds, char_table, content_tables), the kind-tree '
            'abstraction of real boxes, the fixed alphabet for Unicode categories. Loops that are not structurally '
            'recursive run with fuel; sufficiency of the fuel is proved (C08Pipeline). Known findings: '
            'colspan > 1 under a row-spanning cell shares slots; floated / absolute inline-table, inline-flex, '
            'inline-grid compute to block flow; running() table parts are never fixed up (AttributeError). Repaired and kept as regression cases (corpus/C08/regressions.json, first section): an inline-table '
            'flex / grid item keeps its table wrapper; only CSS white space is ignorable between table parts (the '
            'character class of is_whitespace is the graph of the real function and is proved to be CSS white space); '
            '::marker { display: none } generates no box; collapsible spaces of sibling runs collapse inside floats and '
            'positioned boxes too.',
}
