"""C05 — box model arithmetic and normal-flow geometry.

Correspondence sections (every call goes to the *real* WeasyPrint function, in-process):
  regressions         corpus first: inputs of the repaired findings (function level, corpus documents through the
                      verified checker, sibling distances around multi-column containers)
  collapse            block.collapse_margin
  percentage          percent.percentage
  box-sizing          percent.adjust_box_sizing                       (both axes)
  resolve             percent.resolve_percentages                     (BlockBox / PageBox, box or tuple cb)
  width               block.block_level_width(.without_min_max)       (8 auto patterns x ltr/rtl x box/tuple cb)
  width-minmax        block.block_level_width                         (decorated: handle_min_max_width)
  page                page.page_width_or_height, page_width, page_height (handle_min_max_height)
  decoration          boxes.ParentBox.remove_decoration / InlineBox.remove_decoration / _reset_spacing on real boxes
  wrappers            min_max.handle_min_max_width / _height around a function that does nothing, around one that
                      moves the box, and on a box without position_x
  stacking            one-page block/paragraph documents biased to margin collapsing, laid out by the real pipeline,
                      against the pagination model (position_y, margins, heights of every box, y of every line)
  sibling-collapse    two siblings of 13 x 13 kinds (block, columns, table, flex, grid, ...) separated by empty blocks: the
                      distance between their border boxes against collapse_margin of the adjoining margins
  wrapper             metamorphic pair: the content of <body> wrapped in a plain <div> (one tall page): nothing moves
  translation         metamorphic pair: wide-grammar documents rendered twice, the page area moved by (dx, dy): every box
                      of every page moves by exactly (dx, dy) (verified comparator Model/UsedShift.lean)
  documents           random trees of block divs rendered with harness/docs.py; every block box's used
                      values and position_x against the model applied top-down
  documents-full      the same documents: position_y and used height too, against the composition of the block-tree
                      model with the pagination model (Model/BlockTreeV.lean)
"""
import collections
from fractions import Fraction as F
import math

from harness import docs
from vlib import findings, sx
from vlib.framework import PropCheck

INF = math.inf


# --------------------------------------------------------------------------------------------------
# value pools

def rat(rng, neg=True):
    """A rational: mostly small dyadics, some thirds/sevenths/tenths, some negatives, a few huge."""
    r = rng.random()
    if r < .10:
        return F(0)
    if r < .55:
        return F(rng.randrange(0, 400), rng.choice([1, 1, 2, 4]))
    if r < .72:
        return F(rng.randrange(0, 3000), rng.choice([3, 7, 10, 100]))
    if r < .90:
        v = F(rng.randrange(1, 300), rng.choice([1, 2, 4, 3]))
        return -v if neg else v
    v = rng.choice([F(10 ** 9), F(10 ** 18), F(1, 10 ** 9), F(2 ** 53 + 1), F(10 ** 12, 7)])
    return -v if neg and rng.random() < .3 else v


def nonneg(rng):
    return rat(rng, neg=False)


def small(rng):
    return F(rng.randrange(0, 120), rng.choice([1, 1, 2, 4]))


def atom(x):
    return sx.atom(x)


def dec(s):
    """Wire atom -> Python value."""
    if s in ('auto', 'none'):
        return 'auto' if s == 'auto' else None
    if s == 'inf':
        return INF
    if s == '-inf':
        return -INF
    if s == 'nan':
        return math.nan
    return F(s)


def mods():
    from weasyprint.css.properties import Dimension
    from weasyprint.formatting_structure import boxes
    from weasyprint.layout import block, min_max, page, percent
    return Dimension, boxes, block, min_max, page, percent


# --------------------------------------------------------------------------------------------------
# wire <-> real objects

def dim_real(d):
    """Wire dimension -> real computed value."""
    Dimension = mods()[0]
    if d == 'none':
        return None
    if d == 'auto':
        return 'auto'
    kind, v = d
    if kind == 'px':
        return Dimension(dec(v) if isinstance(v, str) else v, 'px')
    if kind == 'pct':
        return Dimension(dec(v) if isinstance(v, str) else v, '%')
    return Dimension(F(3), v)


def gen_dimq(rng, auto=True, bad=.02):
    r = rng.random()
    if r < bad:
        return ['unit', rng.choice(['em', 'cm', 'vw'])]
    if auto and r < .25:
        return 'auto'
    if r < .65:
        return ['px', rat(rng)]
    return ['pct', rng.choice([F(0), F(50), F(100), F(25, 2), F(10), F(1, 3), F(250), -F(10), rat(rng)])]


def gen_dimx(rng, bad=.02):
    r = rng.random()
    if r < bad:
        return ['unit', 'em']
    if r < .35:
        return ['px', INF]
    if r < .7:
        return ['px', nonneg(rng)]
    return ['pct', rng.choice([F(0), F(50), F(100), F(25, 2), F(10), F(1, 3), F(250), nonneg(rng)])]


STYLE_KEYS = ['margin_left', 'margin_right', 'margin_top', 'margin_bottom', 'padding_left', 'padding_right',
              'padding_top', 'padding_bottom', 'width', 'height', 'min_width', 'min_height', 'max_width',
              'max_height']
BORDER_KEYS = ['border_left_width', 'border_right_width', 'border_top_width', 'border_bottom_width']
USED_KEYS = ['margin_left', 'margin_right', 'margin_top', 'margin_bottom', 'padding_left', 'padding_right',
             'padding_top', 'padding_bottom', 'width', 'height', 'min_width', 'min_height', 'max_width',
             'max_height', 'border_left_width', 'border_right_width', 'border_top_width',
             'border_bottom_width']


def gen_style(rng, adversarial):
    bad = .03 if adversarial else 0
    st = {}
    for k in STYLE_KEYS:
        if k.startswith('max_'):
            st[k] = gen_dimx(rng, bad)
        elif k.startswith('padding_'):
            st[k] = gen_dimq(rng, auto=False, bad=bad)
            if st[k][0] != 'unit' and not adversarial and st[k][1] < 0:
                st[k][1] = -st[k][1]
        else:
            st[k] = gen_dimq(rng, bad=bad)
    for k in BORDER_KEYS:
        st[k] = rng.choice([F(0), F(0), small(rng), nonneg(rng)])
    st['box_sizing'] = rng.choice(['content-box', 'content-box', 'border-box', 'border-box', 'padding-box']
                                  + (['bogus'] if adversarial and rng.random() < .2 else []))
    return st


def style_wire(st):
    return [st[k] for k in STYLE_KEYS] + [st[k] for k in BORDER_KEYS] + [st['box_sizing']]


def style_real(st):
    real = {k: dim_real(st[k]) for k in STYLE_KEYS}
    real.update({k: st[k] for k in BORDER_KEYS})
    real['box_sizing'] = st['box_sizing']
    real['border_collapse'] = 'separate'
    return real


def run_resolve(st, is_page, cb_form, cbw, cbh):
    _, boxes, _, _, _, percent = mods()
    real = style_real(st)
    box = boxes.PageBox(None, real) if is_page else boxes.BlockBox('div', real, None, [])
    if cb_form == 'box':
        cb = boxes.BlockBox('div', {}, None, [])
        cb.width, cb.height = cbw, cbh
    else:
        cb = (cbw, cbh)

    def call():
        percent.resolve_percentages(box, cb)
        return ' '.join(atom(getattr(box, k)) for k in USED_KEYS)
    return docs.outcome(call)


ABOX_KEYS = ['ml', 'mr', 'pl', 'pr', 'bl', 'br', 'w', 'min', 'max', 'x', 'col']


def abox_wire(b):
    return [b[k] for k in ABOX_KEYS]


def hbox_real(b):
    boxes = mods()[1]
    box = boxes.BlockBox('div', {}, None, [])
    box.margin_left, box.margin_right = b['ml'], b['mr']
    box.padding_left, box.padding_right = b['pl'], b['pr']
    box.border_left_width, box.border_right_width = b['bl'], b['br']
    box.width, box.min_width, box.max_width = b['w'], b['min'], b['max']
    box.position_x = b['x']
    box.is_column = b['col']
    return box


def vbox_real(b):
    boxes = mods()[1]
    box = boxes.BlockBox('div', {}, None, [])
    box.margin_top, box.margin_bottom = b['ml'], b['mr']
    box.padding_top, box.padding_bottom = b['pl'], b['pr']
    box.border_top_width, box.border_bottom_width = b['bl'], b['br']
    box.height, box.min_height, box.max_height = b['w'], b['min'], b['max']
    box.position_y = b['x']
    return box


def show_h(box):
    return f'ml={atom(box.margin_left)} mr={atom(box.margin_right)} w={atom(box.width)} x={atom(box.position_x)}'


def show_v(box):
    return f'ml={atom(box.margin_top)} mr={atom(box.margin_bottom)} w={atom(box.height)} x={atom(box.position_y)}'


def cb_real(cb):
    boxes = mods()[1]
    if cb[0] == 'box':
        real = boxes.BlockBox('div', {'direction': cb[2]}, None, [])
        real.width, real.height = cb[1], 'auto'
        return real
    return (cb[1], F(0))


def run_width(cmd, cb, b):
    _, _, block, min_max, page, _ = mods()

    def call():
        if cmd == 'blw':
            box = hbox_real(b)
            block.block_level_width.without_min_max(box, cb_real(cb))
        elif cmd == 'blwmm':
            box = hbox_real(b)
            block.block_level_width(box, cb_real(cb))
        elif cmd == 'pwh':
            box = hbox_real(b)
            page.page_width_or_height(page.HorizontalBox(None, box), cb)
        elif cmd == 'pwv':        # the same function through VerticalBox
            box = vbox_real(b)
            page.page_width_or_height(page.VerticalBox(None, box), cb)
            return show_v(box)
        elif cmd == 'pw':
            box = hbox_real(b)
            page.page_width(box, None, cb)
        elif cmd == 'ph':
            box = vbox_real(b)
            page.page_height(box, None, cb)
            return show_v(box)
        elif cmd == 'idw':
            box = hbox_real(b)
            min_max.handle_min_max_width(lambda box_: None)(box)
        elif cmd == 'idh':
            box = vbox_real(b)
            min_max.handle_min_max_height(lambda box_: None)(box)
            return show_v(box)
        return show_h(box)
    return docs.outcome(call)


def run_shift(d, b):
    """`handle_min_max_width` around a function that moves the box (`box.position_x += d`), as
    `block_level_width` does in an rtl containing block."""
    min_max = mods()[3]

    def call():
        box = hbox_real(b)

        def shift(box_):
            box_.position_x += d
        min_max.handle_min_max_width(shift)(box)
        return show_h(box)
    return docs.outcome(call)


def run_nox(b):
    """`handle_min_max_width` around a function that does nothing, on a box that has no `position_x` yet."""
    min_max = mods()[3]

    def call():
        box = hbox_real(b)
        del box.position_x
        min_max.handle_min_max_width(lambda box_: None)(box)
        x = atom(box.position_x) if hasattr(box, 'position_x') else 'absent'
        return f'ml={atom(box.margin_left)} mr={atom(box.margin_right)} w={atom(box.width)} x={x}'
    return docs.outcome(call)


def clause_shift(cmd, d, b, out):
    """(c)(f) around a wrapped function that moves the box by `d` on every call: min/max hold and the box has
    moved by `d` exactly once, however many passes the wrapper ran (`idwn`: no position at all)."""
    if out.startswith('err:'):
        return None if b['w'] == 'auto' else f'{cmd} raised {out}'
    r = dict(item.split('=') for item in out.split())
    w = dec(r['w'])
    if w == 'auto':
        return None
    if w < b['min']:
        return f'{cmd}: used size {w} < min {b["min"]}'
    if b['min'] <= b['max'] and w > b['max']:
        return f'{cmd}: used size {w} > max {b["max"]} (min {b["min"]})'
    if cmd == 'idwn':
        return None if r['x'] == 'absent' else f'idwn: the wrapper created position_x = {r["x"]} on a box without one'
    if dec(r['x']) != b['x'] + d:
        return (f'shw: the wrapped function moves the box by {d} per call; after the wrapper the box is at '
                f'{r["x"]}, started at {b["x"]}: moved {dec(r["x"]) - b["x"]} (one shift per pass of the min/max '
                f'wrapper instead of one in all)')
    return None


def gen_abox(rng, adversarial, cbw):
    """Structured: pick the auto pattern, then sizes around the containing block width."""
    pattern = rng.randrange(8)
    pb = [small(rng) if rng.random() < .6 else F(0) for _ in range(4)]
    if adversarial and rng.random() < .3:
        pb = [rat(rng) for _ in range(4)]
    pick = (lambda: rat(rng)) if adversarial else (lambda: rng.choice([F(0), small(rng), -small(rng), small(rng) * 3]))
    ml = 'auto' if pattern & 1 else pick()
    mr = 'auto' if pattern & 2 else pick()
    if pattern & 4:
        w = 'auto'
    else:
        w = rng.choice([F(0), cbw, cbw / 2, cbw * 2, nonneg(rng), small(rng), cbw - sum(pb)])
        if w < 0:
            w = -w
    r = rng.random()
    mn = F(0) if r < .5 else rng.choice([small(rng), cbw / 4, cbw, cbw * 3, nonneg(rng)])
    r = rng.random()
    mx = INF if r < .45 else rng.choice([small(rng), cbw / 4, cbw / 2, cbw, F(0), nonneg(rng)])
    return {'ml': ml, 'mr': mr, 'pl': pb[0], 'pr': pb[1], 'bl': pb[2], 'br': pb[3], 'w': w,
            'min': mn, 'max': mx, 'x': rng.choice([F(0), small(rng), -small(rng)]),
            'col': rng.random() < .08}


def blw_branches(cbw, direction, b, width):
    """Branch tags of one pass of `block_level_width` (mirrors Model.BoxModel.blwCore) for a width."""
    pb = b['pl'] + b['pr'] + b['bl'] + b['br']
    if width == 'auto':
        return ['br:width-auto']
    total = pb + width + sum(b[k] for k in ('ml', 'mr') if b[k] != 'auto')
    tags = []
    if total > cbw:
        tags.append('br:over-wide')
    if total > cbw or (b['ml'] != 'auto' and b['mr'] != 'auto'):
        tags.append('br:over-constrained-shift' if direction == 'rtl' and not b['col'] else
                    'br:over-constrained-noshift')
    elif b['ml'] == 'auto' and b['mr'] == 'auto':
        tags.append('br:center')
    elif b['ml'] == 'auto':
        tags.append('br:solve-left')
    else:
        tags.append('br:solve-right')
    return tags


EXPECTED_TAGS = {
    'width': ['aaa', 'aav', 'ava', 'avv', 'vaa', 'vav', 'vva', 'vvv', 'ltr', 'rtl', 'tuple', 'br:width-auto',
              'br:over-wide', 'br:over-constrained-shift', 'br:over-constrained-noshift', 'br:center',
              'br:solve-left', 'br:solve-right'],
    'width-minmax': ['pass:none', 'pass:max', 'pass:min', 'pass:max+min', 'last:br:over-constrained-shift',
                     'last:br:over-constrained-noshift', 'last:br:center', 'last:br:solve-left',
                     'last:br:solve-right', 'last:br:width-auto', 'last:br:over-wide'],
    'resolve': ['page', 'block', 'cbh-auto', 'cbh-fixed', 'content-box', 'border-box', 'padding-box'],
    'box-sizing': ['content-box', 'border-box', 'padding-box', 'width', 'height'],
    'page': ['pwh', 'pwv', 'pw', 'ph'],
    'wrappers': ['idw', 'idh', 'shw', 'idwn', 'shw:pass1', 'shw:pass2', 'shw:pass3'],
    'shrink-to-fit': ['float', 'inline-block', 'w-auto', 'w-fixed', 'max', 'no-max', 'min', 'no-min'],
    'translate': ['ignore', 'all', 'zero', 'move'],
    'decoration': ['parent', 'inline', 'reset', 'clone', 'slice', 'ltr', 'rtl', 'calls1', 'calls2', 'calls3',
                   'presides'],
    'radii': ['removed', 'kept', 'px', 'pct', 'unit'],
    'resolve-collapse': ['collapse', 'separate', 'preset0', 'preset4'],
    'documents': ['ltr', 'rtl'],
    'used-values': ['ltr', 'rtl', 'table', 'float', 'flex', 'grid', 'columns', 'list', 'positioned'],
}


def abox_from_meta(m):
    b = {k: (dec(v) if isinstance(v, str) else v) for k, v in m.items()}
    b['col'] = bool(m['col'])
    return b


def abox_meta(b):
    return {k: (atom(v) if k != 'col' else b['col']) for k, v in b.items()}


# --------------------------------------------------------------------------------------------------
# the property clauses, stated directly (used by judge / search / replay, never as the check itself)

def clause_collapse(ms, result):
    if isinstance(result, str):
        return f'collapse_margin({ms}) raised {result}'
    pos = [m for m in ms if m > 0]
    neg = [m for m in ms if m < 0]
    want = (max(pos) if pos else 0) + (min(neg) if neg else 0)
    if result != want:
        return f'collapse_margin({[str(m) for m in ms]}) = {result}, largest positive + most negative = {want}'
    return None


def parse_show(s):
    return {k: dec(v) for k, v in (item.split('=') for item in s.split())}


def css_solve(kind, cbw, ml, w, mr, pb, rtl):
    """CSS 2.1 §10.3.3 (kind 'block') / css-page-3 §page-box (kind 'page'): the used (margin-left, width,
    margin-right) for the computed values, written from the specification.  In the over-constrained block case
    the margin of the end side is recomputed (margin-right in ltr, margin-left in rtl); a page box keeps all
    three ("the containing block is resized")."""
    if kind == 'block' and w != 'auto':
        total = pb + w + sum(m for m in (ml, mr) if m != 'auto')
        if total > cbw:
            ml = 0 if ml == 'auto' else ml
            mr = 0 if mr == 'auto' else mr
    if w == 'auto':
        ml = 0 if ml == 'auto' else ml
        mr = 0 if mr == 'auto' else mr
        w = cbw - pb - ml - mr
    elif ml == 'auto' and mr == 'auto':
        ml = mr = (cbw - pb - w) / 2
    elif ml == 'auto':
        ml = cbw - pb - w - mr
    elif mr == 'auto':
        mr = cbw - pb - w - ml
    elif kind == 'block':
        if rtl:
            ml = cbw - pb - w - mr
        else:
            mr = cbw - pb - w - ml
    return ml, w, mr


def css_used(kind, cbw, ml, w, mr, pb, mn, mx, rtl):
    """§10.4: tentative width, then `max-width`, then `min-width`, each time from the computed margins."""
    res = css_solve(kind, cbw, ml, w, mr, pb, rtl)
    clamped = False
    if res[1] > mx:
        res, clamped = css_solve(kind, cbw, ml, mx, mr, pb, rtl), True
    if res[1] < mn:
        res, clamped = css_solve(kind, cbw, ml, mn, mr, pb, rtl), True
    return res, clamped


def clause_width(cmd, cb, b, out):
    """Clauses (a) (b) (c) (f) on one call of block_level_width / page_width / page_height.
    -> (what, finding id or None) | None"""
    if out.startswith('err:'):
        if b['w'] == 'auto' and cmd in ('idw', 'idh'):
            return None
        return (f'{cmd} raised {out}', None)
    r = parse_show(out)
    if 'auto' in (r['ml'], r['mr'], r['w']):
        if cmd in ('idw', 'idh'):
            return None
        return (f'{cmd}: a used value is still auto: {out}', None)
    wrapped = cmd in ('blwmm', 'pw', 'ph', 'idw', 'idh')
    if wrapped:
        if r['w'] < b['min']:
            return (f'{cmd}: used size {r["w"]} < min {b["min"]}', None)
        if b['min'] <= b['max'] and r['w'] > b['max']:
            return (f'{cmd}: used size {r["w"]} > max {b["max"]} (min {b["min"]})', None)
    if cmd in ('idw', 'idh'):
        return None
    cbw = cb[1] if isinstance(cb, (list, tuple)) else cb
    rtl = isinstance(cb, (list, tuple)) and cb[0] == 'box' and cb[2] == 'rtl' and not b['col']
    pb = b['pl'] + b['pr'] + b['bl'] + b['br']
    kind = 'block' if cmd in ('blw', 'blwmm') else 'page'
    (ml, w, mr), clamped = css_used(kind, cbw, b['ml'], b['w'], b['mr'], pb,
                                    b['min'] if wrapped else -INF, b['max'] if wrapped else INF, rtl)
    if r['w'] != w:
        return (f'{cmd}: used width {r["w"]}, CSS 10.3.3/10.4 gives {w}', None)
    if kind == 'page':
        if (r['ml'], r['mr'], r['x']) != (ml, mr, b['x']):
            return (f'{cmd}: used margins {r["ml"]} / {r["mr"]} at {r["x"]}, css-page gives {ml} / {mr} at '
                    f'{b["x"]}', None)
        return None
    if ml + pb + w + mr != cbw:
        return (f'{cmd}: reference solution does not fill the containing block', None)   # cannot happen
    if r['x'] + r['ml'] != b['x'] + ml:
        known = None        # (was rtl-minmax-shift-accumulates until /repo 165e254)
        return (f'{cmd}: border box starts at {r["x"] + r["ml"]} (position_x {r["x"]} + margin-left {r["ml"]}); '
                f'CSS 10.3.3 puts it at {b["x"] + ml} in a {"rtl" if rtl else "ltr"} containing block of width '
                f'{cbw} starting at {b["x"]}', known)
    return None


def clause_percentage(d, ref, out):
    if out.startswith('err:'):
        if isinstance(d, list) and d[0] == 'unit':
            return None
        return f'percentage raised {out}'
    if d in ('none', 'auto'):
        return None if out == d else f'percentage({d}) = {out}'
    if d[0] == 'px':
        return None if out == atom(d[1]) else f'percentage({d[1]}px) = {out}'
    if d[0] == 'pct' and isinstance(ref, F):
        want = ref * d[1] / 100
        return None if out == atom(want) else f'percentage({d[1]}%, {ref}) = {out}, expected {want}'
    return None


def clause_box_sizing(bs, pa, pb, ba, bb, size, mn, mx, out):
    if out.startswith('err:'):
        return None if bs not in ('border-box', 'padding-box', 'content-box') else f'adjust_box_sizing raised {out}'
    s2, m2, x2 = (dec(v) for v in out.split())
    delta = {'border-box': pa + pb + ba + bb, 'padding-box': pa + pb, 'content-box': 0}[bs]
    if delta < 0:
        delta = 0
    if size != 'auto':
        if s2 != (max(0, size - delta) if delta > 0 else size):
            return f'box-sizing {bs}: declared {size}, extras {delta}: content size {s2}'
        if s2 < 0 <= size:
            return f'negative content size {s2}'
    elif s2 != 'auto':
        return f'auto size became {s2}'
    if mn != 'auto' and m2 != (max(0, mn - delta) if delta > 0 else mn):
        return f'box-sizing {bs}: min {mn} became {m2} (delta {delta})'
    if isinstance(mx, F) and x2 != (max(0, mx - delta) if delta > 0 else mx):
        return f'box-sizing {bs}: max {mx} became {x2} (delta {delta})'
    return None


def clause_resolve(st, is_page, cbw, cbh, out):
    """Clause (d)/(e): percentages against the containing block, box-sizing shifts."""
    bad = any(isinstance(st[k], list) and st[k][0] == 'unit' for k in STYLE_KEYS) or \
        st['box_sizing'] not in ('border-box', 'padding-box', 'content-box')
    if out.startswith('err:'):
        return None if bad else f'resolve_percentages raised {out}'
    if bad:
        return None
    u = dict(zip(USED_KEYS, (dec(v) for v in out.split())))
    vref = cbh if is_page else cbw

    def pct(d, ref):
        if d == 'auto':
            return 'auto'
        if d[0] == 'px':
            return d[1]
        return ref * d[1] / 100
    for k, ref in (('margin_left', cbw), ('margin_right', cbw), ('margin_top', vref), ('margin_bottom', vref),
                   ('padding_left', cbw), ('padding_right', cbw), ('padding_top', vref),
                   ('padding_bottom', vref)):
        if u[k] != pct(st[k], ref):
            return f'{k}: {st[k]} against {ref} resolved to {u[k]}'
    for axis, ref, pads in (('width', cbw, ('padding_left', 'padding_right', 'border_left_width',
                                            'border_right_width')),
                            ('height', cbh, ('padding_top', 'padding_bottom', 'border_top_width',
                                             'border_bottom_width'))):
        delta = {'border-box': sum(u[p] for p in pads), 'padding-box': u[pads[0]] + u[pads[1]],
                 'content-box': 0}[st['box_sizing']]
        delta = max(delta, 0)
        d = st[axis]
        if ref == 'auto':
            want = d[1] if (d != 'auto' and d[0] == 'px') else 'auto'
            want_min = 0 if st[f'min_{axis}'] == 'auto' or st[f'min_{axis}'][0] == 'pct' else st[f'min_{axis}'][1]
            dx = st[f'max_{axis}']
            want_max = dx[1] if dx[0] == 'px' else (INF if dx[1] > 0 else None)
        else:
            want = pct(d, ref)
            want_min = 0 if st[f'min_{axis}'] == 'auto' else pct(st[f'min_{axis}'], ref)
            want_max = pct(st[f'max_{axis}'], ref)
        if want != 'auto' and delta > 0:
            want = max(0, want - delta)
        if u[axis] != want:
            return f'{axis}: {d} against {ref} with box-sizing extras {delta} resolved to {u[axis]}, expected {want}'
        if delta > 0:
            want_min = max(0, want_min - delta)
            if want_max is not None:
                want_max = max(0, want_max - delta)
        if u[f'min_{axis}'] != want_min:
            return f'min-{axis}: resolved to {u[f"min_{axis}"]}, expected {want_min}'
        if want_max is not None and u[f'max_{axis}'] != want_max:
            return f'max-{axis}: resolved to {u[f"max_{axis}"]}, expected {want_max}'
    return None


# --------------------------------------------------------------------------------------------------
# Box geometry helpers (formatting_structure/boxes.py)

EDGE_KEYS = ['position_x', 'position_y', 'width', 'height', 'margin_left', 'margin_right', 'margin_top',
             'margin_bottom', 'padding_left', 'padding_right', 'padding_top', 'padding_bottom',
             'border_left_width', 'border_right_width', 'border_top_width', 'border_bottom_width']
EDGE_FUNCS = ['padding_width', 'padding_height', 'border_width', 'border_height', 'margin_width',
              'margin_height', 'content_box_x', 'content_box_y', 'padding_box_x', 'padding_box_y',
              'border_box_x', 'border_box_y']


def run_edges(vals):
    boxes = mods()[1]
    box = boxes.BlockBox('div', {}, None, [])
    for k, v in zip(EDGE_KEYS, vals):
        setattr(box, k, v)
    return docs.outcome(lambda: ' '.join(atom(getattr(box, f)()) for f in EDGE_FUNCS))


def clause_edges(vals, out):
    if out.startswith('err:'):
        return f'geometry helper raised {out}'
    x, y, w, h, ml, mr, mt, mb, pl, pr, pt, pb, bl, br, bt, bb = vals
    want = [w + pl + pr, h + pt + pb, w + pl + pr + bl + br, h + pt + pb + bt + bb,
            w + pl + pr + bl + br + ml + mr, h + pt + pb + bt + bb + mt + mb,
            x + ml + bl + pl, y + mt + bt + pt, x + ml + bl, y + mt + bt, x + ml, y + mt]
    got = [dec(v) for v in out.split()]
    for name, g, wv in zip(EDGE_FUNCS, got, want):
        if g != wv:
            return f'{name}() = {g}, the box model gives {wv}'
    return None


SIDES = ('top', 'right', 'bottom', 'left')


def run_deco(kind, clone, ltr, vals, sides, calls):
    """`ParentBox.remove_decoration` (kind 'parent', on a real BlockBox), `InlineBox.remove_decoration` (kind
    'inline', on a real InlineBox) or `_reset_spacing` (kind 'reset', calls = [side]) on a box with the given used
    values and `remove_decoration_sides`."""
    boxes = mods()[1]
    style = {'box_decoration_break': 'clone' if clone else 'slice', 'direction': 'ltr' if ltr else 'rtl'}

    def call():
        box = (boxes.InlineBox('span', style, None, []) if kind == 'inline' else
               boxes.BlockBox('div', style, None, []))
        for k, v in zip(EDGE_KEYS, vals):
            setattr(box, k, v)
        box.remove_decoration_sides = set(sides)
        for c in calls:
            if kind == 'reset':
                box._reset_spacing(c)
            else:
                box.remove_decoration(c[0], c[1])
        return (' '.join(atom(getattr(box, k)) for k in EDGE_KEYS) + ' |' +
                ''.join(' ' + s for s in SIDES if s in box.remove_decoration_sides))
    return docs.outcome(call)


def deco_line(kind, clone, ltr, vals, sides, calls):
    if kind == 'reset':
        return sx.line('reset', calls[0], vals, list(sides))
    if kind == 'inline':
        return sx.line('deco', 'inline', clone, ltr, vals, list(sides), [list(c) for c in calls])
    return sx.line('deco', 'parent', clone, vals, list(sides), [list(c) for c in calls])


def clause_deco(kind, clone, ltr, vals, sides, calls, out):
    """(a)(b)(g) for the fragments of a split box (css-break-3 box-decoration-break: slice / clone): the sides where
    the box was cut have no margin, padding and border and are recorded; everything else — position, content size,
    the other sides — is what it was; `clone` keeps all."""
    if out.startswith('err:'):
        return f'remove_decoration raised {out}'
    left, _, right = out.partition(' |')
    got = dict(zip(EDGE_KEYS, (dec(v) for v in left.split())))
    got_sides = set(right.split())
    cut = set()
    for c in calls:
        if kind == 'reset':
            cut.add(c)
        elif not clone:
            start, end = (('top', 'bottom') if kind == 'parent' else
                          ('left', 'right') if ltr else ('right', 'left'))
            cut |= ({start} if c[0] else set()) | ({end} if c[1] else set())
    if got_sides != set(sides) | cut:
        return (f'{kind}: remove_decoration_sides is {sorted(got_sides)} after the calls {calls} '
                f'(clone={clone}, ltr={ltr}), expected {sorted(set(sides) | cut)}')
    for k, v in zip(EDGE_KEYS, vals):
        side = k.split('_')[1] if k.split('_')[0] in ('margin', 'padding', 'border') else None
        want = 0 if side in cut else v
        if got[k] != want:
            return (f'{kind}: {k} is {got[k]} after the calls {calls} (clone={clone}, ltr={ltr}, cut sides '
                    f'{sorted(cut)}), expected {want}')
    return None


def gen_etree(rng, depth):
    kids = [gen_etree(rng, depth - 1) for _ in range(rng.choice([0, 1, 2, 3]))] if depth else []
    return [rat(rng), rat(rng), rng.random() < .25, kids]


def real_etree(t):
    boxes = mods()[1]
    box = boxes.BlockBox('div', {'float': 'left' if t[2] else 'none'}, None, [real_etree(k) for k in t[3]])
    box.position_x, box.position_y = t[0], t[1]
    return box


def run_translate(dx, dy, ignore, t):
    def call():
        box = real_etree(t)
        box.translate(dx, dy, ignore)
        return ' '.join(f'({atom(b.position_x)} {atom(b.position_y)})' for b in [box, *_desc(box)])
    return docs.outcome(call)


def _desc(box):
    for child in box.children:
        yield child
        yield from _desc(child)


def clause_translate(dx, dy, ignore, t, out):
    """A uniform translation moves every (non-skipped) box by (dx, dy) and nothing else."""
    if out.startswith('err:'):
        return f'translate raised {out}'
    got = [tuple(dec(v) for v in item.strip('()').split()) for item in out.replace(') (', ')|(').split('|')]
    want = []

    def walk(node, moving):
        want.append((node[0] + dx, node[1] + dy) if moving else (node[0], node[1]))
        for k in node[3]:
            walk(k, moving and not (ignore and k[2]))
    walk(t, True)
    if got != want:
        return f'translate({dx}, {dy}, ignore_floats={ignore}): positions {got}, expected {want}'
    return None


def etree_meta(t):
    return [atom(t[0]), atom(t[1]), t[2], [etree_meta(k) for k in t[3]]]


def etree_from_meta(t):
    return [F(t[0]), F(t[1]), bool(t[2]), [etree_from_meta(k) for k in t[3]]]


# --------------------------------------------------------------------------------------------------
# vertical stacking and margin collapsing across boxes (clauses g, h) through the pagination model

def gen_collapse_doc(rng):
    """A one-page PM document (harness/pm.py format) biased to margin collapsing: empty blocks with height
    auto / 0, negative margins, nested first / last children, min-height, the occasional padding or border that
    separates margins, fixed heights, short paragraphs as content."""
    from harness import pm
    counter = [0]

    def nid():
        counter[0] += 1
        return counter[0]

    def margin():
        r = rng.random()
        if r < .25:
            return F(0)
        if r < .8:
            return F(rng.choice([2, 3, 4, 5, 7, 8, 10, 12, 15, 16, 20, 30]))
        return -F(rng.choice([2, 3, 4, 6, 8, 15]))

    def style(closed_bias=.15):
        st = pm.default_style(mt=margin(), mb=margin())
        if rng.random() < closed_bias:
            st[rng.choice(['pt', 'bt'])] = F(rng.choice([1, 2, 4]))
        if rng.random() < closed_bias:
            st[rng.choice(['pb', 'bb'])] = F(rng.choice([1, 2, 4]))
        return st

    def empty():
        st = style(.08)
        r = rng.random()
        if r < .45:
            st['height'] = F(0)
        elif r < .55:
            st['height'] = F(rng.choice([5, 10, 20]))
        if rng.random() < .08:
            st['minH'] = F(rng.choice([5, 15]))
        return dict(kind='block', id=nid(), st=st, kids=[])

    def para():
        st = pm.default_style(mt=margin(), mb=margin())
        return dict(kind='para', id=nid(), n=rng.choice([1, 1, 2]), lineH=F(10), st=st, kids=[])

    def block(depth):
        st = style(.2)
        if rng.random() < .1:
            st['height'] = F(rng.choice([0, 20, 40]))
        if rng.random() < .1:
            st['minH'] = F(rng.choice([5, 30]))
        if rng.random() < .05:
            st['maxH'] = F(rng.choice([10, 30]))
        return dict(kind='block', id=nid(), st=st, kids=kids(depth + 1, rng.choice([1, 1, 2, 3])))

    def kids(depth, count):
        out = []
        for _ in range(count):
            r = rng.random()
            if r < .4:
                out.append(empty())
            elif r < .7 or depth >= 4:
                out.append(para())
            else:
                out.append(block(depth))
        return out

    body_st = pm.default_style()
    if rng.random() < .3:
        body_st.update(mt=margin(), mb=margin())
    if rng.random() < .3:
        body_st['pt'] = F(1)
    body = dict(kind='block', id=nid(), st=body_st, kids=kids(1, rng.choice([2, 3, 4, 5, 6])))
    root = dict(kind='block', id=nid(), st=pm.default_style(isRoot=True), kids=[body])
    return dict(pageH=F(4096), ltr=rng.random() < .8, root=root)


def _collapse(ms):
    return max([0] + [m for m in ms if m > 0]) + min([0] + [m for m in ms if m < 0])


def clause_stacking(doc, out):
    """Clauses (g)(h) on the implementation's laid-out boxes (one page).  Between two consecutive children with
    content or with their own border/padding, separated only by empty blocks whose margins are adjoining
    (no border, padding, min-height; height auto or 0: CSS 2.1 8.3.1), the distance from the bottom border edge
    of the first to the top border edge of the second is (largest positive + most negative) of all the margins
    in between: each margin counted once.  A parent without top (bottom) border/padding shares its top (bottom)
    border edge with its first (last) such child."""
    if out.startswith('err:'):
        return f'layout raised {out}'
    pages = sx.loads_line(out)
    if len(pages) != 1:
        return None
    styles = {}

    def index(box):
        styles[box['id']] = box
        for k in box['kids']:
            index(k)
    index(doc['root'])

    def geo(frag):
        y, mt, mb, pt, pb, bt, bb, h = (F(v) for v in frag[3:11])
        return {'top': y + mt, 'bottom': y + mt + bt + pt + h + pb + bb, 'mt': mt, 'mb': mb,
                'content_top': y + mt + bt + pt}

    def kind(box):
        """(collapses through, top margin is its own, bottom margin is its own)"""
        st = box['st']
        if box['kind'] == 'para':
            return False, True, True
        open_top, open_bottom = st['bt'] == 0 and st['pt'] == 0, st['bb'] == 0 and st['pb'] == 0
        if not box['kids']:
            through = open_top and open_bottom and st['minH'] == 0 and st['height'] in ('auto', 0)
            return through, not through, not through
        # with children: the top margin is separated from theirs by a top border/padding, the bottom margin by
        # a bottom border/padding or a specified height (CSS 2.1 8.3.1)
        return False, not open_top, (not open_bottom) or st['height'] != 'auto'

    def check(frag):
        if frag[0] != 'b':
            return None
        box = styles[int(frag[1])]
        kids = frag[-1]
        if len(kids) != len(box['kids']):
            return None
        g = geo(frag)
        st = box['st']
        prev, between = None, []
        first_seen = False
        last_solid = None
        for kf in kids:
            kb = styles[int(kf[1])]
            through, top_own, bottom_own = kind(kb)
            if through:
                between += [kb['st']['mt'], kb['st']['mb']]
                continue
            kg = geo(kf)
            if prev is not None and top_own:
                margins = [prev[1]['st']['mb'], *between, kb['st']['mt']]
                want = _collapse(margins)
                got = kg['top'] - prev[0]['bottom']
                if got != want:
                    return (f'boxes n{prev[1]["id"]} and n{kb["id"]} (children of n{box["id"]}): the adjoining '
                            f'margins {[str(m) for m in margins]} collapse to {want} (largest positive + most '
                            f'negative), but the border boxes are {got} apart')
            elif (not first_seen and top_own and not st['isRoot'] and st['bt'] == 0 and st['pt'] == 0 and
                  kg['top'] != g['top']):
                return (f'n{box["id"]} has no top border/padding, so its top margin collapses with its first '
                        f'child n{kb["id"]}: both top border edges must coincide, got {g["top"]} and {kg["top"]}')
            prev = (kg, kb) if bottom_own else None
            last_solid = (kg, kb) if (top_own and bottom_own) else None
            between, first_seen = [], True
        prev = last_solid
        if (prev is not None and not between and not st['isRoot'] and st['bb'] == 0 and st['pb'] == 0 and
                st['height'] == 'auto' and st['minH'] == 0 and st['maxH'] == 'inf' and
                kids and int(kids[-1][1]) == prev[1]['id'] and
                g['bottom'] != max(prev[0]['bottom'], g['content_top'])):
            return (f'n{box["id"]} (auto height, no bottom border/padding): its bottom border edge {g["bottom"]} '
                    f'must be that of its last child n{prev[1]["id"]}, {prev[0]["bottom"]} (or its own content '
                    f'top {g["content_top"]} if that is lower: heights are not negative)')
        for kf in kids:
            r = check(kf)
            if r:
                return r
        return None
    root = pages[0][-1]
    if F(root[3]) != 0:
        return (f'the root element\'s margin box starts at {root[3]}, not at the top of the page area: its margins '
                f'must not collapse with those of its children')
    return check(root)


# --------------------------------------------------------------------------------------------------
# shrink-to-fit widths of floats and inline-blocks (float.py float_layout / inline.py inline_block_box_layout)

def _dim_of(text):
    d = sx.loads_line(text)[0]
    return d if isinstance(d, str) else [d[0], dec(d[1]) if d[0] != 'unit' else d[1]]


def _spec_pct(d, ref):
    return 'auto' if d == 'auto' else d[1] if d[0] == 'px' else ref * d[1] / 100


def clause_position(meta, out):
    """(d) `left` / `right` in % refer to the containing block width, `top` / `bottom` to its height."""
    dims = [_dim_of(t) for t in meta['dims']]
    bad = any(isinstance(d, list) and d[0] == 'unit' for d in dims)
    if out.startswith('err:'):
        return None if bad else f'resolve_position_percentages raised {out}'
    if bad:
        return None
    cbw, cbh = dec(meta['cbw']), dec(meta['cbh'])
    got = [dec(v) for v in out.split()]
    for name, d, ref, g in zip(('left', 'right', 'top', 'bottom'), dims, (cbw, cbw, cbh, cbh), got):
        if g != _spec_pct(d, ref):
            return f'{name}: {d} in a {cbw} x {cbh} containing block resolved to {g}, expected {_spec_pct(d, ref)}'
    return None


def clause_radius(meta, out):
    """A percentage radius refers to the border box: horizontal to its width, vertical to its height; a 0px
    radius or a corner on a removed side is (0, 0)."""
    rx, ry = _dim_of(meta['rx']), _dim_of(meta['ry'])
    zero = ['px', F(0)] in (rx, ry) or meta['gone']
    bad = not zero and 'unit' in (rx[0], ry[0])
    if out.startswith('err:'):
        return None if bad else f'resolve_radii_percentages raised {out}'
    if bad:
        return None
    want = (F(0), F(0)) if zero else (_spec_pct(rx, dec(meta['bw'])), _spec_pct(ry, dec(meta['bh'])))
    got = tuple(dec(v) for v in out.split())
    if got != want:
        return (f'radius ({rx}, {ry}) of a {meta["bw"]} x {meta["bh"]} border box (corner removed: {meta["gone"]}) '
                f'resolved to {got}, expected {want}')
    return None


def clause_collapse_borders(meta, out):
    """Used border widths: the ones set by the border conflict resolution under border-collapse: collapse, else
    the computed ones."""
    st = _style_from_meta(meta['st'])
    if out.startswith('err:') or any(isinstance(st[k], list) and st[k][0] == 'unit' for k in STYLE_KEYS):
        return None
    u = dict(zip(USED_KEYS, (dec(v) for v in out.split())))
    for side, preset in zip(('top', 'right', 'bottom', 'left'), meta['presets']):
        want = dec(preset) if (meta['collapse'] and preset is not None) else st[f'border_{side}_width']
        if u[f'border_{side}_width'] != want:
            return (f'border-{side}-width: computed {st[f"border_{side}_width"]}, set by border conflict resolution '
                    f'{preset}, border-collapse {"collapse" if meta["collapse"] else "separate"}: used '
                    f'{u[f"border_{side}_width"]}, expected {want}')
    return None


def rerun_position(meta):
    _, boxes, _, _, _, percent = mods()
    dims = [_dim_of(t) for t in meta['dims']]
    box = boxes.BlockBox('div', dict(zip(('left', 'right', 'top', 'bottom'), map(dim_real, dims))), None, [])

    def call():
        percent.resolve_position_percentages(box, (dec(meta['cbw']), dec(meta['cbh'])))
        return ' '.join(atom(getattr(box, k)) for k in ('left', 'right', 'top', 'bottom'))
    return docs.outcome(call)


def rerun_radius(meta):
    """A box whose border box is bw x bh, the corner under test being top-left."""
    _, boxes, _, _, _, percent = mods()
    box = boxes.BlockBox('div', {}, None, [])
    box.width, box.height = dec(meta['bw']), dec(meta['bh'])
    for name in ('padding_left', 'padding_right', 'padding_top', 'padding_bottom', 'border_left_width',
                 'border_right_width', 'border_top_width', 'border_bottom_width'):
        setattr(box, name, F(0))
    box.remove_decoration_sides = {'top'} if meta['gone'] else set()
    zero = dim_real(['px', F(0)])
    for other in ('top_right', 'bottom_right', 'bottom_left'):
        box.style[f'border_{other}_radius'] = (zero, zero)
    box.style['border_top_left_radius'] = (dim_real(_dim_of(meta['rx'])), dim_real(_dim_of(meta['ry'])))

    def call():
        percent.resolve_radii_percentages(box)
        return ' '.join(atom(v) for v in box.border_top_left_radius)
    return docs.outcome(call)


def rerun_collapse(meta):
    _, boxes, _, _, _, percent = mods()
    real = style_real(_style_from_meta(meta['st']))
    real['border_collapse'] = 'collapse' if meta['collapse'] else 'separate'
    box = boxes.BlockBox('td', real, None, [])
    for side, v in zip(('top', 'right', 'bottom', 'left'), meta['presets']):
        if v is not None:
            setattr(box, f'border_{side}_width', dec(v))

    def call():
        percent.resolve_percentages(box, (dec(meta['cbw']), dec(meta['cbh'])))
        return ' '.join(atom(getattr(box, k)) for k in USED_KEYS)
    return docs.outcome(call)


def gen_shrink_case(rng):
    fs = rng.choice([8, 10, 16])
    words = [rng.choice([1, 2, 3, 4, 6, 9]) for _ in range(rng.choice([1, 2, 3, 5, 8]))]
    cbw = F(rng.choice([40, 80, 100, 160, 240]))

    def px(p, hi=24):
        return F(rng.randrange(0, hi), rng.choice([1, 2, 4])) if rng.random() < p else F(0)
    r = rng.random()
    box = {'ml': 'auto' if rng.random() < .15 else px(.4) * rng.choice([1, 1, -1]),
           'mr': 'auto' if rng.random() < .15 else px(.4),
           'pl': px(.5), 'pr': px(.5), 'bl': px(.3, 6), 'br': px(.3, 6),
           'w': 'auto' if r < .65 else F(rng.choice([0, 20, 50, 90, 200])),
           'min': F(0) if rng.random() < .6 else F(rng.choice([10, 30, 60, 150])),
           'max': INF if rng.random() < .6 else F(rng.choice([0, 15, 40, 70, 120])),
           'x': F(0), 'col': False}
    return {'kind': rng.choice(['float', 'inline-block']), 'fs': fs, 'words': words, 'cbw': cbw, 'box': box}


def shrink_html(case):
    b = case['box']

    def v(x):
        return 'auto' if x == 'auto' else css_num(x) + 'px'
    style = (f'margin:0 {v(b["mr"])} 0 {v(b["ml"])};padding:0 {v(b["pr"])} 0 {v(b["pl"])};border-style:solid;'
             f'border-width:0 {v(b["br"])} 0 {v(b["bl"])};width:{v(b["w"])};min-width:{v(b["min"])};'
             f'max-width:{"none" if b["max"] == INF else v(b["max"])};'
             + ('float:left' if case['kind'] == 'float' else 'display:inline-block'))
    text = ' '.join('x' * n for n in case['words'])
    return (f'<style>@page{{size:400px 400px;margin:0}}html,body{{margin:0}}body{{font-family:weasyprint;'
            f'font-size:{case["fs"]}px;line-height:{case["fs"]}px}}</style>'
            f'<div style="width:{css_num(case["cbw"])}px"><div id="b" style="{style}">{text}</div></div>')


def shrink_line(case):
    fs, words = case['fs'], case['words']
    min_c = F(max(words) * fs)
    max_c = F((sum(words) + len(words) - 1) * fs)
    return sx.line('flw' if case['kind'] == 'float' else 'ibw', case['cbw'], min_c, max_c, abox_wire(case['box']))


def run_shrink(case):
    def call():
        document = docs.render(shrink_html(case))
        for box in document.pages[0]._page_box.descendants():
            if getattr(box, 'element', None) is not None and box.element.get('id') == 'b' and hasattr(box, 'min_width'):
                return (f'ml={fx(box.margin_left)} mr={fx(box.margin_right)} w={fx(box.width)} x=0', box)
        return ('missing', None)
    try:
        return call()
    except Exception as exc:  # noqa: BLE001
        return (f'err:{type(exc).__name__}', None)


def clause_shrink(case, out):
    """(b)(c) for a float / inline-block (CSS 2.1 10.3.5, 10.3.9, 10.4): auto margins are 0; an auto width is
    min(max(min-content, available), max-content) with available = containing block - own margins, borders,
    paddings; then max-width, then min-width.  -> (what, finding id) | None"""
    if not out.startswith('ml='):
        return (f'{case["kind"]}: {out}', None)
    r = parse_show(out)
    b = case['box']
    fs, words = case['fs'], case['words']
    min_c, max_c = F(max(words) * fs), F((sum(words) + len(words) - 1) * fs)
    ml = 0 if b['ml'] == 'auto' else b['ml']
    mr = 0 if b['mr'] == 'auto' else b['mr']
    available = case['cbw'] - (ml + mr + b['pl'] + b['pr'] + b['bl'] + b['br'])
    w = min(max(min_c, available), max_c) if b['w'] == 'auto' else b['w']
    if w > b['max']:
        w = b['max']
    if w < b['min']:
        w = b['min']
    if (r['ml'], r['mr']) != (ml, mr):
        return (f'{case["kind"]}: used margins {r["ml"]} / {r["mr"]}, expected {ml} / {mr}', None)
    if r['w'] != w:
        known = None        # floats: two known deviations until /repo 802b9d8, 8719f13
        return (f'{case["kind"]} in a {case["cbw"]}px containing block, own margins+borders+paddings '
                f'{case["cbw"] - available}, min-content {min_c}, max-content {max_c}, width {b["w"]}, min-width '
                f'{b["min"]}, max-width {b["max"]}: used width {r["w"]}, CSS 10.3.5/10.4 gives {w}', known)
    return None


def shrink_meta(case):
    return {'kind': case['kind'], 'fs': case['fs'], 'words': case['words'], 'cbw': atom(case['cbw']),
            'box': abox_meta(case['box'])}


def shrink_from_meta(m):
    return {'kind': m['kind'], 'fs': m['fs'], 'words': m['words'], 'cbw': F(m['cbw']), 'box': abox_from_meta(m['box'])}


# --------------------------------------------------------------------------------------------------
# documents

PCTS = [F(0), F(25, 4), F(25, 2), F(25), F(75, 2), F(50), F(125, 2), F(75), F(100), F(125), F(150)]
EMS = [F(0), F(1, 4), F(1, 2), F(1), F(3, 2), F(2)]
FONT_SIZES = [F(8), F(10), F(12), F(16), F(20), F(24)]


def px_val(rng, big=False):
    return F(rng.randrange(0, 260 if big else 48), rng.choice([1, 1, 2, 4]))


def sdim(rng, kinds, big=False, neg=False):
    kind = rng.choice(kinds)
    if kind in ('auto', 'none'):
        return kind
    if kind == 'zero':
        return ['px', F(0)]
    if kind == 'px':
        v = px_val(rng, big)
    elif kind == 'pct':
        v = rng.choice(PCTS if big else PCTS[:7])
    else:
        v = rng.choice(EMS) * (3 if big else 1)
    if neg and rng.random() < .3:
        v = -v
    return [kind, v]


def gen_nstyle(rng, is_page=False, root=False):
    m = ['auto', 'zero', 'zero', 'px', 'px', 'pct', 'em']
    p = ['zero', 'zero', 'zero', 'px', 'pct', 'em']
    b = ['zero', 'zero', 'zero', 'px', 'em']
    w = ['auto', 'auto', 'auto', 'zero', 'px', 'px', 'pct', 'pct', 'em']
    h = ['auto', 'auto', 'auto', 'zero', 'px', 'pct', 'em']
    mn = ['auto', 'auto', 'auto', 'zero', 'px', 'pct', 'em']
    mx = ['none', 'none', 'none', 'zero', 'px', 'pct', 'em']
    if is_page:
        m = ['auto', 'zero', 'px', 'pct']
        p = ['zero', 'zero', 'px', 'pct']
        b = ['zero', 'zero', 'px']
        w = ['auto', 'auto', 'auto', 'px', 'pct']
        h = ['auto']
        mn = ['auto', 'auto', 'auto', 'px', 'pct']
        mx = ['none', 'none', 'none', 'px', 'pct']
    mv, pv, mnv, mxv = m, p, mn, mx
    if is_page:     # the page keeps (almost) all of its 2^20 px: nothing may be pushed to a second page
        mv, pv, mnv, mxv = ['auto', 'zero', 'px'], ['zero', 'zero', 'px'], ['auto'], ['none']
    if root:
        h = ['auto', 'auto', 'px', 'em']
    plain = rng.random() < .25          # a box with everything initial but a couple of properties
    def pick(kinds, **kw):
        if plain and rng.random() < .8:
            return kinds[0] if kinds[0] in ('auto', 'none') else ['px', F(0)]
        return sdim(rng, kinds, **kw)
    st = {
        'ml': pick(m, neg=True, big=True), 'mr': pick(m, neg=True, big=True),
        'mt': pick(mv, neg=not is_page), 'mb': pick(mv, neg=not is_page),
        'pl': pick(p), 'pr': pick(p), 'pt': pick(pv), 'pb': pick(pv),
        'bl': pick(b), 'br': pick(b), 'bt': pick(b), 'bb': pick(b),
        'width': pick(w, big=True), 'height': pick(h, big=not is_page),
        'minW': pick(mn, big=True), 'minH': pick(mnv), 'maxW': pick(mx, big=True), 'maxH': pick(mxv, big=True),
        'bs': rng.choice(['content-box', 'content-box', 'border-box', 'padding-box']),
        'dir': 'inherit' if is_page else rng.choice(['inherit', 'inherit', 'inherit', 'ltr', 'rtl']),
        'fs': 'inherit' if is_page else rng.choice(['inherit', 'inherit', 'inherit'] + FONT_SIZES),
    }
    if root and st['fs'] == 'inherit':
        st['fs'] = F(16)
    if root and st['dir'] == 'inherit':
        st['dir'] = rng.choice(['ltr', 'ltr', 'rtl'])
    return st


NSTYLE_KEYS = ['ml', 'mr', 'mt', 'mb', 'pl', 'pr', 'pt', 'pb', 'bl', 'br', 'bt', 'bb', 'width', 'height',
               'minW', 'minH', 'maxW', 'maxH', 'bs', 'dir', 'fs']
CSS_NAMES = {'ml': 'margin-left', 'mr': 'margin-right', 'mt': 'margin-top', 'mb': 'margin-bottom',
             'pl': 'padding-left', 'pr': 'padding-right', 'pt': 'padding-top', 'pb': 'padding-bottom',
             'bl': 'border-left-width', 'br': 'border-right-width', 'bt': 'border-top-width',
             'bb': 'border-bottom-width', 'width': 'width', 'height': 'height', 'minW': 'min-width',
             'minH': 'min-height', 'maxW': 'max-width', 'maxH': 'max-height'}


def css_num(v):
    f = float(v)
    assert F(f) == v
    s = repr(f)
    assert 'e' not in s
    return s[:-2] if s.endswith('.0') else s


def css_value(d):
    if d in ('auto', 'none'):
        return d
    kind, v = d
    return css_num(v) + {'px': 'px', 'pct': '%', 'em': 'em'}[kind]


def css_of(st):
    parts = [f'{CSS_NAMES[k]}:{css_value(st[k])}' for k in CSS_NAMES]
    parts.append('border-style:solid')
    parts.append(f'box-sizing:{st["bs"]}')
    if st['dir'] != 'inherit':
        parts.append(f'direction:{st["dir"]}')
    if st['fs'] != 'inherit':
        parts.append(f'font-size:{css_num(st["fs"])}px')
    return ';'.join(parts)


def nstyle_wire(st):
    return [st[k] for k in NSTYLE_KEYS]


def gen_tree(rng, depth, budget):
    """(style, kids); budget = [remaining nodes]."""
    st = gen_nstyle(rng)
    kids = []
    if depth > 0:
        for _ in range(rng.choice([0, 1, 1, 2, 2, 3])):
            if budget[0] <= 0:
                break
            budget[0] -= 1
            kids.append(gen_tree(rng, depth - 1, budget))
    return (st, kids)


def gen_doc(rng):
    dev_w = rng.choice([F(100), F(200), F(256), F(300), F(640), F(333), F(150)])
    dev_h = F(2 ** 20)
    page = gen_nstyle(rng, is_page=True) if rng.random() < .6 else gen_nstyle_plain_page()
    html = gen_nstyle(rng, root=True)
    if rng.random() < .5:      # mostly a plain root so that the divs get a sensible width
        for k in ('ml', 'mr', 'pl', 'pr', 'bl', 'br'):
            html[k] = ['px', F(0)]
        html['width'] = 'auto'
    body = gen_nstyle(rng)
    budget = [rng.choice([3, 6, 10, 16, 24])]
    divs = []
    for _ in range(rng.choice([1, 2, 3, 4])):
        if budget[0] <= 0:
            break
        budget[0] -= 1
        divs.append(gen_tree(rng, rng.choice([0, 1, 2, 3, 4]), budget))
    return {'w': dev_w, 'h': dev_h, 'page': page, 'root': (html, [(body, divs)])}


def gen_nstyle_plain_page():
    z = ['px', F(0)]
    st = {k: z for k in ('ml', 'mr', 'mt', 'mb', 'pl', 'pr', 'pt', 'pb', 'bl', 'br', 'bt', 'bb')}
    st.update({'width': 'auto', 'height': 'auto', 'minW': 'auto', 'minH': 'auto', 'maxW': 'none', 'maxH': 'none',
               'bs': 'content-box', 'dir': 'inherit', 'fs': 'inherit'})
    return st


def tree_wire(node):
    st, kids = node
    return [nstyle_wire(st), [tree_wire(k) for k in kids]]


def doc_html(doc):
    def body_of(node, tag):
        st, kids = node
        inner = ''.join(body_of(k, 'div') for k in kids)
        return f'<{tag} style="{css_of(st)}">{inner}</{tag}>'
    html_node = doc['root']
    body_node = html_node[1][0]
    page = doc['page']
    page_css = ';'.join(f'{CSS_NAMES[k]}:{css_value(page[k])}' for k in CSS_NAMES)
    head = (f'<style>@page{{size:{css_num(doc["w"])}px {css_num(doc["h"])}px;{page_css};border-style:solid;'
            f'box-sizing:{page["bs"]}}}</style>')
    body = ''.join(body_of(k, 'div') for k in body_node[1])
    return (f'<html style="{css_of(html_node[0])}"><head>{head}</head>'
            f'<body style="{css_of(body_node[0])}">{body}</body></html>')


def height_determinate(st, parent_det):
    h = st['height']
    if h == 'auto':
        return False
    if h[0] == 'pct':
        return h[1] == 0 or parent_det
    return True


def fx(v):
    """Exact rational of a used value (float / int / Fraction)."""
    if isinstance(v, float):
        if math.isinf(v) or math.isnan(v):
            return atom(v)
        return atom(F(v))
    return atom(v)


def geo_of(box, det):
    vals = [box.position_x, box.margin_left, box.margin_right, box.width, box.padding_left, box.padding_right,
            box.border_left_width, box.border_right_width, box.margin_top, box.margin_bottom, box.padding_top,
            box.padding_bottom, box.border_top_width, box.border_bottom_width]
    return '(' + ' '.join([fx(v) for v in vals] + [fx(box.height) if det else 'auto']) + ')'


def vgeo_of(box):
    """Full geometry of a box in the format of the `docv` command (Model/BlockTreeV.lean)."""
    vals = [box.position_x, box.margin_left, box.margin_right, box.width, box.padding_left, box.padding_right,
            box.border_left_width, box.border_right_width, box.margin_top, box.margin_bottom, box.padding_top,
            box.padding_bottom, box.border_top_width, box.border_bottom_width, box.position_y, box.height]
    return '(' + ' '.join(fx(v) for v in vals) + ')'


def real_geometry(doc, full=None):
    """Render and read every block box, preorder, in the model's output format (`full`: a list that receives
    the full geometry of the same boxes, position_y and used height included)."""
    boxes = mods()[1]
    document = docs.render(doc_html(doc))
    if len(document.pages) != 1:
        return f'pages={len(document.pages)}'
    page_box = document.pages[0]._page_box
    out = [geo_of(page_box, True)]
    if full is not None:
        full.append(vgeo_of(page_box))
    blocks = []

    def walk(box, node, parent_det):
        st, kids = node
        det = height_determinate(st, parent_det)
        out.append(geo_of(box, det))
        if full is not None:
            full.append(vgeo_of(box))
        blocks.append((box, st))
        real_kids = [c for c in box.children if isinstance(c, boxes.BlockBox)]
        if len(real_kids) != len(kids):
            raise ValueError('shape')
        for c, k in zip(real_kids, kids):
            walk(c, k, det)
    walk(page_box.children[0], doc['root'], True)
    return ' '.join(out), page_box, blocks


def doc_line(doc, cmd='doc'):
    return sx.line(cmd, doc['w'], doc['h'], nstyle_wire(doc['page']), tree_wire(doc['root']))


def _px(value):
    """A computed length as a number, None when it is a percentage or auto."""
    if value == 'auto' or value.unit != 'px':
        return None
    return value.value


def stacking_oracle(root):
    """Clauses (a)(g)(h) on real laid-out block boxes whose children are all blocks (one page), from used values
    and computed styles: CSS 2.1 8.3.1 as in `clause_stacking`.  Between two consecutive children that do not
    collapse through, the border boxes are (largest positive + most negative) of all the margins adjoining in
    between apart; a parent without top border/padding shares its top border edge with its first such child; an
    auto-height parent without bottom border/padding ends at its last child's bottom border edge.  A percentage
    height against an auto-height containing block is an auto height (CSS 2.1 10.5)."""
    boxes = mods()[1]

    def geo(b):
        top = F(b.position_y) + F(b.margin_top)
        return {'top': top, 'bottom': top + F(b.border_height()), 'content_top': F(b.content_box_y())}

    def facts(b, parent_det):
        """-> (through, top_own, bottom_own, sure).  `parent_det`: the containing block has a definite height; a
        percentage height / min-height / max-height against an auto one computes to auto / 0 / none (CSS 2.1 10.5,
        10.7) — the used values `min_height`, `max_height` are read, the height is decided here."""
        h = b.style['height']
        sure = True
        if h == 'auto':
            hp = 'auto'
        elif _px(h) is not None:
            hp = _px(h)
        elif not parent_det:
            hp = 'auto'                     # an unresolvable percentage behaves as auto
        else:
            hp = F(b.height)                # resolved against a definite height (then clamped: only 0 / not auto matter)
            sure = b.min_height == 0 and b.max_height == INF
        if b.style['box_sizing'] != 'content-box' and hp not in ('auto', 0, None):
            hp = F(b.height) if b.height != 'auto' else hp          # what box-sizing left of it
        open_top = b.border_top_width == 0 and b.padding_top == 0
        open_bottom = b.border_bottom_width == 0 and b.padding_bottom == 0
        min_zero = b.min_height == 0
        kids = [c for c in b.children if isinstance(c, boxes.BlockBox)]
        if not kids:
            through = open_top and open_bottom and min_zero and hp in ('auto', 0)
            return through, not through, not through, sure, hp
        return False, not open_top, (not open_bottom) or hp != 'auto', sure, hp

    def determinate(b, parent_det):
        h = b.style['height']
        return h != 'auto' and (_px(h) is not None or parent_det)

    def check(b, is_root, parent_det):
        det = determinate(b, parent_det)
        kids = [c for c in b.children if isinstance(c, boxes.BlockBox)]
        if len(kids) != len(b.children):
            return None
        if min(F(b.height), F(b.width)) < 0:
            return f'<{b.element_tag}> has a negative size ({b.width} x {b.height})'
        g = geo(b)
        open_top = b.border_top_width == 0 and b.padding_top == 0
        open_bottom = b.border_bottom_width == 0 and b.padding_bottom == 0
        prev, between, first_seen, last_solid, all_sure = None, [], False, None, True
        for k in kids:
            through, top_own, bottom_own, sure, _ = facts(k, det)
            if not sure:
                prev, between, first_seen, all_sure = None, [], True, False
                continue
            if through:
                between += [F(k.margin_top), F(k.margin_bottom)]
                continue
            kg = geo(k)
            if prev is not None and top_own:
                margins = [F(prev[1].margin_bottom), *between, F(k.margin_top)]
                want, got = _collapse(margins), kg['top'] - prev[0]['bottom']
                if got != want:
                    return (f'two consecutive children of <{b.element_tag}> at y={g["top"]}: the adjoining margins '
                            f'{[str(m) for m in margins]} collapse to {want} (largest positive + most negative), but '
                            f'the border boxes are {got} apart (bottom {prev[0]["bottom"]}, top {kg["top"]})')
            elif not first_seen and top_own and not is_root and open_top and kg['top'] != g['top']:
                return (f'<{b.element_tag}> has no top border/padding, so its top margin collapses with its first '
                        f'child: both top border edges must coincide, got {g["top"]} and {kg["top"]}')
            prev = (kg, k) if bottom_own else None
            last_solid = (kg, k) if (top_own and bottom_own) else None
            between, first_seen = [], True
        _, _, _, sure, hp = facts(b, parent_det)
        if (last_solid is not None and not between and all_sure and sure and not is_root and open_bottom and
                hp == 'auto' and b.min_height == 0 and b.max_height == INF and
                kids[-1] is last_solid[1] and g['bottom'] != max(last_solid[0]['bottom'], g['content_top'])):
            return (f'<{b.element_tag}> (auto height, no bottom border/padding): its bottom border edge '
                    f'{g["bottom"]} must be that of its last child, {last_solid[0]["bottom"]}')
        for k in kids:
            r = check(k, False, det)
            if r:
                return r
        return None
    return check(root, True, True)


def doc_oracle_v(doc):
    """Vertical clauses on a rendered `documents` case."""
    try:
        res = real_geometry(doc)
    except Exception as exc:  # noqa: BLE001
        return f'render raised {type(exc).__name__}: {exc}'
    if isinstance(res, str):
        return None
    _, page_box, _ = res
    root = page_box.children[0]
    if F(root.position_y) != F(page_box.content_box_y()):
        return (f'the root element\'s margin box starts at {root.position_y}, not at the top of the page area '
                f'{page_box.content_box_y()}')
    return stacking_oracle(root)


def doc_meta(doc):
    def enc(node):
        st, kids = node
        return [{k: (v if isinstance(v, str) else ([v[0], atom(v[1])] if isinstance(v, list) else atom(v)))
                 for k, v in st.items()}, [enc(k) for k in kids]]
    pg = enc((doc['page'], []))[0]
    return {'w': atom(doc['w']), 'h': atom(doc['h']), 'page': pg, 'root': enc(doc['root'])}


def doc_from_meta(m):
    def decs(st):
        out = {}
        for k, v in st.items():
            if isinstance(v, list):
                out[k] = [v[0], F(v[1])]
            elif k == 'fs' and v != 'inherit':
                out[k] = F(v)
            else:
                out[k] = v
        return out

    def dn(node):
        return (decs(node[0]), [dn(k) for k in node[1]])
    return {'w': F(m['w']), 'h': F(m['h']), 'page': decs(m['page']), 'root': dn(m['root'])}


def spec_len(value, ref):
    """A computed <length-percentage> | auto against its reference (clause d)."""
    if value == 'auto':
        return 'auto'
    if value.unit == '%':
        return ref * value.value / 100
    return value.value


def doc_oracle(doc):
    """Clauses (a)-(f) on the rendered boxes, from their computed styles.  -> (what, finding_id) | None"""
    boxes = mods()[1]
    try:
        res = real_geometry(doc)
    except Exception as exc:  # noqa: BLE001
        return (f'render raised {type(exc).__name__}: {exc}', None)
    if isinstance(res, str):
        return None
    _, page_box, blocks = res

    def close(a, b):
        return abs(a - b) <= 1e-6 * max(1, abs(a), abs(b))

    def check(box, parent, parent_dir):
        tag = f'<{box.element_tag}>'
        used = [box.margin_left, box.margin_right, box.width, box.padding_left, box.padding_right,
                box.border_left_width, box.border_right_width, box.height, box.position_x, box.position_y,
                box.margin_top, box.margin_bottom, box.padding_top, box.padding_bottom]
        for v in used:
            if isinstance(v, str) or v != v or v in (INF, -INF):
                return (f'{tag} has a non-numeric used value {v!r}', None)
        if min(box.width, box.height, box.padding_left, box.padding_right, box.padding_top, box.padding_bottom,
               box.border_left_width, box.border_right_width) < 0:
            return (f'{tag} has a negative size (width {box.width}, height {box.height})', None)
        st = box.style
        cbw = parent.width
        pcx = parent.position_x + parent.margin_left + parent.border_left_width + parent.padding_left
        # (d) percentages against the containing block width (all four sides)
        for name in ('padding_left', 'padding_right', 'padding_top', 'padding_bottom', 'margin_top',
                     'margin_bottom'):
            want = spec_len(st[name], cbw)
            want = 0 if want == 'auto' else want
            if not close(getattr(box, name), want):
                return (f'{tag} {name}: computed {st[name]} in a containing block of width {cbw} is used as '
                        f'{getattr(box, name)}, expected {want}', None)
        pb = box.padding_left + box.padding_right + box.border_left_width + box.border_right_width
        # (e) box-sizing: which box the declared size measures
        extras = {'border-box': pb, 'padding-box': box.padding_left + box.padding_right,
                  'content-box': 0}[st['box_sizing']]

        def content(v):
            return v if v in ('auto', INF) or extras <= 0 else max(0, v - extras)
        w = content(spec_len(st['width'], cbw))
        mn = spec_len(st['min_width'], cbw)
        mn = content(0 if mn == 'auto' else mn)
        mx = content(spec_len(st['max_width'], cbw))
        rtl = parent_dir == 'rtl'
        (ml, w, mr), clamped = css_used('block', cbw, spec_len(st['margin_left'], cbw), w,
                                        spec_len(st['margin_right'], cbw), pb, mn, mx, rtl)
        # (b)(c) the used width; (f) the border box position
        if not close(box.width, w):
            return (f'{tag} used width {box.width}; CSS 10.3.3/10.4 with containing block {cbw}, box-sizing '
                    f'{st["box_sizing"]}, min {mn}, max {mx} gives {w}', None)
        if not close(box.position_x + box.margin_left, pcx + ml):
            known = None    # (was rtl-minmax-shift-accumulates until /repo 165e254)
            return (f'{tag} border box starts at {box.position_x + box.margin_left}; CSS 10.3.3 puts it at '
                    f'{pcx + ml} ({"rtl" if rtl else "ltr"} containing block [{pcx}, {pcx + cbw}])', known)
        # (c) heights
        if box.height < box.min_height - 1e-9:
            return (f'{tag} height {box.height} < min-height {box.min_height}', None)
        if box.min_height <= box.max_height and box.height > box.max_height + 1e-9:
            return (f'{tag} height {box.height} > max-height {box.max_height}', None)
        direction = box.style['direction']
        for child in box.children:
            if isinstance(child, boxes.BlockBox):
                r = check(child, box, direction)
                if r:
                    return r
        return None
    root = page_box.children[0]
    return check(root, page_box, page_box.style['direction'])


# --------------------------------------------------------------------------------------------------

# --------------------------------------------------------------------------------------------------
# regressions: the inputs of the repaired findings (`fixed:` lines), run first in every check

SIBLING_HEAD = ('<style>@page{size:200px 400px;margin:0}html,body{margin:0}body{font-family:weasyprint;font-size:10px;'
                'line-height:10px}p{margin:0}</style>')
# (name, html after the head, margins that adjoin between the border boxes of #a and #b)
SIBLING_DOCS = [
    ('columns-margin-top', '<p id=a>a</p><div id=b style="columns:2;margin-top:10px">x y z</div>', [0, 10]),
    ('columns-margin-top-collapses', '<p id=a style="margin-bottom:15px">a</p>'
     '<div id=b style="columns:2;margin-top:10px">x y z</div>', [15, 10]),
    ('columns-negative-margin-top', '<p id=a style="margin-bottom:15px">a</p>'
     '<div id=b style="column-count:3;margin-top:-5px">x y z</div>', [15, -5]),
    ('columns-through-empty', '<p id=a style="margin-bottom:4px">a</p><div style="margin:12px 0 7px"></div>'
     '<div id=b style="column-width:50px;margin-top:9px">x y z</div>', [4, 12, 7, 9]),
    ('plain-block', '<p id=a style="margin-bottom:15px">a</p><div id=b style="margin-top:10px">x y z</div>',
     [15, 10]),
    # a percentage height / max-height / min-height against an auto-height containing block computes to auto / none /
    # 0 (CSS 2.1 10.5, 10.7): the box behaves as height:auto, the bottom margin of its last child adjoins its own
    ('pct-height-auto-parent', '<div id=a style="height:50%"><div style="height:20px;margin-bottom:30px"></div></div>'
     '<div id=b style="height:20px;margin-top:10px"></div>', [30, 0, 10]),
    ('pct-height-auto-parent-negative', '<div id=a style="height:50%"><div style="height:20px;margin-bottom:-8px">'
     '</div></div><div id=b style="height:20px;margin-top:10px"></div>', [-8, 0, 10]),
    ('pct-height-auto-parent-nested', '<div id=a style="height:50%;margin-bottom:4px"><div style="height:25%">'
     '<div style="height:20px;margin-bottom:30px"></div></div></div>'
     '<div id=b style="height:20px;margin-top:10px"></div>', [30, 0, 4, 10]),
    ('pct-max-height-auto-parent', '<div id=a style="max-height:50%"><div style="height:20px;margin-bottom:30px"></div>'
     '</div><div id=b style="height:20px;margin-top:10px"></div>', [30, 0, 10]),
    ('pct-min-height-auto-parent', '<div id=a style="min-height:50%"><div style="height:20px;margin-bottom:30px"></div>'
     '</div><div id=b style="height:20px;margin-top:10px"></div>', [30, 0, 10]),
    # control: the same percentage against a definite height is a definite height: the child's margin stays inside
    ('pct-height-definite-parent', '<div style="height:100px"><div id=a style="height:50%">'
     '<div style="height:20px;margin-bottom:30px"></div></div><div id=b style="height:20px;margin-top:10px"></div>'
     '</div>', [0, 10]),
]


SIBLING_KINDS = {
    # what stands before / after the margins: ordinary blocks and the containers that are laid out by another
    # function than block_container_layout (columns_layout, table_wrapper / table_layout, flex_layout, grid_layout)
    'block': '<div id=ID style="STYLE">x y</div>',
    'para': '<p id=ID style="STYLE">x y z</p>',
    'fixed-height': '<div id=ID style="height:12px;STYLE"></div>',
    'columns': '<div id=ID style="columns:2;STYLE">x y z</div>',
    'table': '<table id=ID style="STYLE"><tr><td>x</td><td>y</td></tr></table>',
    'flex': '<div id=ID style="display:flex;STYLE"><div>x</div><div>y</div></div>',
    'grid': '<div id=ID style="display:grid;grid-template-columns:1fr 1fr;STYLE"><div>x</div><div>y</div></div>',
    'list': '<ul id=ID style="STYLE"><li>x</li><li>y</li></ul>',
    'bordered': '<div id=ID style="border:1px solid;padding:2px;STYLE"><p style="margin:5px 0">x</p></div>',
    'float-first': ('<div id=ID style="STYLE"><div style="float:left;width:10px;height:5px"></div>'
                    '<p style="margin:0">x</p></div>'),
    'bfc': '<div id=ID style="overflow:hidden;STYLE"><p style="margin:7px 0">x</p></div>',
    'inline-block-line': '<div id=ID style="STYLE"><span style="display:inline-block">x</span></div>',
}


def gen_sibling_case(rng):
    """#a, then 0-2 empty blocks that collapse through, then #b: the margins that adjoin between the bottom border
    edge of #a and the top border edge of #b.  #a / #b may also be a plain wrapper whose last / first child brings
    its own margin into the set (CSS 2.1 8.3.1)."""
    def margin():
        r = rng.random()
        return 0 if r < .2 else rng.choice([2, 3, 5, 8, 10, 12, 15, 20]) if r < .8 else -rng.choice([2, 3, 6, 8])
    kinds = list(SIBLING_KINDS) + ['nested']
    ka, kb = rng.choice(kinds), rng.choice(kinds)
    if ka == 'float-first':
        # a negative collapsed margin would pull #b over the float inside #a: a box that establishes a new
        # formatting context (table, flex, grid, columns, overflow) is then moved clear of the float (CSS 2.1 9.5),
        # which is not margin collapsing: keep the margins non-negative after a box that holds a float
        plain = margin

        def margin():
            return abs(plain())
    mb, mt = margin(), margin()
    ms = [mb]
    if ka == 'nested':
        inner = margin()
        a = f'<div id=a style="margin-bottom:{mb}px"><p style="margin:0 0 {inner}px">x</p></div>'
        ms.append(inner)
    else:
        a = SIBLING_KINDS[ka].replace('ID', 'a').replace('STYLE', f'margin-bottom:{mb}px')
    between = ''
    for _ in range(rng.choice([0, 0, 1, 2])):
        top, bottom = margin(), margin()
        between += f'<div style="margin:{top}px 0 {bottom}px"></div>'
        ms += [top, bottom]
    ms.append(mt)
    if kb == 'nested':
        inner = margin()
        b = f'<div id=b style="margin-top:{mt}px"><p style="margin:{inner}px 0 0">x</p></div>'
        ms.append(inner)
    else:
        b = SIBLING_KINDS[kb].replace('ID', 'b').replace('STYLE', f'margin-top:{mt}px')
    return {'name': f'{ka}/{kb}', 'html': a + between + b, 'ms': ms, 'kinds': (ka, kb)}


def sibling_distance(html):
    """Distance from the bottom border edge of #a to the top border edge of #b."""
    document = docs.render(SIBLING_HEAD + html)
    found = {}
    for box in document.pages[0]._page_box.descendants():
        ident = box.element.get('id') if getattr(box, 'element', None) is not None else None
        if ident in ('a', 'b') and ident not in found and hasattr(box, 'margin_top'):
            found[ident] = box
    a, b = found['a'], found['b']
    return F(b.position_y + b.margin_top) - F(a.position_y + a.margin_top + a.border_height())


def used_doc_case(html, page_index=0):
    """(line, meta) of one page of a document for the verified checker of used values."""
    from harness import c05_used
    document = docs.render(html)
    line = c05_used.page_lines(document)[page_index][0]
    info = c05_used.page_info(document.pages[page_index])
    return line, dict({'as': 'used-values', 'html': html, 'page_index': page_index, 'rtl': 'direction:rtl' in html,
                       'features': []}, **info)


def regression_cases():
    """-> [(name, line, impl, meta)]: corpus/C05 inputs of the repaired findings and their function-level
    counterparts, each compared with the model (and judged by the clause it once violated)."""
    import json
    from vlib.paths import CORPUS
    out = []
    rtl_clamped = {'ml': F(0), 'mr': F(0), 'pl': F(0), 'pr': F(0), 'bl': F(0), 'br': F(0), 'w': F(200), 'min': F(0),
                   'max': F(50), 'x': F(0), 'col': False}
    cb = ['box', F(100), 'rtl']
    for name, b in (('rtl-minmax-shift-accumulates', rtl_clamped),
                    ('rtl-minmax-three-passes', dict(rtl_clamped, max=F(20), min=F(50))),
                    ('rtl-minmax-min-only', dict(rtl_clamped, w=F(20), max=INF, min=F(150)))):
        out.append((name, sx.line('blwmm', cb, abox_wire(b)), run_width('blwmm', cb, b),
                    {'as': 'width-minmax', 'cmd': 'blwmm', 'cb': [cb[0], atom(cb[1]), cb[2]], 'b': abox_meta(b)}))
    for name, case in (('float-explicit-width-ignores-max', _float_case(w=F(80), max=F(50))),
                       ('float-explicit-width-ignores-min', _float_case(w=F(20), min=F(50))),
                       ('float-shrink-to-fit-ignores-own-extras', _float_case(pl=F(10), pr=F(10))),
                       ('float-shrink-to-fit-margins-borders', _float_case(ml=F(5), mr=F(7), bl=F(2), br=F(3)))):
        out.append((name, shrink_line(case), run_shrink(case)[0], dict(shrink_meta(case), **{'as': 'shrink-to-fit'})))
    for stem in ('rtl_minmax_shift_accumulates', 'rtl_relayout_shift_accumulates',
                 'float_explicit_width_ignores_min_max', 'float_shrink_to_fit_ignores_own_extras'):
        html = json.loads((CORPUS / 'C05' / f'{stem}.json').read_text())['html']
        try:
            line, meta = used_doc_case(html)
            out.append((stem, line, 'ok', meta))
        except Exception as exc:  # noqa: BLE001
            out.append((stem, sx.line('collapse', []), f'err:{type(exc).__name__}', {'as': 'render', 'html': html}))
    for name, html, margins in SIBLING_DOCS:
        ms = [F(m) for m in margins]
        impl = docs.outcome(lambda: atom(sibling_distance(html)))
        out.append((name, sx.line('collapse', ms), impl,
                    {'as': 'sibling-distance', 'name': name, 'html': SIBLING_HEAD + html, 'ms': [atom(m) for m in ms]}))
    return out


def clause_sibling(meta, out):
    """(h) between two siblings: the border boxes are (largest positive + most negative) of the adjoining
    margins apart — also when the second one is a multi-column container."""
    if out.startswith('err:'):
        return f'{meta["name"]}: layout raised {out}'
    ms = [F(m) for m in meta['ms']]
    want = _collapse(ms)
    if F(out) != want:
        return (f'{meta["name"]}: the margins {[str(m) for m in ms]} adjoin between #a and #b and collapse to {want}, '
                f'but the border boxes are {out} apart')
    return None


class C05(PropCheck):
    id = 'C05'
    extractors = ()
    modules = ('WpModel.Props.C05', 'WpModel.Props.C05Pm', 'WpModel.Props.C05Check', 'WpModel.Props.C05Refine',
               'WpModel.Props.C05Shrink', 'WpModel.Props.C05Tree', 'WpModel.Props.C05Shift', 'WpModel.Props.C05Meta', 'WpModel.Props.C05Deco', 'WpModel.Witness.C05', 'WpModel.Witness.C05Pm', 'WpModel.Witness.C05Shrink')
    trusted_base = (
        'modelled, not verified: collapse_margin, percentage, resolve_percentages, adjust_box_sizing, '
        'handle_min_max_width/height, block_level_width, page_width_or_height are hand transcriptions '
        '(lean/WpModel/Model/Margins.lean, BoxModel.lean), tied to /repo by exact comparison on Fractions',
        'document harness: the top-down application of these functions (Model/BlockTree.lean) is compared with '
        'rendered documents whose lengths are dyadic rationals, so that float arithmetic is exact (checked per '
        'value with Fraction(float))',
    )
    assumptions = (
        'computed padding/border values are never auto; only max-* can be infinite (computed value of none)',
        'the page box inherits direction and font-size from the root element',
        'vertical stacking (clause g) and margin adjoining across boxes are the pagination model\'s; the block-tree '
        'model hands it the used values (Model/BlockTreeV.lean), the composition is compared with rendered documents '
        '(section documents-full)',
    )

    # ---------------------------------------------------------------------------------------------
    def correspondence(self, run):
        docs.quiet()
        rng = run.rng
        _, boxes, block, min_max, page, percent = mods()

        sec = run.section('regressions', 'corpus first: the inputs of the repaired findings (fixed: lines of '
                          'known_findings.txt; corpus/C05/*.json and their function-level forms): decorated '
                          'block_level_width in rtl with 2 and 3 passes, float widths with explicit width + min/max '
                          'and with own paddings / margins / borders, the corpus documents through the verified '
                          'checker of used values, sibling distances before a multi-column container against '
                          'collapse_margin; non-trivial = always')
        for name, line, impl, meta in regression_cases():
            sec.add(line, impl, meta=meta, tags=[meta['as'], name])

        sec = run.section('collapse', 'block.collapse_margin on lists of 0-9 rationals (duplicates, zeros, signs, '
                          'huge); non-trivial = at least one positive and one negative margin')
        for i in range(run.n(6000, 100000)):
            n = rng.choice([0, 1, 1, 2, 2, 3, 3, 4, 5, 6, 9])
            pool = [rat(rng) for _ in range(rng.choice([1, 2, 3, 6]))]
            ms = [rng.choice(pool) if rng.random() < .5 else rat(rng) for _ in range(n)]
            if rng.random() < .1:
                ms = [abs(m) for m in ms]
            elif rng.random() < .1:
                ms = [-abs(m) for m in ms]
            out = docs.outcome(lambda: atom(block.collapse_margin(list(ms))))
            sec.add(sx.line('collapse', ms), out, meta={'ms': [atom(m) for m in ms]},
                    nontrivial=any(m > 0 for m in ms) and any(m < 0 for m in ms),
                    tags=[f'len{min(n, 6)}', 'mixed' if any(m > 0 for m in ms) and any(m < 0 for m in ms)
                          else 'one-sign'])

        sec = run.section('percentage', 'percent.percentage on None/auto/px/%/other-unit values with finite, zero, '
                          'infinite and nan references; non-trivial = a percentage')
        for i in range(run.n(3000, 40000)):
            r = rng.random()
            d = ('none' if r < .05 else 'auto' if r < .15 else
                 ['px', rng.choice([rat(rng), INF])] if r < .4 else
                 ['unit', rng.choice(['em', 'cm'])] if r < .45 else ['pct', rat(rng)])
            ref = rng.choice([rat(rng), rat(rng), nonneg(rng), F(0), INF, -INF, math.nan])
            value = dim_real(d)

            def call():
                res = percent.percentage(value, ref)
                return 'none' if res is None else atom(res)
            sec.add(sx.line('pct', d, ref), docs.outcome(call), meta={'d': sx.dumps(d), 'ref': atom(ref)},
                    nontrivial=isinstance(d, list) and d[0] == 'pct', tags=[d if isinstance(d, str) else d[0]])

        sec = run.section('box-sizing', 'percent.adjust_box_sizing on both axes of a real BlockBox; non-trivial = '
                          'delta > 0')
        for i in range(run.n(3000, 40000)):
            adversarial = rng.random() < .15
            bs = rng.choice(['content-box', 'border-box', 'border-box', 'padding-box'] +
                            (['bogus'] if adversarial else []))
            pa, pb, ba, bb = [(rat(rng) if adversarial else rng.choice([F(0), small(rng), nonneg(rng)]))
                              for _ in range(4)]
            size = 'auto' if rng.random() < .2 else nonneg(rng)
            mn = 'auto' if rng.random() < .1 else nonneg(rng)
            mx = rng.choice([INF, nonneg(rng), nonneg(rng)] + ([math.nan, -INF] if adversarial else []))
            axis = rng.choice(['width', 'height'])
            box = boxes.BlockBox('div', {'box_sizing': bs}, None, [])
            a, b = ('left', 'right') if axis == 'width' else ('top', 'bottom')
            setattr(box, f'padding_{a}', pa); setattr(box, f'padding_{b}', pb)
            setattr(box, f'border_{a}_width', ba); setattr(box, f'border_{b}_width', bb)
            setattr(box, axis, size); setattr(box, f'min_{axis}', mn); setattr(box, f'max_{axis}', mx)

            def call():
                percent.adjust_box_sizing(box, axis)
                return ' '.join(atom(getattr(box, k)) for k in (axis, f'min_{axis}', f'max_{axis}'))
            sec.add(sx.line('abs', bs, pa, pb, ba, bb, size, mn, mx), docs.outcome(call),
                    meta={'args': [bs] + [atom(v) for v in (pa, pb, ba, bb, size, mn, mx)], 'axis': axis},
                    nontrivial=bs != 'content-box', tags=[bs, axis])

        sec = run.section('resolve', 'percent.resolve_percentages on real BlockBox / PageBox with box or tuple '
                          'containing blocks, auto and fixed containing-block heights; non-trivial = a percentage '
                          'or a non-content box-sizing')
        for i in range(run.n(5000, 80000)):
            adversarial = rng.random() < .12
            st = gen_style(rng, adversarial)
            is_page = rng.random() < .15
            cb_form = rng.choice(['box', 'tuple'])
            cbw = nonneg(rng)
            cbh = nonneg(rng) if (is_page or rng.random() < .5) else 'auto'
            out = run_resolve(st, is_page, cb_form, cbw, cbh)
            sec.add(sx.line('rp', is_page, style_wire(st), cbw, cbh), out,
                    meta={'st': {k: (sx.dumps(v)) for k, v in st.items()}, 'page': is_page, 'cb': cb_form,
                          'cbw': atom(cbw), 'cbh': atom(cbh)},
                    nontrivial=any(isinstance(st[k], list) and st[k][0] == 'pct' for k in STYLE_KEYS)
                    or st['box_sizing'] != 'content-box',
                    tags=['page' if is_page else 'block', 'cbh-auto' if cbh == 'auto' else 'cbh-fixed',
                          st['box_sizing']])

        sec = run.section('resolve-collapse', 'percent.resolve_percentages with border-collapse: collapse and border '
                          'widths pre-set on the box (border conflict resolution of tables): pre-set ones are kept; '
                          'non-trivial = at least one pre-set side with collapse')
        for i in range(run.n(1500, 20000)):
            st = gen_style(rng, False)
            collapse = rng.random() < .7
            presets = [nonneg(rng) if rng.random() < .5 else None for _ in range(4)]   # top right bottom left
            cbw = nonneg(rng)
            cbh = nonneg(rng) if rng.random() < .5 else 'auto'
            real = style_real(st)
            real['border_collapse'] = 'collapse' if collapse else 'separate'
            box = boxes.BlockBox('td', real, None, [])
            for side, v in zip(('top', 'right', 'bottom', 'left'), presets):
                if v is not None:
                    setattr(box, f'border_{side}_width', v)

            def call():
                percent.resolve_percentages(box, (cbw, cbh))
                return ' '.join(atom(getattr(box, k)) for k in USED_KEYS)
            sec.add(sx.line('rpc', False, collapse, *presets, style_wire(st), cbw, cbh), docs.outcome(call),
                    meta={'st': {k: sx.dumps(v) for k, v in st.items()}, 'collapse': collapse,
                          'presets': [None if v is None else atom(v) for v in presets], 'cbw': atom(cbw),
                          'cbh': atom(cbh)},
                    nontrivial=collapse and any(v is not None for v in presets),
                    tags=['collapse' if collapse else 'separate', f'preset{sum(v is not None for v in presets)}'])

        sec = run.section('position-percentages', 'percent.resolve_position_percentages (left/right against the width, '
                          'top/bottom against the height); non-trivial = a percentage')
        for i in range(run.n(1500, 20000)):
            dims = [gen_dimq(rng, bad=.03) for _ in range(4)]
            cbw, cbh = nonneg(rng), nonneg(rng)
            box = boxes.BlockBox('div', dict(zip(('left', 'right', 'top', 'bottom'), map(dim_real, dims))), None, [])

            def call():
                percent.resolve_position_percentages(box, (cbw, cbh))
                return ' '.join(atom(getattr(box, k)) for k in ('left', 'right', 'top', 'bottom'))
            sec.add(sx.line('rpos', *dims, cbw, cbh), docs.outcome(call),
                    meta={'dims': [sx.dumps(d) for d in dims], 'cbw': atom(cbw), 'cbh': atom(cbh)},
                    nontrivial=any(isinstance(d, list) and d[0] == 'pct' for d in dims),
                    tags=[d if isinstance(d, str) else d[0] for d in dims])

        sec = run.section('radii', 'percent.resolve_radii_percentages on a real BlockBox (0px short track, removed '
                          'decoration sides, percentages against the border box); one case per corner; non-trivial = '
                          'a percentage radius on a kept corner')
        for i in range(run.n(800, 12000)):
            vals = [nonneg(rng) for _ in range(12)]
            box = boxes.BlockBox('div', {}, None, [])
            (box.width, box.height, box.padding_left, box.padding_right, box.padding_top, box.padding_bottom,
             box.border_left_width, box.border_right_width, box.border_top_width, box.border_bottom_width) = vals[:10]
            removed = {side for side in ('top', 'right', 'bottom', 'left') if rng.random() < .15}
            box.remove_decoration_sides = set(removed)
            def radius():
                r = rng.random()
                return (['px', F(0)] if r < .15 else ['px', nonneg(rng)] if r < .5 else
                        ['unit', 'em'] if r < .53 else
                        ['pct', rng.choice([F(0), F(50), F(100), F(25, 2), nonneg(rng)])])
            bw, bh = box.border_width(), box.border_height()
            names = ('top_left', 'top_right', 'bottom_right', 'bottom_left')
            for corner in names:
                rx, ry = radius(), radius()
                zero = dim_real(['px', F(0)])
                for other in names:     # the other corners take the 0px short track
                    box.style[f'border_{other}_radius'] = (zero, zero)
                box.style[f'border_{corner}_radius'] = (dim_real(rx), dim_real(ry))
                gone = any(side in removed for side in corner.split('_'))

                def call():
                    percent.resolve_radii_percentages(box)
                    return ' '.join(atom(v) for v in getattr(box, f'border_{corner}_radius'))
                sec.add(sx.line('radius', rx, ry, gone, bw, bh), docs.outcome(call),
                        meta={'rx': sx.dumps(rx), 'ry': sx.dumps(ry), 'gone': gone, 'bw': atom(bw), 'bh': atom(bh)},
                        nontrivial=not gone and 'pct' in (rx[0], ry[0]),
                        tags=['removed' if gone else 'kept', rx[0], ry[0]])

        sec = run.section('width', 'block.block_level_width without min/max: 8 auto patterns x ltr/rtl x box/tuple '
                          'containing block x is_column; non-trivial = not (all three auto-free and fitting)')
        sec_mm = run.section('width-minmax', 'block.block_level_width (decorated by handle_min_max_width); '
                             'non-trivial = a min or max constraint fired')
        for i in range(run.n(12000, 200000)):
            adversarial = rng.random() < .15
            cbw = nonneg(rng) if adversarial else rng.choice([F(100), F(200), F(333), small(rng) * 4, F(0)])
            b = gen_abox(rng, adversarial, cbw)
            cb = ['box', cbw, rng.choice(['ltr', 'rtl'])] if rng.random() < .85 else ['tuple', cbw]
            pattern = ''.join('a' if b[k] == 'auto' else 'v' for k in ('ml', 'w', 'mr'))
            direction = cb[2] if cb[0] == 'box' else 'tuple'
            tags = [pattern, direction] + blw_branches(cbw, direction, b, b['w'])
            meta = {'cb': [cb[0], atom(cb[1])] + cb[2:], 'b': abox_meta(b)}
            out = run_width('blw', cb, b)
            sec.add(sx.line('blw', cb, abox_wire(b)), out, meta=dict(meta, cmd='blw'), nontrivial=True, tags=tags)
            r1 = parse_show(out) if not out.startswith('err:') else None
            out = run_width('blwmm', cb, b)
            r = parse_show(out) if not out.startswith('err:') else None
            fired = bool(r) and b['w'] != r['w'] and (r['w'] == b['min'] or r['w'] == b['max'])
            mm_tags = []
            if r1 and r:        # which passes of the wrapper ran (mirrors Model.BoxModel.handleMinMaxWidth)
                over_max = r1['w'] > b['max']
                w2 = b['max'] if over_max else r1['w']
                under_min = w2 < b['min']
                mm_tags = [('pass:max+min' if under_min else 'pass:max') if over_max else
                           ('pass:min' if under_min else 'pass:none')]
                last_w = b['w'] if not (over_max or under_min) else r['w']
                mm_tags += ['last:' + t for t in blw_branches(cbw, direction, b, last_w)]
            sec_mm.add(sx.line('blwmm', cb, abox_wire(b)), out, meta=dict(meta, cmd='blwmm'), nontrivial=fired,
                       tags=[pattern, direction] + mm_tags)

        sec = run.section('page', 'page.page_width_or_height (HorizontalBox and VerticalBox), page_width, page_height '
                          '(handle_min_max_height); non-trivial = at least one auto among margins and size')
        for i in range(run.n(4000, 60000)):
            adversarial = rng.random() < .15
            cbw = nonneg(rng) if adversarial else rng.choice([F(100), F(200), F(333), small(rng) * 4])
            b = gen_abox(rng, adversarial, cbw)
            b['col'] = False
            for cmd, wire_cmd in (('pwh', 'pwh'), ('pwv', 'pwh'), ('pw', 'pw'), ('ph', 'ph')):
                out = run_width(cmd, cbw, b)
                sec.add(sx.line(wire_cmd, cbw, abox_wire(b)), out,
                        meta={'cmd': cmd, 'cb': atom(cbw), 'b': abox_meta(b)},
                        nontrivial='auto' in (b['ml'], b['mr'], b['w']), tags=[cmd])

        sec = run.section('wrappers', 'min_max.handle_min_max_width / handle_min_max_height around a function that '
                          'does nothing (auto size -> TypeError), handle_min_max_width around a function that moves '
                          'the box (position_x += d: one shift in all, whatever the number of passes) and on a box '
                          'without position_x; non-trivial = a constraint fired')
        for i in range(run.n(2000, 30000)):
            b = gen_abox(rng, False, rng.choice([F(100), F(200)]))
            b['col'] = False
            fired = b['w'] != 'auto' and (b['w'] > b['max'] or b['w'] < b['min'])
            for cmd in ('idw', 'idh'):
                out = run_width(cmd, None, b)
                sec.add(sx.line(cmd, abox_wire(b)), out, meta={'cmd': cmd, 'cb': None, 'b': abox_meta(b)},
                        nontrivial=fired, tags=[cmd])
            # the position_x bookkeeping of handle_min_max_width: a wrapped function that moves the box, and a
            # box that has no position_x yet
            d = rng.choice([small(rng), -small(rng), F(1)])
            passes = 1
            if b['w'] != 'auto':
                w2 = b['max'] if b['w'] > b['max'] else b['w']
                passes += (b['w'] > b['max']) + (w2 < b['min'])
            sec.add(sx.line('shw', d, abox_wire(b)), run_shift(d, b),
                    meta={'cmd': 'shw', 'd': atom(d), 'cb': None, 'b': abox_meta(b)}, nontrivial=fired,
                    tags=['shw', f'shw:pass{passes}'])
            sec.add(sx.line('idwn', abox_wire(b)), run_nox(b), meta={'cmd': 'idwn', 'cb': None, 'b': abox_meta(b)},
                    nontrivial=fired, tags=['idwn'])

        sec = run.section('box-geometry', 'the twelve geometry helpers of boxes.Box (padding/border/margin width and '
                          'height, content/padding/border box x and y) on a real BlockBox; non-trivial = always')
        for i in range(run.n(2000, 30000)):
            vals = [rat(rng) for _ in EDGE_KEYS]
            sec.add(sx.line('edges', vals), run_edges(vals), meta={'vals': [atom(v) for v in vals]})

        sec = run.section('decoration', 'ParentBox.remove_decoration on a real BlockBox, InlineBox.remove_decoration on a '
                          'real InlineBox (ltr / rtl), _reset_spacing: 1-3 successive calls with every (start, end), '
                          'box-decoration-break slice / clone, sides already removed: the sixteen used values and '
                          'remove_decoration_sides afterwards; non-trivial = a side is cut')
        for i in range(run.n(1500, 20000)):
            vals = [rat(rng) for _ in EDGE_KEYS]
            sides = [s for s in SIDES if rng.random() < .15]
            clone, ltr = rng.random() < .25, rng.random() < .5
            kind = rng.choice(['parent', 'parent', 'inline', 'inline', 'reset'])
            if kind == 'reset':
                calls = [rng.choice(SIDES)]
            else:
                calls = [(rng.random() < .5, rng.random() < .5) for _ in range(rng.choice([1, 1, 2, 3]))]
            cutting = kind == 'reset' or (not clone and any(c[0] or c[1] for c in calls))
            sec.add(deco_line(kind, clone, ltr, vals, sides, calls), run_deco(kind, clone, ltr, vals, sides, calls),
                    meta={'kind': kind, 'clone': clone, 'ltr': ltr, 'vals': [atom(v) for v in vals], 'sides': sides,
                          'calls': [c if kind == 'reset' else list(c) for c in calls]},
                    nontrivial=cutting,
                    tags=[kind, 'clone' if clone else 'slice', 'ltr' if ltr else 'rtl', f'calls{len(calls)}'] +
                    (['presides'] if sides else []))

        sec = run.section('translate', 'Box.translate(dx, dy, ignore_floats) on real trees of BlockBoxes (depth <= 3, '
                          'floated children): every position afterwards; non-trivial = a child exists')
        for i in range(run.n(1500, 20000)):
            t = gen_etree(rng, rng.choice([0, 1, 2, 3]))
            dx, dy = rng.choice([(F(0), F(0)), (rat(rng), F(0)), (F(0), rat(rng)), (rat(rng), rat(rng))])
            ignore = rng.random() < .5
            sec.add(sx.line('translate', dx, dy, ignore, t), run_translate(dx, dy, ignore, t),
                    meta={'dx': atom(dx), 'dy': atom(dy), 'ignore': ignore, 't': etree_meta(t)},
                    nontrivial=bool(t[3]), tags=['ignore' if ignore else 'all', 'zero' if dx == dy == 0 else 'move'])

        from harness import pm_corr
        sec = run.section('stacking', 'one-page block/paragraph documents biased to margin collapsing (empty blocks '
                          'with height auto/0, negative margins, nested first/last children, min-height, separating '
                          'padding/border) laid out by the real pipeline: position_y, used margins, paddings, '
                          'borders, height of every box and the y of every line against the pagination model; '
                          'non-trivial = always (pm_corr counts pages >= 2 only)')
        pm_corr.add_cases(run, sec, run.n(350, 10000), gen=gen_collapse_doc, skip_errors=False)

        sec = run.section('shrink-to-fit', 'documents with one float or inline-block holding words of the fixed-pitch '
                          'font (min-content = longest word, max-content = the whole line), with margins / borders / '
                          'paddings / width / min / max: used margins and width of the real box against the model of '
                          'float_layout / inline_block_box_layout (shrink_to_fit + handle_min_max_width); '
                          'non-trivial = auto width')
        for i in range(run.n(300, 8000)):
            case = gen_shrink_case(rng)
            out, _ = run_shrink(case)
            b = case['box']
            sec.add(shrink_line(case), out, meta=shrink_meta(case), nontrivial=b['w'] == 'auto',
                    tags=[case['kind'], 'w-auto' if b['w'] == 'auto' else 'w-fixed',
                          'max' if b['max'] != INF else 'no-max', 'min' if b['min'] else 'no-min'])

        from harness import c05_used
        sec = run.section('used-values', 'wide-grammar documents (harness/widegen.py: tables, floats, columns, flex, grid, '
                          'lists, positioned boxes, footnotes, page breaks; rtl and roomier pages mixed in): per page, '
                          'the used values of every box are exported and checked by the verified Lean checker '
                          '(Model/UsedCheck.lean: non-negative sizes, min/max, start/end edge, width equation, stacking, '
                          'containment); the implementation side is the constant claim "ok"; non-trivial = a page with '
                          'at least 3 flow boxes')
        used_stats = collections.Counter()
        for k in range(run.n(90, 2000)):
            for case in c05_used.wide_cases(rng, adversarial=(k % 4 == 3)):
                if case[0] is None:
                    sec.tags['render-error (C02)'] += 1
                    continue
                line, meta, tags, stats = case
                used_stats.update(stats)
                sec.add(line, 'ok', meta=meta, nontrivial=stats['flow'] >= 3, tags=tags)
        run.extra['used_values_boxes'] = dict(used_stats)

        sec = run.section('sibling-collapse', 'two siblings of 13 x 13 kinds (plain block, paragraph, fixed height, '
                          'multi-column container, table, flex, grid, list, bordered, float first, new formatting context, '
                          'inline-block line, plain wrapper whose child margin joins) separated by 0-2 empty blocks: '
                          'the distance between their border boxes in the rendered document against collapse_margin '
                          'of all the margins that adjoin (clause h across the containers laid out by columns_layout, '
                          'table / flex / grid layout); non-trivial = at least one positive and one negative margin '
                          'or an empty block in between; margins are non-negative after a box holding a float (CSS 9.5 moves a '
                          'new formatting context clear of floats)')
        for i in range(run.n(150, 4000)):
            case = gen_sibling_case(rng)
            ms = [F(m) for m in case['ms']]
            impl = docs.outcome(lambda: atom(sibling_distance(case['html'])))
            sec.add(sx.line('collapse', ms), impl,
                    meta={'as': 'sibling-distance', 'name': case['name'], 'html': SIBLING_HEAD + case['html'],
                          'ms': [atom(m) for m in ms]},
                    nontrivial=len(ms) > 2 or (any(m > 0 for m in ms) and any(m < 0 for m in ms)),
                    tags=[f'a:{case["kinds"][0]}', f'b:{case["kinds"][1]}', f'margins{min(len(ms), 6)}'])

        sec = run.section('wrapper', 'metamorphic pair "neutral wrapper div": wide-grammar and position-sensitive '
                          'documents on one tall page, rendered with and without a plain <div> around the content of '
                          '<body>: the subtree of <body> against the subtree of the wrapper through the verified '
                          'comparator (Model/UsedShift.lean, translation (0, 0)): same shape, every box where it was, '
                          'the wrapper with the geometry of <body>; the implementation side is the constant claim '
                          '"ok"; non-trivial = at least 3 boxes')
        for k in range(run.n(40, 900)):
            for line, impl, meta, tags, stats in c05_used.wrap_cases(rng, adversarial=(k % 4 == 3),
                                                                    probe=(k % 3 == 2)):
                if line is None:
                    sec.tags['render-error (C02)'] += 1
                    continue
                sec.add(line, impl, meta=meta, nontrivial=sum(stats.values()) >= 3, tags=tags)

        sec = run.section('translation', 'metamorphic pair "uniform translation" on wide-grammar documents '
                          '(harness/widegen.py, rtl mixed in; one in three is a small document of position-sensitive '
                          'constructs: empty / zero-height floats, clearance, absolute / fixed / relative boxes with '
                          'auto and explicit offsets): each document is rendered twice, the second time with '
                          'the page area moved by (dx, dy) (page size and left / top page margins grown); per page, '
                          'the two trees of used values go to the verified comparator (Model/UsedShift.lean: same '
                          'shape, every box moved by exactly (dx, dy), sizes / margins / paddings / borders kept); '
                          'the implementation side is the constant claim "ok"; non-trivial = a page with at least 3 '
                          'boxes')
        shift_stats = collections.Counter()
        for k in range(run.n(60, 900)):
            for line, impl, meta, tags, stats in c05_used.shift_cases(rng, adversarial=(k % 4 == 3),
                                                                     probe=(k % 3 == 2)):
                if line is None:
                    sec.tags['render-error (C02)'] += 1
                    continue
                shift_stats.update(stats)
                sec.add(line, impl, meta=meta, nontrivial=sum(stats.values()) >= 3, tags=tags)
        run.extra['translation_boxes'] = dict(shift_stats)

        sec = run.section('documents', 'random trees of block divs (html > body > divs, depth <= 5) with margin / '
                          'padding / border / width / height / min / max / box-sizing from {auto, 0, px, %, em}, '
                          'ltr and rtl, page box with margins/padding/border/width: every box\'s position_x, '
                          'horizontal and vertical used values, final height when determinate; non-trivial = at '
                          'least 3 blocks below body')
        sec_v = run.section('documents-full', 'the same documents, full geometry: position_x, position_y, used '
                            'margins / paddings / borders, width and used height of every box against the '
                            'composition of the block-tree model (horizontal, used values) with the pagination '
                            'model (vertical: stacking, margin collapsing, auto heights) — Model/BlockTreeV.lean; '
                            'non-trivial = at least 3 blocks below body, one of them with a non-zero vertical '
                            'margin')
        n_boxes = 0
        for i in range(run.n(1200, 20000)):
            doc = gen_doc(rng)
            full = []
            try:
                res = real_geometry(doc, full)
                out = res if isinstance(res, str) else res[0]
                count = 0 if isinstance(res, str) else len(res[2])
                out_v = res if isinstance(res, str) else ' '.join(full)
                margins = 0 if isinstance(res, str) else sum(
                    1 for b, _ in res[2] if b.margin_top != 0 or b.margin_bottom != 0)
                negative = (not isinstance(res, str)) and any(
                    b.margin_top < 0 or b.margin_bottom < 0 for b, _ in res[2])
            except Exception as exc:  # noqa: BLE001
                out, count, margins, negative = f'err:{type(exc).__name__}', 0, 0, False
                out_v = out
            n_boxes += count
            sec.add(doc_line(doc), out, meta={'doc': doc_meta(doc)}, nontrivial=count >= 5,
                    tags=[f'blocks{min(count // 4 * 4, 24)}', doc['root'][0]['dir']])
            sec_v.add(doc_line(doc, 'docv'), out_v, meta={'doc': doc_meta(doc)},
                      nontrivial=count >= 5 and margins > 0,
                      tags=[f'blocks{min(count // 4 * 4, 24)}', f'margins{min(margins, 6)}'] +
                      (['negative-margin'] if negative else []))
        run.extra['document_boxes_compared'] = n_boxes
        run.extra['branches_never_hit'] = {
            sec_.name: missing for sec_ in run.sections
            if (missing := [t for t in EXPECTED_TAGS.get(sec_.name, ()) if not sec_.tags.get(t)])}

    # ---------------------------------------------------------------------------------------------
    def classify(self, d):
        if (d.get('meta') or {}).get('as', d['section']) == 'used-values':
            from harness import c05_used
            return c05_used.classify(d['meta'], d['line'], d['model'])
        return None

    def judge(self, d):
        meta = d.get('meta') or {}
        section, impl = meta.get('as', d['section']), d['impl']
        if section == 'translation':
            from harness import c05_used
            if impl != 'ok' or d['model'].startswith('bad '):
                return f'page {meta["page_index"]}: ' + c05_used.explain_shift(d['line'], impl, d['model'])
            return None
        if section == 'wrapper':
            from harness import c05_used
            if impl != 'ok' or d['model'].startswith('bad '):
                return c05_used.explain_wrap(d['line'], impl, d['model'])
            return None
        if section == 'sibling-distance':
            return clause_sibling(meta, impl)
        if section == 'render':
            return f'rendering a corpus document raised {impl}'
        if section == 'used-values':
            from harness import c05_used
            if d['model'].startswith('bad '):
                return f'page {meta["page_index"]}: ' + c05_used.explain_row(d['line'], d['model'])
            return None
        if section == 'collapse':
            ms = [F(m) for m in meta['ms']]
            return clause_collapse(ms, impl if impl.startswith('err:') else F(impl))
        if section == 'percentage':
            dd = sx.loads_line(meta['d'])[0]
            dd = dd if isinstance(dd, str) else [dd[0], dec(dd[1]) if dd[0] != 'unit' else dd[1]]
            return clause_percentage(dd, dec(meta['ref']), impl)
        if section == 'box-sizing':
            a = meta['args']
            return clause_box_sizing(a[0], *[dec(v) for v in a[1:]], impl)
        if section == 'resolve':
            st = _style_from_meta(meta['st'])
            return clause_resolve(st, meta['page'], dec(meta['cbw']), dec(meta['cbh']), impl)
        if section in ('width', 'width-minmax', 'page', 'wrappers'):
            b = abox_from_meta(meta['b'])
            cb = meta['cb']
            cb = None if cb is None else dec(cb) if isinstance(cb, str) else [cb[0], dec(cb[1])] + cb[2:]
            cmd = meta['cmd']
            if cmd in ('shw', 'idwn'):
                return clause_shift(cmd, F(meta.get('d', 0)), b, impl)
            r = clause_width({'pwv': 'pwh'}.get(cmd, cmd), cb, b, impl)
            return r[0] if r and r[1] is None else None
        if section == 'shrink-to-fit':
            r = clause_shrink(shrink_from_meta(meta), impl)
            return r[0] if r and r[1] is None else None
        if section == 'position-percentages':
            return clause_position(meta, impl)
        if section == 'radii':
            return clause_radius(meta, impl)
        if section == 'resolve-collapse':
            return clause_collapse_borders(meta, impl)
        if section == 'stacking':
            from harness import pm_corr
            return clause_stacking(pm_corr.doc_from_json(meta['doc']), impl)
        if section == 'decoration':
            return clause_deco(meta['kind'], meta['clone'], meta['ltr'], [F(v) for v in meta['vals']], meta['sides'],
                               [c if meta['kind'] == 'reset' else tuple(c) for c in meta['calls']], impl)
        if section == 'box-geometry':
            return clause_edges([F(v) for v in meta['vals']], impl)
        if section == 'translate':
            return clause_translate(F(meta['dx']), F(meta['dy']), meta['ignore'], etree_from_meta(meta['t']), impl)
        if section == 'documents':
            r = doc_oracle(doc_from_meta(meta['doc']))
            if r and r[1] is None:
                return r[0]
        if section == 'documents-full':
            r = doc_oracle(doc_from_meta(meta['doc']))
            if r and r[1] is None:
                return r[0]
            return doc_oracle_v(doc_from_meta(meta['doc']))
        return None

    # ---------------------------------------------------------------------------------------------
    def search(self, run, failures):
        """Clauses stated directly on the real functions, then on rendered documents."""
        docs.quiet()
        rng = run.rng
        _, boxes, block, min_max, page, percent = mods()
        found = []

        known = {f['id'] for f in findings.for_property(self.id)}

        def add(what, inp, sig, finding_id=None):
            if finding_id in known:
                return False
            found.append({'what': what, 'input': inp, 'signature': sig, 'finding_id': finding_id})
            return len(found) >= 3

        for fid in REGRESSION_PROBES:
            run.search_stats['evaluations'] += 1
            what = probe_regression(fid)
            if what and add(what, {'section': 'regression-probe', 'meta': {'id': fid}}, f'regression/{fid}'):
                return found
        for i in range(3000):
            run.search_stats['evaluations'] += 1
            ms = [rat(rng) for _ in range(rng.choice([0, 1, 2, 3, 5]))]
            res = docs.outcome(lambda: block.collapse_margin(list(ms)))
            what = clause_collapse(ms, res)
            if what and add(what, {'section': 'collapse', 'meta': {'ms': [atom(m) for m in ms]}}, f'collapse/{ms}'):
                return found
        for i in range(4000):
            run.search_stats['evaluations'] += 1
            cbw = rng.choice([F(100), F(200), small(rng) * 4])
            b = gen_abox(rng, False, cbw)
            cb = ['box', cbw, rng.choice(['ltr', 'rtl'])]
            for cmd in ('blw', 'blwmm', 'pw', 'ph'):
                cba = cb if cmd.startswith('blw') else cbw
                bb = dict(b, col=False) if not cmd.startswith('blw') else b
                res = clause_width(cmd, cba, bb, run_width(cmd, cba, bb))
                if res and add(res[0], {'section': 'width', 'meta': {
                        'cmd': cmd, 'cb': ([cb[0], atom(cb[1]), cb[2]] if cmd.startswith('blw') else atom(cbw)),
                        'b': abox_meta(bb)}}, f'{cmd}/{res[0][:40]}', res[1]):
                    return found
        for i in range(2000):
            run.search_stats['evaluations'] += 1
            st = gen_style(rng, False)
            is_page = rng.random() < .15
            cbw = nonneg(rng)
            cbh = nonneg(rng) if (is_page or rng.random() < .5) else 'auto'
            what = clause_resolve(st, is_page, cbw, cbh, run_resolve(st, is_page, 'box', cbw, cbh))
            if what and add(what, {'section': 'resolve', 'meta': {
                    'st': {k: sx.dumps(v) for k, v in st.items()}, 'page': is_page, 'cb': 'box', 'cbw': atom(cbw),
                    'cbh': atom(cbh)}}, f'resolve/{what[:30]}'):
                return found
        for i in range(1000):
            run.search_stats['evaluations'] += 1
            vals = [rat(rng) for _ in EDGE_KEYS]
            what = clause_edges(vals, run_edges(vals))
            if what and add(what, {'section': 'box-geometry', 'meta': {'vals': [atom(v) for v in vals]}},
                            f'edges/{what[:20]}'):
                return found
            t = gen_etree(rng, 2)
            dx, dy, ignore = rat(rng), rat(rng), rng.random() < .5
            what = clause_translate(dx, dy, ignore, t, run_translate(dx, dy, ignore, t))
            if what and add(what, {'section': 'translate', 'meta': {
                    'dx': atom(dx), 'dy': atom(dy), 'ignore': ignore, 't': etree_meta(t)}}, 'translate'):
                return found
        from harness import pm, pm_corr
        for i in range(400):
            run.search_stats['evaluations'] += 1
            pdoc = gen_collapse_doc(rng)
            what = clause_stacking(pdoc, pm_corr.real_line(pdoc))
            if what and add(what, {'section': 'stacking', 'html': pm.doc_html(pdoc),
                                   'meta': {'doc': pm_corr.doc_json(pdoc)}}, f'stacking/{what[:30]}'):
                return found
        if found:
            return found
        for i in range(150):
            run.search_stats['evaluations'] += 1
            doc = gen_doc(rng)
            r = doc_oracle(doc)
            if r and add(r[0], {'section': 'documents', 'html': doc_html(doc), 'meta': {'doc': doc_meta(doc)}},
                         f'doc/{r[0][:40]}', r[1]):
                return found
            what = None if r else doc_oracle_v(doc)
            if what and add(what, {'section': 'documents-full', 'html': doc_html(doc),
                                   'meta': {'doc': doc_meta(doc)}}, f'docv/{what[:40]}'):
                return found
        return found

    # ---------------------------------------------------------------------------------------------
    def finding_replays(self):
        return {'stored-margin-right': finding_stored_margin_right,
                'empty-block-negative-margin-height': finding_empty_block_height,
                'zero-percent-height-auto-cb': finding_zero_percent,
                'first-line-overflow-margin-hack': finding_first_line_hack,
                'table-row-group-negative-height': finding_table_row_group,
                'empty-fragment-below-page-bottom': finding_empty_fragment,
                'empty-first-child-above-parent': finding_empty_first_child}

    def replay(self, data):
        inp = data.get('input', {})
        meta = inp.get('meta') or {}
        section = meta.get('as') or inp.get('section')
        if section == 'regression-probe':
            return probe_regression(meta['id'])
        if section == 'wrapper':
            from harness import c05_used
            from vlib import lean
            docs.quiet()
            res = c05_used.wrap_line(meta['html'])
            if res is None:
                return None
            if isinstance(res, str):
                return c05_used.explain_wrap('', res, '')
            out = lean.run_driver(self.driver, [res[0]])[0]
            return c05_used.explain_wrap(res[0], 'ok', out) if out.startswith('bad ') else None
        if section == 'translation':
            from harness import c05_used
            from vlib import lean
            docs.quiet()
            pages = c05_used.shift_lines(meta['html'], meta['dx'], meta['dy'])
            if isinstance(pages, str):
                return c05_used.explain_shift(sx.line('shifted', 0, meta['dx'], meta['dy'], [], []), pages, '')
            if meta['page_index'] >= len(pages):
                return None
            line = pages[meta['page_index']][0]
            out = lean.run_driver(self.driver, [line])[0]
            if out.startswith('bad '):
                return f'page {meta["page_index"]}: ' + c05_used.explain_shift(line, 'ok', out)
            return None
        if section == 'sibling-distance':
            docs.quiet()
            html = meta['html'][len(SIBLING_HEAD):]
            return clause_sibling(meta, docs.outcome(lambda: atom(sibling_distance(html))))
        if section == 'used-values':
            from harness import c05_used
            from vlib import lean
            docs.quiet()
            document = docs.render(meta['html'])
            pages = c05_used.page_lines(document)
            if meta['page_index'] >= len(pages):
                return None
            line = pages[meta['page_index']][0]
            out = lean.run_driver(self.driver, [line])[0]
            info = dict(meta, **c05_used.page_info(document.pages[meta['page_index']]))
            if out.startswith('bad ') and c05_used.classify(info, line, out) is None:
                return f'page {meta["page_index"]}: ' + c05_used.explain_row(line, out)
            return None
        if section == 'collapse':
            _, _, block, _, _, _ = mods()
            ms = [F(m) for m in meta['ms']]
            return clause_collapse(ms, docs.outcome(lambda: block.collapse_margin(list(ms))))
        if section == 'percentage':
            percent = mods()[5]
            dd = sx.loads_line(meta['d'])[0]
            dd = dd if isinstance(dd, str) else [dd[0], dec(dd[1]) if dd[0] != 'unit' else dd[1]]
            ref = dec(meta['ref'])

            def call():
                res = percent.percentage(dim_real(dd), ref)
                return 'none' if res is None else atom(res)
            return clause_percentage(dd, ref, docs.outcome(call))
        if section == 'box-sizing':
            boxes, percent = mods()[1], mods()[5]
            a = meta['args']
            bs, (pa, pb, ba, bb, size, mn, mx) = a[0], [dec(v) for v in a[1:]]
            box = boxes.BlockBox('div', {'box_sizing': bs}, None, [])
            box.padding_left, box.padding_right, box.border_left_width, box.border_right_width = pa, pb, ba, bb
            box.width, box.min_width, box.max_width = size, mn, mx

            def call():
                percent.adjust_box_sizing(box, 'width')
                return ' '.join(atom(getattr(box, k)) for k in ('width', 'min_width', 'max_width'))
            return clause_box_sizing(bs, pa, pb, ba, bb, size, mn, mx, docs.outcome(call))
        if section == 'resolve':
            st = _style_from_meta(meta['st'])
            cbw, cbh = dec(meta['cbw']), dec(meta['cbh'])
            return clause_resolve(st, meta['page'], cbw, cbh, run_resolve(st, meta['page'], meta['cb'], cbw, cbh))
        if section in ('width', 'width-minmax', 'page', 'wrappers'):
            b = abox_from_meta(meta['b'])
            cb = meta['cb']
            cb = None if cb is None else dec(cb) if isinstance(cb, str) else [cb[0], dec(cb[1])] + cb[2:]
            cmd = meta['cmd']
            if cmd in ('shw', 'idwn'):
                d = F(meta.get('d', 0))
                return clause_shift(cmd, d, b, run_shift(d, b) if cmd == 'shw' else run_nox(b))
            r = clause_width({'pwv': 'pwh'}.get(cmd, cmd), cb, b, run_width(cmd, cb, b))
            return r[0] if r else None
        if section == 'shrink-to-fit':
            case = shrink_from_meta(meta)
            r = clause_shrink(case, run_shrink(case)[0])
            return r[0] if r else None
        if section == 'position-percentages':
            return clause_position(meta, rerun_position(meta))
        if section == 'radii':
            return clause_radius(meta, rerun_radius(meta))
        if section == 'resolve-collapse':
            return clause_collapse_borders(meta, rerun_collapse(meta))
        if section == 'stacking':
            from harness import pm_corr
            doc = pm_corr.doc_from_json(meta['doc'])
            return clause_stacking(doc, pm_corr.real_line(doc))
        if section == 'decoration':
            vals = [F(v) for v in meta['vals']]
            calls = [c if meta['kind'] == 'reset' else tuple(c) for c in meta['calls']]
            return clause_deco(meta['kind'], meta['clone'], meta['ltr'], vals, meta['sides'], calls,
                               run_deco(meta['kind'], meta['clone'], meta['ltr'], vals, meta['sides'], calls))
        if section == 'box-geometry':
            vals = [F(v) for v in meta['vals']]
            return clause_edges(vals, run_edges(vals))
        if section == 'translate':
            dx, dy, t = F(meta['dx']), F(meta['dy']), etree_from_meta(meta['t'])
            return clause_translate(dx, dy, meta['ignore'], t, run_translate(dx, dy, meta['ignore'], t))
        if section == 'documents':
            r = doc_oracle(doc_from_meta(meta['doc']))
            return r[0] if r else None
        if section == 'documents-full':
            r = doc_oracle(doc_from_meta(meta['doc']))
            return r[0] if r else doc_oracle_v(doc_from_meta(meta['doc']))
        return None


def _style_from_meta(m):
    st = {}
    for k, v in m.items():
        parsed = sx.loads_line(v)[0]
        if isinstance(parsed, list):
            st[k] = [parsed[0], dec(parsed[1]) if parsed[0] != 'unit' else parsed[1]]
        elif k in BORDER_KEYS:
            st[k] = dec(parsed)
        else:
            st[k] = parsed
    return st


def finding_stored_margin_right():
    """F20: `width:50px; margin:0` in a 100px ltr containing block: the stored margin_right stays 0, so the
    literal equation of clause (b) is false (50 != 100); the geometry is the CSS one."""
    b = {'ml': F(0), 'mr': F(0), 'pl': F(0), 'pr': F(0), 'bl': F(0), 'br': F(0), 'w': F(50), 'min': F(0),
         'max': INF, 'x': F(0), 'col': False}
    r = parse_show(run_width('blwmm', ['box', F(100), 'ltr'], b))
    return r['ml'] + r['w'] + r['mr'] != 100


def finding_rtl_accumulates():
    """rtl containing block of 100px, child `width:200px; max-width:50px`: block_level_width runs twice (min/max
    re-entry); the box must end at x = 50 (it was -50 while position_x was shifted by both passes; repaired in
    /repo 165e254)."""
    b = {'ml': F(0), 'mr': F(0), 'pl': F(0), 'pr': F(0), 'bl': F(0), 'br': F(0), 'w': F(200), 'min': F(0),
         'max': F(50), 'x': F(0), 'col': False}
    r = parse_show(run_width('blwmm', ['box', F(100), 'rtl'], b))
    return r['x'] + r['ml'] + r['w'] + r['mr'] != 100


RELAYOUT_DOC = (
    '<style>@page{size:200px 100px;margin:0}html,body{margin:0}</style>'
    '<div style="direction:rtl;width:100px"><div style="height:60px"></div>'
    '<div id=c style="width:50px;padding-bottom:20px"><div style="height:20px"></div>'
    '<div style="height:20px"></div></div></div>')


def finding_rtl_relayout():
    """rtl parent of 100px; the child `width:50px; padding-bottom:20px` has two 20px children and its padding
    crosses the page bottom: `_in_flow_layout` lays the child out a second time (block.py, border_page_overflow);
    the fragment must stay at x = 50 (it was 100, outside its containing block [0, 100], while position_x was not
    restored before the second layout; repaired in /repo 7b9d21e)."""
    docs.quiet()
    document = docs.render(RELAYOUT_DOC)
    for box in document.pages[0]._page_box.descendants():
        if box.element is not None and box.element.get('id') == 'c':
            return box.position_x + box.margin_width() != 100
    return False


def finding_zero_percent():
    """`max-height: 0%` (and `height: 0%`) in an auto-height containing block: computed_values.length turns
    `0%` into `0px`, so the percentage is not treated as none / auto like `1%` is: the box gets height 0 although
    its content is 30px high."""
    docs.quiet()
    document = docs.render(
        '<style>@page{size:200px;margin:0}html,body{margin:0}</style><div>'
        '<div id=c style="max-height:0%"><div style="height:30px"></div></div>'
        '<div id=e style="max-height:1%"><div style="height:30px"></div></div></div>')
    heights = {box.element.get('id'): box.height for box in document.pages[0]._page_box.descendants()
               if box.element is not None and box.element.get('id')}
    return heights.get('c') != heights.get('e')


def _blocks(page):
    from weasyprint.formatting_structure import boxes
    return [b for b in page._page_box.descendants() if isinstance(b, (boxes.BlockBox, boxes.LineBox))]


def finding_first_line_hack():
    """A paragraph with a top margin whose first line does not fit on an empty page: `_linebox_layout` moves the
    line up by the margin and zeroes `margin_top`, but the margin was already counted in the adjoining margins:
    the paragraph (and every ancestor collapsing with it) stays 8px lower than its own line, with height 0."""
    docs.quiet()
    document = docs.render('<style>@page{size:100px 12px;margin:0}html,body{margin:0}'
                           'body{font-size:4px;line-height:6px}</style><p style="margin:8px 0">w</p>')
    from weasyprint.formatting_structure import boxes
    for box in _blocks(document.pages[0]):
        if isinstance(box, boxes.BlockBox) and box.element_tag == 'p':
            line = box.children[0]
            return line.position_y < box.content_box_y() or box.height < line.height
    return False


def finding_empty_fragment():
    """A 50px paragraph with a 13px bottom margin on a 60px page, followed by a block whose first child is a
    float: the first page gets an empty fragment of that block at y = 63, below the page bottom, of height -3."""
    docs.quiet()
    document = docs.render('<style>@page{size:60px 60px;margin:0}html,body{margin:0}body{font-size:10px;'
                           'line-height:12px}p{margin:0}</style><p style="height:50px;margin-bottom:13px">a</p>'
                           '<div id=d><div style="float:left">f</div><p>b</p></div>')
    return any(box.height < 0 for box in _blocks(document.pages[0]))


def finding_empty_first_child():
    """`<body>` (margin 0) holding an empty `<div>` then a div with `margin-top: 3px`: the 3px collapse through the
    empty div into the margin of <body>, whose border box moves down to y = 3; the empty div stays at y = 0, above
    the content box of its parent (CSS 2.1 8.3.1: its top border edge is the parent's)."""
    docs.quiet()
    document = docs.render('<style>@page{size:100px;margin:0}html,body{margin:0}</style>'
                           '<div id=e></div><div id=s style="margin-top:3px;height:10px"></div>')
    body = empty_div = None
    for box in document.pages[0]._page_box.descendants():
        if getattr(box, 'element', None) is not None:
            if box.element_tag == 'body':
                body = box
            elif box.element.get('id') == 'e':
                empty_div = box
    return body is not None and empty_div is not None and \
        empty_div.position_y + empty_div.margin_top < body.content_box_y()


def finding_table_row_group():
    """corpus/C05/table_row_group_negative_height.json: a table with rowspan=2 cells followed by an empty row,
    fragmented over 25px pages: a row group fragment gets height -1 (minus the border spacing)."""
    import json
    from vlib.paths import CORPUS
    from weasyprint.formatting_structure import boxes
    docs.quiet()
    html = json.loads((CORPUS / 'C05' / 'table_row_group_negative_height.json').read_text())['html']
    document = docs.render(html)
    return any(isinstance(box, (boxes.TableRowGroupBox, boxes.TableRowBox)) and box.height < 0
               for page in document.pages for box in page._page_box.descendants())


def _float_case(**box):
    base = {'ml': F(0), 'mr': F(0), 'pl': F(0), 'pr': F(0), 'bl': F(0), 'br': F(0), 'w': 'auto', 'min': F(0),
            'max': INF, 'x': F(0), 'col': False}
    base.update(box)
    return {'kind': 'float', 'fs': 10, 'words': [3, 3, 3, 3, 3, 3], 'cbw': F(100), 'box': base}


def finding_float_minmax():
    """`float:left; width:80px; max-width:50px` must be 50px wide (it stayed 80px; repaired in /repo 802b9d8)."""
    docs.quiet()
    out, _ = run_shrink(_float_case(w=F(80), max=F(50)))
    return out.startswith('ml=') and parse_show(out)['w'] > 50


def finding_float_extras():
    """`float:left; padding:0 10px` with wrapping text in a 100px block must fit (content box 80px; it was 100px, margin
    box 120px; repaired in /repo 8719f13)."""
    docs.quiet()
    out, _ = run_shrink(_float_case(pl=F(10), pr=F(10)))
    return out.startswith('ml=') and parse_show(out)['w'] + 20 > 100


def finding_empty_block_height():
    """An empty block that collapses through with a negative top margin gets height = -collapse_margin."""
    from harness import docs
    docs.quiet()
    document = docs.render('<style>html,body,p{margin:0}</style><p>a</p><div id="e" style="margin-top:-10px"></div><p>b</p>')
    for box in document.pages[0]._page_box.descendants():
        if getattr(box, 'element', None) is not None and box.element.get('id') == 'e':
            return box.height != 0
    return False


def regression_columns_margin_top():
    """After a 10px paragraph a multi-column container with margin-top:10px has its border box 10px lower
    (it was 0: its own margin was not in the list given to collapse_margin)."""
    docs.quiet()
    return sibling_distance(SIBLING_DOCS[0][1]) != 10


# Direct probes of the repaired findings on the implementation (True = the defect is back), used by `search` to
# report a regression with its concrete input even when the correspondence broke somewhere else.
REGRESSION_PROBES = {
    'rtl-minmax-shift-accumulates': finding_rtl_accumulates,
    'rtl-relayout-shift-accumulates': finding_rtl_relayout,
    'float-explicit-width-ignores-min-max': finding_float_minmax,
    'float-shrink-to-fit-ignores-own-extras': finding_float_extras,
    'columns-margin-top-ignored': regression_columns_margin_top,
}


def probe_regression(fid):
    try:
        back = REGRESSION_PROBES[fid]()
    except Exception as exc:  # noqa: BLE001
        return f'probe of the repaired finding {fid} raised {type(exc).__name__}: {exc}'
    if back:
        return (f'the repaired defect {fid} is back ({(REGRESSION_PROBES[fid].__doc__ or "").strip().splitlines()[0]})')
    return None


PROP = C05()

MANIFEST = {
    'design_ref': 'DESIGN.md §4 C05',
    'technique': 'Lean 4 theorems over hand-written models of collapse_margin, percentage / resolve_percentages (incl. '
                 'collapsed borders, position and radii percentages) / adjust_box_sizing, handle_min_max_width/height, '
                 'block_level_width, page_width_or_height, shrink_to_fit / float and inline-block widths, the Box '
                 'geometry helpers; exact executable correspondence with the real functions on Fractions and with '
                 'rendered documents (block trees ltr/rtl, floats / inline-blocks, the pagination model for vertical '
                 'stacking); a verified checker of the property statement (non-negative sizes, min/max, edges, width '
                 'equation, stacking, containment) with soundness and refinement theorems, run on every box of rendered '
                 'wide-grammar documents; full geometry (x, y, width, height) of block trees by composing the block-tree '
                 'model with the pagination model (refinement theorems C05Tree), compared box by box with rendered '
                 'documents; the metamorphic pair "uniform translation" through a verified comparator (C05Shift) on '
                 'wide-grammar and position-sensitive documents rendered twice',
    'text': 'Proved for all inputs on the model: the CSS 2.1 10.3.3 width equation for all 8 auto patterns in ltr and '
            'rtl unless over-constrained (then the geometry: start edge kept in ltr, end edge flush in rtl), min <= width '
            '(and width <= max when min <= max) after the min/max wrappers for any wrapped function that keeps a '
            'specified size, percentages = reference * v / 100 against the containing block width (heights against '
            'an auto containing block become auto / 0 / inf), box-sizing shifts size/min/max by the same extras and '
            'never below 0, collapse_margin = largest positive + most negative (permutation invariant, '
            'incrementally accumulable, max / min on one-signed lists), children start at the parent content edge '
            'and fill its width, shrink-to-fit widths lie between min- and max-content and inline-blocks fit their '
            'containing block. The executable checker of used values is sound (usedOk = true implies every clause '
            'for every box: sizes, min/max, edges, equation, no overlap of stacked children) and accepts every box the '
            'block-tree model lays out in ltr and rtl (refinement, tolerance 0). Vertical stacking and margin adjoining '
            'across boxes (clauses g, h) are the pagination model\'s theorems (Props/C05Pm), tied here by the stacking '
            'section (collapse-biased one-page documents).',
    'note': 'Trusted: Lean kernel, the hand transcription of the named functions (tied to /repo only through the '
            'generated correspondence cases: direct calls with Fractions on real BlockBox/PageBox objects and '
            'rendered documents with dyadic lengths); on the wide grammar (tables, flex, grid, columns, floats) the '
            'property is only checked (verified checker on sampled renders), not modelled. Known findings (each '
            'with a Lean witness, a replay and a corpus file): stored margin_right not recomputed (literal equation '
            'false, geometry right); 0% heights are lengths in an auto-height containing block; the '
            'first-line-overflow margin hack leaves boxes below their lines (negative heights when fragmented); '
            'an empty fragment below the page bottom gets a negative height; empty block with negative margin gets a '
            'positive height; negative row-group height in fragmented tables. Repaired in /repo and now regression '
            'cases (section regressions, Lean regression theorems, full-strength theorems edge_flush_minmax, '
            'float_minmax, float_fits, layoutNode_accepted for ltr and rtl): the rtl position shift once per min/max '
            're-entry and once per re-layout, floats ignoring min/max-width and their own extras, the ignored '
            'margin-top of multi-column containers. Inline-level boxes other than inline-blocks, absolute boxes, '
            'table and flex/grid sizing are not covered here.',
}
