"""C03 — content stays on its page and every page makes progress."""
from fractions import Fraction

from extract import monolithic
from harness import docs, pm, pm_col_corr, pm_corr, pm_foot_corr, pm_oof_corr, pm_stage2, wide_trace
from vlib import sx
from vlib.framework import PropCheck


def geometry_violation(doc, impl_out):
    """Every line ends above the page bottom unless it is the first content placed on the page."""
    if impl_out.startswith('err:'):
        return f'pagination raised {impl_out}'
    limit = doc['pageH'] * (1 + Fraction(1, 10**9))
    line_h = {}

    def clone_negative(box):
        return (box['st']['clone'] and box['st']['mb'] < 0) or any(clone_negative(k) for k in box['kids'])
    if clone_negative(doc['root']):
        return None     # known finding clone-negative-margin-bottom: the reserved bottom space becomes negative

    styles = {}

    def heights(box):
        styles[box['id']] = box['st']
        if box['kind'] == 'para':
            line_h[box['id']] = box['lineH']
        for kid in box['kids']:
            heights(kid)
    heights(doc['root'])
    has_fixed = any(st['height'] != 'auto' or st['minH'] or st['maxH'] != 'inf' for st in styles.values())
    pages = sx.loads_line(impl_out)
    for number, page in enumerate(pages):
        first = [True]
        nxt = frag_ids(pages[number + 1][-1], set()) if number + 1 < len(pages) else set()

        def walk(frag):
            if frag[0] == 'p':
                lines = frag[-1]
                for k, (i, y) in enumerate(lines):
                    bottom = Fraction(y) + line_h[int(frag[1])]
                    if bottom > limit and not first[0]:
                        return f'page {page[1]}: line {i} of paragraph {frag[1]} ends at {bottom} > {doc["pageH"]}'
                    # the last line of a paragraph that ends on this page carries the paragraph's bottom padding
                    # and border (block.py _linebox_layout: offset_y when draw_bottom_decoration)
                    if (k == len(lines) - 1 and int(frag[1]) not in nxt and not first[0]
                            and styles[int(frag[1])]['height'] == 'auto' and not has_fixed):
                        deco = Fraction(frag[7]) + Fraction(frag[9])
                        if deco > 0 and bottom + deco > limit:
                            return (f'page {page[1]}: the last line {i} of paragraph {frag[1]} with the paragraph\'s '
                                    f'bottom padding/border ends at {bottom + deco} > {doc["pageH"]} and is not the '
                                    f'first line placed on the page')
                    first[0] = False
            else:
                for kid in frag[-1]:
                    bad = walk(kid)
                    if bad:
                        return bad
            return None
        bad = walk(page[-1])
        if bad:
            return bad
        bad = decoration_overflow(page, limit, frozenset(nxt), styles)
        if bad:
            return bad
        bad = None if page[3] == 'true' else continued_decoration(page, frozenset(nxt), styles)   # not on blank pages
        if bad:
            return bad
        bad = block_content_overflow(page, limit, styles)
        if bad:
            return bad
    return None


def continued_decoration(page, continued, styles):
    """A box that is continued on the next page (box-decoration-break: slice) shows no bottom margin, padding or
    border of its own on this page - the statement of C03Chain.paginate_chain_cut, for every box of the chain."""
    def walk(frag):
        ident = int(frag[1])
        mb, pb, bb = Fraction(frag[5]), Fraction(frag[7]), Fraction(frag[9])
        if ident in continued and not styles[ident]['clone'] and (mb or pb or bb):
            return (f'page {page[1]}: box {ident} is continued on the next page but keeps a bottom decoration '
                    f'(margin {mb}, padding {pb}, border {bb}) although box-decoration-break is slice')
        if frag[0] == 'b':
            for kid in frag[-1]:
                bad = walk(kid)
                if bad:
                    return bad
        return None
    return walk(page[-1])


def block_content_overflow(page, limit, styles):
    """"No unbreakable block ends below the bottom edge unless it is the first content placed on that page": the
    content box of every block fragment (fixed-height and empty blocks cannot be fragmented any further; a fragmented
    block is cut at the page bottom) ends above the page bottom, unless the fragment lies on the chain of first
    children from the root (`page_is_empty` with no child placed before it, at every level). Boxes through which
    margins collapse (no content placed, height auto or 0, no min-height, padding or border) have no extent of their
    own and are skipped."""
    def walk(frag, on_first_chain):
        y, mt, mb, pt, pb, bt, bb, h = [Fraction(x) for x in frag[3:11]]
        content_bottom = y + mt + bt + pt + h
        st = styles[int(frag[1])]
        through = (not frag[-1] and not (pt or pb or bt or bb) and st['height'] in ('auto', 0) and not st['minH'])
        if not on_first_chain and not through and content_bottom > limit:
            return (f'page {page[1]}: the content box of box {frag[1]} ends at {content_bottom}, below the page '
                    f'bottom, and the box is not the first content of the page')
        if frag[0] == 'b':
            for i, kid in enumerate(frag[-1]):
                bad = walk(kid, on_first_chain and i == 0)
                if bad:
                    return bad
        return None
    return walk(page[-1], True)


def decoration_overflow(page, limit, continued=frozenset(), styles=None):
    """"A fragmented box's own bottom padding/border also fits": for a fragment that is continued on the next
    page and keeps its bottom decoration (box-decoration-break: clone), the bottom border edge must not be
    below the page bottom - unless the box lies on the chain of first content of the page."""
    def walk(frag, on_first_chain):
        geo = [Fraction(x) for x in frag[3:11]]
        y, mt, mb, pt, pb, bt, bb, h = geo
        bottom = y + mt + bt + pt + h + pb + bb
        forced_only = on_first_chain and leaf_count(frag) <= 1
        if styles is not None and on_first_chain and styles[int(frag[1])]['height'] != 'auto':
            forced_only = True      # a box of definite height on the first-content chain keeps its own (taller) height
        if (pb or bb) and int(frag[1]) in continued and bottom > limit and not forced_only:
            return (f'page {page[1]}: bottom padding/border of the fragmented box {frag[1]} ends at {bottom} '
                    f'below the page bottom')
        if frag[0] == 'b':
            for i, kid in enumerate(frag[-1]):
                bad = walk(kid, on_first_chain and i == 0)
                if bad:
                    return bad
        return None
    return walk(page[-1], True)


def leaf_count(frag):
    if frag[0] == 'p':
        return len(frag[-1])
    return sum(leaf_count(k) for k in frag[-1]) if frag[-1] else 1


def frag_ids(frag, out):
    out.add(int(frag[1]))
    if frag[0] == 'b':
        for kid in frag[-1]:
            frag_ids(kid, out)
    return out


class C03(PropCheck):
    id = 'C03'
    extractors = (monolithic.generate,)
    modules = ('WpModel.Props.C03', 'WpModel.Props.C03Geo', 'WpModel.Props.C03Chain', 'WpModel.Props.C03Mono', 'WpModel.Props.C03Trace', 'WpModel.Witness.C03',
               'WpModel.Props.C03Pm2', 'WpModel.Witness.C03Pm2', 'WpModel.Props.C03Oof', 'WpModel.Props.C03Foot',
               'WpModel.Props.C03FootGeo', 'WpModel.Props.C03Col', 'WpModel.Props.C03GeoCol')
    trusted_base = (
        'modelled, not verified: the block/line pagination functions of block.py and page.py as '
        'lean/WpModel/Model/Paginate.lean (see C01)',
        'the float comparison `y > bottom * (1 + 1e-9)` agrees with the rational one on the generated dyadic inputs',
    )
    assumptions = ('page margins are 0 in generated documents (page content box = page box)',)

    def correspondence(self, run):
        sec = run.section(
            'pm-documents',
            'random block/paragraph documents, whole pagination compared exactly including position_y/height of '
            'every line and box; non-trivial = at least 2 pages')
        pm_corr.add_cases(run, sec, run.n(250, 6000))
        sec_edge = run.section(
            'pm-edge-family',
            'deterministic family (harness/pm.py edge_docs): blocks that cannot be fragmented (fixed height with or '
            'without lines, empty blocks with padding/border) after 0/6/7/8 lines on a 100px page, every combination of '
            'top margin/border/padding, bottom padding, alone / wrapped / with lines, so that each edge of the box falls '
            'on either side of the page bottom; plus (earlier-*) blocks with bottom padding/border and an avoided break '
            'after them, cut by find_earlier_page_break (the repaired finding earlier-break-keeps-bottom-decoration); '
            '(spacer-*) empty boxes of height auto / 0 whose margins straddle the page bottom, at the end of the document '
            'or not; whole pagination compared exactly; quick: the earlier-* documents + seeded samples of 60 spacer '
            'and 200 edge documents, thorough: all; non-trivial = at least 2 pages')
        edge = list(pm.edge_docs())
        earlier = list(pm.earlier_break_docs())
        spacers = list(pm.spacer_docs())        # (spacer-*) empty boxes whose margins straddle the page bottom
        # (pagedeco-*) pages with a bottom padding / border of their own: the page bottom is the content-box bottom
        pm_corr.add_docs(run, sec_edge, list(pm.page_decoration_docs()))
        pm_corr.add_docs(run, sec_edge, earlier + (spacers if run.thorough else run.rng.sample(spacers, 60))
                         + (edge if run.thorough else run.rng.sample(edge, 200)))
        sec_oof = run.section(
            'pm-oof-documents',
            'stage 2a of the pagination model (Model/PaginateOof): absolutely positioned boxes, full-width floats, clear; '
            'whole pagination with the geometry of every line, box and out-of-flow fragment compared exactly; '
            'non-trivial = at least 2 pages')
        pm_oof_corr.add_cases(run, sec_oof, run.n(120, 4000))
        sec_foot = run.section(
            'pm-foot-documents',
            'stage 2b of the pagination model (Model/PaginateFoot): footnotes; whole pagination with the geometry of '
            'every line and of the footnote area (page_bottom moves with it) compared exactly; non-trivial = at least '
            '2 pages and one footnote')
        pm_foot_corr.add_cases(run, sec_foot, run.n(100, 3000))
        sec_col = run.section(
            'pm-col-documents',
            'stage 2c of the pagination model (Model/PaginateCol): multi-column containers; whole pagination with the '
            'geometry of every column box, line and block compared exactly; non-trivial = at least 2 pages and a '
            'container')
        pm_col_corr.add_cases(run, sec_col, run.n(100, 3000))
        sec2 = run.section(
            'wide-geometry',
            'documents of the wide grammar: per page, the bottom edges of in-flow line boxes and table rows with a '
            'first-on-page/column flag are checked by the verified Lean checker against the page content box; '
            'the implementation side is the constant claim "ok"; non-trivial = a page with at least 2 items')
        docs.quiet()
        for k in range(run.n(80, 2500)):
            focus = 'columns' if k % 8 == 7 else None      # spanning blocks that leave little room under them
            for line, meta, tags in wide_trace.fits_cases(run.rng, focus=focus):
                if line is None:
                    sec2.tags['render-error (C02)'] += 1
                    continue
                sec2.add(line, 'ok', meta=meta, nontrivial=len(meta['items']) >= 2, tags=tags)

        sec3 = run.section(
            'families',
            'deterministic families (harness/families.py): per page, the bottom edges of in-flow lines and table rows '
            'checked by the Lean geometry checker; non-trivial = a page with at least 2 items')
        self._family_known, cases = wide_trace.family_cases('C03')
        for kind, line, meta in cases:
            if kind == 'fits':
                sec3.add(line, 'ok', meta=meta, nontrivial=len(meta['items']) >= 2,
                         tags=[meta['doc_id'].split('-')[0]])

    def classify(self, d):
        if d['section'] == 'pm-foot-documents':
            return pm_foot_corr.classify(pm_foot_corr.doc_from_json(d['meta']['doc']), d['impl'])
        if d['section'] == 'wide-geometry':
            return wide_trace.explain_fits(d['meta'])
        if d['section'] == 'families' and d['meta']['doc_id'] in self._family_known.get('fits', ()):
            return 'family-documents-known'
        return None

    def finding_replays(self):
        return {**pm_stage2.finding_replays(),
                'table-in-columns-rows-overflow': table_in_columns_overflow,
                'clone-negative-margin-bottom': clone_negative_margin,
                'table-rows-after-overflowing-first-item': lambda: corpus_overflow('table_rows_after_overflow'),
                'stale-next-page-blank-pages': lambda: stale_next_page()[0]}

    def judge(self, d):
        if d['section'] == 'families':
            return (f'{d["meta"]["doc_id"]}: in-flow items {d["model"]} end below the content box bottom '
                    f'{d["meta"]["bottom"]} without being first on their page')
        if d['section'] == 'wide-geometry':
            return (f'page {d["meta"]["page_index"]}: in-flow items {d["model"]} end below the content box bottom '
                    f'{d["meta"]["bottom"]} without being first on their page')
        if d['section'] in pm_stage2.SECTIONS:
            doc = pm_stage2.corr(d['section']).doc_from_json(d['meta']['doc'])
            return pm_stage2.progress(d['section'], doc, d['impl'])
        doc = pm_corr.doc_from_json(d['meta']['doc'])
        return geometry_violation(doc, d['impl']) or pm_corr.progress_violation(doc, d['impl'])

    def search(self, run, failures):
        import random
        rng = random.Random(run.seed + 78)
        for _ in range(run.n(300, 3000)):
            doc = pm.gen_doc(rng)
            run.search_stats['evaluations'] += 1
            out = pm_corr.real_line(doc)
            what = geometry_violation(doc, out) or pm_corr.progress_violation(doc, out)
            if what and out != pm_corr.model_line(self, doc):   # only inputs on which the code left the model
                def bad(c):
                    o = pm_corr.real_line(c)
                    return bool(geometry_violation(c, o) or pm_corr.progress_violation(c, o))
                small = pm.shrink(doc, bad, 150)
                return [{'what': what, 'input': {'doc': pm_corr.doc_json(small), 'html': pm.doc_html(small)},
                         'signature': 'pm-geometry'}]
        return []

    def replay(self, data):
        inp = data.get('input', {})
        meta = inp.get('meta') or inp
        if 'doc' in meta and inp.get('section') in pm_stage2.SECTIONS:
            module, doc, out = pm_stage2.doc_and_real(inp)
            return None if out.startswith('err:') else pm_stage2.progress(inp['section'], doc, out)
        if 'doc' in meta:
            doc = pm_corr.doc_from_json(meta['doc'])
            out = pm_corr.real_line(doc)
            return geometry_violation(doc, out) or pm_corr.progress_violation(doc, out)
        if 'html' in meta and 'page_index' in meta:
            document = docs.render(meta['html'])
            if meta['page_index'] >= len(document.pages):
                return None
            bottom, items = wide_trace.fit_items(document.pages[meta['page_index']],
                                                 decorations='deco' in meta.get('kinds', ()) or
                                                 'family' in meta.get('features', ()))
            limit = bottom * (1 + wide_trace.Fraction(1, 10**9))
            bad = [(str(b), kind) for (b, first), kind in zip(items, wide_trace.fit_items.kinds)
                   if b > limit and not first]
            return (f'page {meta["page_index"]}: in-flow items {bad} end below the content box bottom {bottom} '
                    f'without being first on their page') if bad else None
        return None


STALE_NEXT_PAGE = (
    '<style>@page{size:200px 45px;margin:0}html,body{margin:0}p{margin:0}body{font-size:10px;line-height:10px}</style>'
    '<p>a1<br>a2<br>a3</p><div style="break-before:avoid;height:100px"><p>b1</p>'
    '<p style="break-before:right">c1</p></div>')


def stale_next_page():
    """(blank pages that no side break asks for?, fragments of the first paragraph on non-consecutive pages?)"""
    docs.quiet()
    texts = [[t.strip() for t in page if t.strip()] for page in docs.page_texts(docs.render(STALE_NEXT_PAGE))]
    blanks = sum(1 for page in texts if not page)
    first = [i for i, page in enumerate(texts) if any(t in ('a1', 'a2', 'a3') for t in page)]
    # the only side break is before `c1`: at most one blank page is required
    return blanks > 1, first != list(range(first[0], first[0] + len(first))) if first else False


EARLIER_DECO = (
    '<style>@page{size:200px 50px;margin:0}html,body,p{margin:0}body{font-size:2px;line-height:10px}</style>'
    '<div style="padding-bottom:5px;break-after:avoid-page"><p>a0<br>a1<br>a2<br>a3<br>a4</p></div><p>b0</p>')


def earlier_break_keeps_decoration():
    """Repaired by 24ce8bf (was the finding earlier-break-keeps-bottom-decoration; kept as a regression probe, the
    same document is in the pm-edge-family as earlier-*): does the block cut by find_earlier_page_break still keep
    its bottom padding on the first page although it is continued on the second, its border box ending below the
    page bottom? (model: Witness/C03.earlier_break_removes_bottom_decoration)."""
    from weasyprint.formatting_structure import boxes
    docs.quiet()
    document = docs.render(EARLIER_DECO)
    if len(document.pages) < 2:
        return False
    page = document.pages[0]._page_box
    bottom = page.content_box_y() + page.height
    for box in page.descendants():
        if isinstance(box, boxes.BlockBox) and box.element_tag == 'div':
            return bool(box.padding_bottom) and box.border_box_y() + box.border_height() > bottom
    return False


def clone_negative_margin():
    docs.quiet()
    html = ('<style>@page{size:200px 120px;margin:0}html,body{margin:0}</style>'
            '<p style="margin:4px 0 -4px 0;box-decoration-break:clone;font-size:2px;line-height:20px">'
            'a<br>b<br>c<br>d<br>e<br>f</p>')
    document = docs.render(html)
    bottom, items = wide_trace.fit_items(document.pages[0])
    return any(b > bottom and not first for b, first in items)


def table_in_columns_overflow():
    """A table in a multi-column container near the page bottom: rows placed below the page content box."""
    return corpus_overflow('table_in_columns_overflow')


def corpus_overflow(name):
    import json
    from vlib.paths import CORPUS
    docs.quiet()
    document = docs.render(json.loads((CORPUS / 'C03' / f'{name}.json').read_text())['html'])
    for page in document.pages:
        bottom, items = wide_trace.fit_items(page)
        if any(b > bottom * (1 + Fraction(1, 10**9)) and not first for b, first in items):
            return True
    return False


PROP = C03()

MANIFEST = {
    'design_ref': 'DESIGN.md §4 C03',
    'technique': 'Lean 4 theorems on the pagination model (first content of an empty page is always accepted, by mutual '
                 'induction over all box trees; overflow test monotone), exact document-level correspondence',
    'text': 'Proved for all documents of the block/paragraph grammar: a box laid out on an empty page always yields a fragment; every non-blank page strictly advances the resume position (C03.page_progress) and a blank page is followed by a non-blank one, so the page count is bounded by the content; the overflow predicate is monotone. The decision that keeps an unbreakable block inside the page is characterised (C03Geo.firstPass_keep_fits / firstPass_discards_content_overflow / firstPass_relayout_border_overflow: a kept child is the first content of the page, or margins collapse through it, or its content box and border box end above the page bottom). Geometry of every line and box is compared exactly with the real layout (random documents and a deterministic family of fixed-height / empty padded blocks around the page bottom); on the wide grammar the bottom edges of in-flow lines and table rows of real renders are checked by a Lean checker with a soundness theorem.',
    'note': 'Partial: "every placed line fits unless first on its page" is carried for the model by the exact correspondence and for the wide grammar by sampled trace validation; footnote areas, flex and grid items are not checked geometrically.',
}
