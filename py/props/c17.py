"""C17 — what is painted is what was laid out, in CSS paint order."""
from fractions import Fraction

from extract import stack_kinds
from harness import c17_oracle as oracle
from harness import c17_scene as scene
from harness import docs
from vlib import sx
from vlib.framework import PropCheck

# Hand-written scenes, run first: one per branch of `_dispatch` / point of `draw_stacking_context`.
BASE = ('<style>@page{size:300px 400px;margin:10px}html{background:#d00001}'
        'body{margin:0;font-size:10px;line-height:12px}</style>')
CORPUS = [
    '<div style="background:#000004;color:#000005">a<span style="background:#000008;color:#000009">b</span>c</div>',
    '<div style="position:relative;z-index:-1;background:#000004">n</div><div style="background:#000008">b</div>'
    '<div style="position:relative;z-index:2;background:#00000c">p2</div>'
    '<div style="position:relative;z-index:1;background:#000010">p1</div>'
    '<div style="position:relative;z-index:1;background:#000014">p1b</div>'
    '<div style="position:relative;background:#000018">auto</div><div style="float:left;background:#00001c">f</div>',
    '<div style="position:relative;background:#000004"><div style="position:absolute;z-index:-1;background:#000008">'
    'deep</div><div style="float:left;background:#00000c"><div style="position:relative;z-index:3;'
    'background:#000010">x</div></div></div>',
    '<p style="background:#000004">t<span style="display:inline-block;background:#000008;color:#000009">ib'
    '<span style="position:relative;z-index:-1;background:#00000c">neg</span></span>u</p>',
    '<div style="opacity:0.5;background:#000004"><div style="opacity:0.25;background:#000008;color:#000009">o</div>'
    '<div style="transform:translate(1001px,0);background:#00000c">t</div></div>'
    '<div style="transform:scale(0);background:#000010">gone<div style="position:relative;z-index:5">gone</div></div>',
    '<div style="overflow:hidden;background:#000004;border:2px solid #000006;outline:1px solid #000007">'
    '<p style="background:#000008;outline:1px solid #00000b">clipped</p></div>',
    '<table style="background:#000004;border:1px solid #000006;border-collapse:separate">'
    '<colgroup style="background:#000008"><col style="background:#00000c"></colgroup>'
    '<tr style="background:#000010"><td style="background:#000014;border:1px solid #000016">c</td>'
    '<td style="background:#000018;empty-cells:hide"></td><td style="background:#00001c;opacity:0.5">o</td></tr></table>',
    '<div style="display:flex;background:#000004"><div style="z-index:2;background:#000008">a</div>'
    '<div style="z-index:1;background:#00000c">b</div></div>'
    '<div style="display:grid;background:#000010"><div style="z-index:2;background:#000014">a</div>'
    '<div style="z-index:-1;background:#000018">b</div><div style="background:#00001c">c</div></div>',
    '<div style="visibility:hidden;background:#000004;border:1px solid #000006">h<span style="visibility:visible;'
    'background:#000008;color:#000009">v</span></div>',
    '<div style="position:absolute;clip:rect(0px,20px,20px,0px);background:#000004">cl</div>',
    # the known findings
    '<table style="border-collapse:separate"><tr style="position:relative;background:#000004">'
    '<td style="background:#000008">a</td></tr></table>',
    '<div style="display:grid;opacity:0.5;background:#000004"><div style="background:#000008">a</div></div>',
    '<span style="position:relative;z-index:0;background:#000004">t<span style="position:relative;z-index:-1;'
    'background:#000008">inner</span></span>',
]

OPACITIES = [Fraction(1), Fraction(1), Fraction(1), Fraction(1, 2), Fraction(0), Fraction(3, 2), Fraction(-1),
             1 - Fraction(1, 2 ** 40), Fraction(1, 3)]
ZS = ['auto', 'auto', 'auto', 0, 0, -1, 1, 2, -2, 1, 10 ** 15, -10 ** 15]


def mock_kinds():
    from weasyprint.formatting_structure import boxes
    return [c.__name__ for c in vars(boxes).values() if isinstance(c, type) and issubclass(c, boxes.Box)]


def random_spec(rng, depth, kinds, adversarial):
    """An abstract box: (kind, position, z, grid, opacity, transform, overflow, float, placeholder, kids)."""
    if adversarial:
        kind = rng.choice(kinds)
    else:
        kind = rng.choice(['BlockBox', 'BlockBox', 'BlockBox', 'LineBox', 'InlineBox', 'TextBox', 'InlineBlockBox',
                           'TableBox', 'TableRowGroupBox', 'TableRowBox', 'TableCellBox', 'FlexBox', 'GridBox',
                           'InlineFlexBox', 'BlockReplacedBox', 'InlineReplacedBox'])
    position = rng.choice(['static', 'static', 'static', 'relative', 'absolute', 'fixed'])
    z = rng.choice(ZS)
    grid = rng.random() < 0.15
    opacity = rng.choice(OPACITIES) if rng.random() < (0.5 if adversarial else 0.15) else Fraction(1)
    transform = rng.random() < 0.08
    overflow = rng.choice(['visible'] * 8 + ['hidden', 'auto'])
    floated = rng.choice(['none'] * 5 + ['left', 'right'] + (['footnote'] if adversarial else []))
    placeholder = rng.random() < 0.1
    kids = []
    if depth > 0:
        width = rng.choice([0, 1, 1, 2, 3, 5] if not adversarial else [0, 1, 2, 2, 3, 8])
        kids = [random_spec(rng, depth - 1, kinds, adversarial) for _ in range(width)]
    return (kind, position, z, grid, opacity, transform, overflow, floated, placeholder, kids)


def mock_box(spec, counter=None):
    """A real box object of the named class carrying what stacking.py reads."""
    from tinycss2.color4 import parse_color
    from weasyprint.formatting_structure import boxes
    from weasyprint.layout.absolute import AbsolutePlaceholder
    kind, position, z, grid, opacity, transform, overflow, floated, placeholder, kids = spec
    cls = getattr(boxes, kind)
    box = cls.__new__(cls)
    black = parse_color('black')
    box.element_tag, box.element = 'x', None
    box.style = {
        'position': position, 'z_index': z, 'opacity': opacity,
        'transform': (('translate', (1, 0)),) if transform else (), 'overflow': overflow, 'float': floated,
        'visibility': 'visible', 'clip': (), 'border_top_color': black, 'border_left_color': black,
        'border_right_color': black, 'border_bottom_color': black, 'outline_width': 0,
        'outline_color': black, 'color': black, 'border_collapse': 'separate', 'empty_cells': 'show'}
    box.remove_decoration_sides = set()
    box.is_grid_item = grid
    if issubclass(cls, boxes.ParentBox):
        box.children = tuple(mock_box(k) for k in kids)
    else:
        box.children = []
    if issubclass(cls, boxes.TableBox):
        box.column_groups = ()
    return AbsolutePlaceholder(box) if placeholder else box


def mock_page(specs):
    from weasyprint.formatting_structure import boxes
    page = mock_box(('PageBox', 'static', 'auto', False, Fraction(1), False, 'visible', 'none', False, []))
    page.children = tuple(mock_box(s) for s in specs)
    page.canvas_background = None
    assert isinstance(page, boxes.PageBox)
    return page


def real_contexts(page_box):
    from weasyprint.stacking import StackingContext
    return docs.outcome(lambda: sx.dumps(scene.show_node(StackingContext.from_page(page_box))))


class FakeContext:
    def __init__(self, ident, z):
        self.ident, self.z_index = ident, z


def real_sort(zs):
    from weasyprint.stacking import StackingContext

    class B:
        style = {'z_index': 'auto'}
    ctx = StackingContext(B(), [FakeContext(i, z) for i, z in enumerate(zs)], [], [], [], None)
    def ids(lst):
        return ' '.join(str(c.ident) for c in lst)
    return f'({ids(ctx.negative_z_contexts)}) ({ids(ctx.zero_z_contexts)}) ({ids(ctx.positive_z_contexts)})'


def sort_violation(zs, impl):
    """Clause: negative / zero / positive split, each sorted by (z, original position)."""
    idx = list(range(len(zs)))
    def fmt(sel):
        return ' '.join(str(i) for i in sorted(sel, key=lambda i: (zs[i], i)))
    want = (f'({fmt([i for i in idx if zs[i] < 0])}) ({fmt([i for i in idx if zs[i] == 0])}) '
            f'({fmt([i for i in idx if zs[i] > 0])})')
    if impl != want:
        return f'child contexts with z-indexes {zs} ordered {impl}, CSS 2.1 E.2 (z, then tree order) gives {want}'
    return None


# ---------------------------------------------------------------------------------------------------
# rounded boxes (Box.rounded_box & co, resolve_radii_percentages): direct calls with Fractions

GEO_SLOTS = ('position_x position_y margin_left margin_top border_top_width border_right_width border_bottom_width '
             'border_left_width padding_top padding_right padding_bottom padding_left width height').split()
CORNERS = ('top_left', 'top_right', 'bottom_right', 'bottom_left')


def random_geo(rng, adversarial):
    """14 lengths + 4 radii pairs, as Fractions (halves, quarters, thirds; zeros and huge values when adversarial)."""
    def length(top):
        roll = rng.random()
        if roll < 0.2:
            return Fraction(0)
        if adversarial and roll < 0.3:
            return Fraction(rng.choice([10 ** 6, 10 ** 9, 1]), rng.choice([1, 3, 7]))
        return Fraction(rng.randrange(0, top * 4), rng.choice([1, 2, 4, 4, 3]))
    lengths = [length(50), length(50), length(20), length(20)]
    lengths += [length(12) for _ in range(4)]           # border widths: independent per side
    lengths += [length(8) for _ in range(4)]            # paddings
    lengths += [length(60), length(60)]                 # content width / height
    if not adversarial and rng.random() < 0.5:
        lengths[12] += 40
        lengths[13] += 40
    def radius():
        roll = rng.random()
        if roll < 0.15:
            return (Fraction(0), Fraction(0))
        rx = length(25)
        return (rx, rx) if roll < 0.5 else (rx, length(25))
    radii = [radius() for _ in range(4)]
    if rng.random() < 0.3:
        radii = [radii[0]] * 4
    return lengths, radii


def geo_box(lengths, radii):
    from weasyprint.formatting_structure import boxes
    box = boxes.BlockBox.__new__(boxes.BlockBox)
    for name, value in zip(GEO_SLOTS, lengths):
        setattr(box, name, value)
    for corner, value in zip(CORNERS, radii):
        setattr(box, f'border_{corner}_radius', tuple(value))
    box.remove_decoration_sides = set()
    box.children = ()
    return box


def geo_wire(lengths, radii):
    return list(lengths) + [list(r) for r in radii]


def show_rounded(result):
    x, y, w, h, *corners = result
    def atom(v):
        return sx.atom(Fraction(v))
    return ' '.join([atom(x), atom(y), atom(w), atom(h)] + [f'({atom(a)} {atom(b)})' for a, b in corners])


def rounded_call(box, call, args):
    if call == 'rbox':
        return box.rounded_box(*args)
    if call == 'rratio':
        return box.rounded_box_ratio(*args)
    return {'rpadding': box.rounded_padding_box, 'rborder': box.rounded_border_box,
            'rcontent': box.rounded_content_box}[call]()


def rounded_expected(lengths, radii, call, args):
    """css-backgrounds-3 corner shaping + corner overlap, stated directly (judge only)."""
    px, py, ml, mt, bt, br, bb, bl, pt, pr, pb, pl, width, height = lengths
    border_w = width + pl + pr + bl + br
    border_h = height + pt + pb + bt + bb
    if call == 'rbox':
        it, ir, ib, il = args
    elif call == 'rratio':
        it, ir, ib, il = (w * args[0] for w in (bt, br, bb, bl))
    elif call == 'rpadding':
        it, ir, ib, il = bt, br, bb, bl
    elif call == 'rborder':
        it = ir = ib = il = 0
    else:
        it, ir, ib, il = bt + pt, br + pr, bb + pb, bl + pl
    # horizontal radius shrinks by the inset of the corner's left/right side, vertical by its top/bottom side
    insets = {'top_left': (il, it), 'top_right': (ir, it), 'bottom_right': (ir, ib), 'bottom_left': (il, ib)}
    inner = {c: (max(0, r[0] - insets[c][0]), max(0, r[1] - insets[c][1])) for c, r in zip(CORNERS, radii)}
    w, h = border_w - il - ir, border_h - it - ib
    ratio = Fraction(1)
    for extent, total in ((w, inner['top_left'][0] + inner['top_right'][0]),
                          (w, inner['bottom_left'][0] + inner['bottom_right'][0]),
                          (h, inner['top_left'][1] + inner['bottom_left'][1]),
                          (h, inner['top_right'][1] + inner['bottom_right'][1])):
        if total > 0:
            ratio = min(ratio, Fraction(extent) / total)
    return (px + ml + il, py + mt + it, w, h) + tuple(
        (inner[c][0] * ratio, inner[c][1] * ratio) for c in CORNERS)


def rounded_violation(lengths, radii, call, args):
    box = geo_box(lengths, radii)
    got = docs.outcome(lambda: show_rounded(rounded_call(box, call, args)))
    want = show_rounded(rounded_expected(lengths, radii, call, args))
    if got != want:
        return (f'{call}{tuple(str(a) for a in args)} on border widths {[str(v) for v in lengths[4:8]]}, paddings '
                f'{[str(v) for v in lengths[8:12]]}, content {lengths[12]}x{lengths[13]}, radii '
                f'{[(str(a), str(b)) for a, b in radii]}: rectangle/radii {got}; CSS (inner radius = max(0, outer - '
                f'inset) per corner and axis, then corner-overlap scaling) gives {want}')
    return None


def radii_case(rng):
    """Computed radii (value, '%' | 'px') for resolve_radii_percentages + removed sides."""
    def dim():
        roll = rng.random()
        if roll < 0.2:
            return (Fraction(0), 'px')
        if roll < 0.55:
            return (Fraction(rng.randrange(0, 200), rng.choice([1, 2, 4])), '%')
        return (Fraction(rng.randrange(0, 160), rng.choice([1, 2, 4])), 'px')
    corners = [(dim(), dim()) for _ in range(4)]
    removed = [side for side in ('top', 'right', 'bottom', 'left') if rng.random() < 0.15]
    return corners, removed


def real_radii(lengths, corners, removed):
    from weasyprint.css.properties import Dimension
    from weasyprint.layout.percent import resolve_radii_percentages
    box = geo_box(lengths, [(0, 0)] * 4)
    box.remove_decoration_sides = set(removed)
    box.style = {f'border_{c}_radius': (Dimension(*rx), Dimension(*ry)) for c, (rx, ry) in zip(CORNERS, corners)}
    resolve_radii_percentages(box)
    return ' '.join(f'({sx.atom(Fraction(a))} {sx.atom(Fraction(b))})'
                    for a, b in (getattr(box, f'border_{c}_radius') for c in CORNERS))


def radii_violation(lengths, corners, removed):
    px, py, ml, mt, bt, br, bb, bl, pt, pr, pb, pl, width, height = lengths
    border_w = width + pl + pr + bl + br
    border_h = height + pt + pb + bt + bb
    want = []
    for corner, (rx, ry) in zip(CORNERS, corners):
        def used(d, ref):
            return ref * d[0] / 100 if d[1] == '%' else d[0]
        if (rx[0] == 0 and rx[1] == 'px') or (ry[0] == 0 and ry[1] == 'px') or set(corner.split('_')) & set(removed):
            want.append((Fraction(0), Fraction(0)))
        else:
            want.append((used(rx, border_w), used(ry, border_h)))
    want = ' '.join(f'({sx.atom(Fraction(a))} {sx.atom(Fraction(b))})' for a, b in want)
    got = docs.outcome(lambda: real_radii(lengths, corners, removed))
    if got != want:
        return (f'border radii {corners} on a {border_w}x{border_h} border box (removed sides {removed}) resolve to '
                f'{got}; css-backgrounds-3 (% of the border-box width / height) gives {want}')
    return None


def frac_list(values):
    return [Fraction(v) for v in values]


def check_html(html, exempt=True):
    """Oracle on a rendered document (judge / search / replay). -> (text | None, findings seen)"""
    document = scene.render(html)
    seen = set()
    for index, page in enumerate(document.pages):
        attrs, kids, canvas = scene.export_page(page._page_box)
        what = oracle.contexts_violation(attrs, kids, real_contexts(page._page_box))
        if what:
            return f'page {index}: {what}', seen
        events = docs.outcome(lambda: scene.paint_page(document, page))
        what, findings = oracle.violation(attrs, kids, canvas, events, exempt)
        seen |= findings
        if what:
            return f'page {index}: {what}', seen
    return None, seen


def finding_still_there(html, finding_id):
    """A known finding is still present when the un-exempted oracle fails and names it."""
    what, seen = check_html(html, exempt=False)
    return bool(what) and finding_id in seen


class C17(PropCheck):
    id = 'C17'
    extractors = (stack_kinds.generate,)
    modules = ('WpModel.Props.C17', 'WpModel.Witness.C17')
    trusted_base = (
        'modelled, not verified: stacking.py (StackingContext.__init__/from_page/from_box, _dispatch, '
        '_dispatch_children) and the paint sequence of draw/__init__.py (draw_page, draw_stacking_context, '
        'draw_background colour fill, draw_border simple case, draw_table, draw_outline, draw_inline_level, '
        'draw_text visibility) as Model/Stacking.lean + Model/PaintOrder.lean; every isinstance test is taken from '
        'Gen/StackKinds.lean (class tuples by AST, membership by issubclass)',
        'modelled, not verified: Box.rounded_box / rounded_padding_box / rounded_border_box / rounded_content_box / '
        'rounded_box_ratio (boxes.py) and resolve_radii_percentages (layout/percent.py) as Model/RoundedBox.lean, '
        'tied by exact direct calls with Fractions',
        'py/harness/c17_scene.py export_page: one abstract attribute per attribute read of the drawing code '
        '(style[...] / box.background / box.transformation_matrix / border widths / cell.empty)',
        'py/harness/c17_scene.py display_list: interpretation of the uncompressed content stream (q/Q, rg, W, gs, cm, '
        'f, TJ, Do into opacity groups); a fill colour identifies element and role',
    )
    assumptions = (
        'generated borders are solid, one colour, four equal sides (the simple case of draw_border); collapsed-border '
        'tables have no borders; no images, gradients, text decorations, list markers; single font',
        'draw_collapsed_borders, draw_replacedbox, draw_background_image, rounded corners, dashed/double borders are '
        'not modelled (their items are not predicted)',
    )

    # ------------------------------------------------------------------------------------------------
    def correspondence(self, run):
        docs.quiet()
        rng = run.rng
        sec_ctx = run.section(
            'scene-contexts',
            'StackingContext.from_page on every laid-out page of generated documents vs Stacking.fromPage on the '
            'exported tree; buckets, pruned trees and orders compared as one canonical term; non-trivial = at least '
            'two contexts besides the page and the root')
        sec_paint = run.section(
            'scene-paint',
            'display list of Page.paint (fills and text shows with colour, clip depth, opacity groups, transforms) '
            'vs PaintOrder.drawPage; non-trivial = at least 8 items and one nested context')
        htmls = [BASE + body for body in CORPUS]
        n_docs = run.n(260, 5000)
        render_errors = {}
        for index in range(n_docs + len(htmls)):
            if index < len(htmls):
                html, used = htmls[index], {'corpus'}
            else:
                sc = scene.Scene(rng, max_depth=rng.choice([1, 2, 2, 3, 3, 4]), features={
                    'table_part_context': 0.08, 'grid_context': 0.3})
                html, used = sc.document(), sc.used
                if rng.random() < 0.15:
                    # small pages: boxes split between pages (removed border sides, repeated fixed boxes)
                    html = html.replace('size:700px 4000px', f'size:700px {rng.choice([100, 150, 240])}px')
                    used = used | {'multipage'}
            try:
                document = scene.render(html)
            except Exception as exc:  # layout failures belong to C02; counted, not compared
                render_errors[type(exc).__name__] = render_errors.get(type(exc).__name__, 0) + 1
                continue
            for page_index, page in enumerate(document.pages[:5]):
                page_box = page._page_box
                attrs, kids, canvas = scene.export_page(page_box)
                meta = {'html': html, 'page': page_index, 'signature': f'doc{index}/{page_index}'}
                impl_ctx = real_contexts(page_box)
                n_ctx = impl_ctx.count('(ctx')
                sec_ctx.add(sx.line('frompage', attrs, kids), impl_ctx, meta=meta, nontrivial=n_ctx >= 4,
                            tags=[f'ctx{min(n_ctx // 4 * 4, 40)}'] + sorted(used))
                impl_paint = docs.outcome(lambda: scene.paint_page(document, page))
                n_items = impl_paint.count(':') // 4
                sec_paint.add(sx.line('paint', attrs, canvas, kids), impl_paint, meta=meta,
                              nontrivial=n_items >= 8 and n_ctx >= 3, tags=[f'items{min(n_items // 20 * 20, 200)}'])
        run.extra['render_errors_skipped'] = render_errors

        sec_mock = run.section(
            'mock-dispatch',
            'StackingContext.from_page on real box objects built from random abstract trees (all box classes, '
            'placeholders, huge/negative z, opacity 0, >1, 1-2^-40, depth <= 7) without layout; non-trivial = the tree '
            'has a context-creating box below the top level')
        kinds = mock_kinds()
        for case in range(run.n(2500, 60000)):
            adversarial = case % 3 == 0
            specs = [random_spec(rng, rng.choice([1, 2, 3, 4, 5, 7] if adversarial else [2, 3, 4]), kinds, adversarial)
                     for _ in range(rng.choice([1, 1, 2, 3]))]
            page = mock_page(specs)
            attrs, kids, _ = scene.export_page(page)
            impl = real_contexts(page)
            sec_mock.add(sx.line('frompage', attrs, kids), impl, meta={'specs': specs, 'signature': f'mock{case}'},
                         nontrivial=impl.count('(ctx') > 1 + len(specs),
                         tags=['adversarial' if adversarial else 'structured'])

        sec_round = run.section(
            'rounded-boxes',
            'Box.rounded_box / rounded_padding_box / rounded_border_box / rounded_content_box / rounded_box_ratio on '
            'real boxes with Fraction geometry (independent border widths, paddings, elliptical radii, overlapping '
            'corners, zeros, huge values) vs RoundedBox.lean, exact; non-trivial = a non-zero radius meets a non-zero '
            'inset and top/bottom or left/right insets differ')
        for case in range(run.n(4000, 60000)):
            adversarial = case % 4 == 0
            lengths, radii = random_geo(rng, adversarial)
            call = rng.choice(['rbox', 'rpadding', 'rpadding', 'rborder', 'rcontent', 'rcontent', 'rratio'])
            args = []
            if call == 'rbox':
                args = [Fraction(rng.randrange(0, 60), rng.choice([1, 2, 3])) for _ in range(4)]
            elif call == 'rratio':
                args = [rng.choice([Fraction(1, 2), Fraction(1, 3), Fraction(2, 3), Fraction(1)])]
            box = geo_box(lengths, radii)
            out = docs.outcome(lambda: show_rounded(rounded_call(box, call, args)))
            asym = lengths[4] != lengths[6] or lengths[5] != lengths[7] or bool(args)
            sec_round.add(sx.line(call, geo_wire(lengths, radii), *args), out,
                          meta={'lengths': lengths, 'radii': radii, 'call': call, 'args': args,
                                'signature': f'round{case}'},
                          nontrivial=asym and any(r[0] and r[1] for r in radii) and call != 'rborder',
                          tags=[call, 'adversarial' if adversarial else 'structured'])
        sec_radii = run.section(
            'radii-percentages',
            'resolve_radii_percentages on real boxes (px / % radii, zero components, removed decoration sides) vs '
            'resolveRadii; non-trivial = a percentage radius on a non-square border box')
        for case in range(run.n(2000, 30000)):
            lengths, _ = random_geo(rng, case % 5 == 0)
            corners, removed = radii_case(rng)
            out = docs.outcome(lambda: real_radii(lengths, corners, removed))
            wire_corners = [[rx[0], rx[1] == '%', ry[0], ry[1] == '%'] for rx, ry in corners]
            rm = [side in removed for side in ('top', 'right', 'bottom', 'left')]
            sec_radii.add(sx.line('radii', geo_wire(lengths, [(0, 0)] * 4), rm, wire_corners), out,
                          meta={'lengths': lengths, 'corners': corners, 'removed': removed,
                                'signature': f'radii{case}'},
                          nontrivial=any(rx[1] == '%' or ry[1] == '%' for rx, ry in corners))

        sec_sort = run.section(
            'sort-z', 'StackingContext.__init__ on child contexts with random z-indexes (ties, negatives, zero, 10^15) '
            'vs splitZ/sortZ; non-trivial = two equal z among >= 3')
        for case in range(run.n(3000, 60000)):
            n = rng.choice([0, 1, 2, 3, 4, 5, 6, 8, 12, 20])
            pool = rng.choice([[-1, 0, 1], [-2, -1, 0, 1, 2], [-3, -3, 5, 5, 0], [10 ** 15, -10 ** 15, 0, 1, -1],
                               list(range(-6, 7))])
            zs = [rng.choice(pool) for _ in range(n)]
            sec_sort.add(sx.line('sortz', zs), real_sort(zs), meta={'zs': zs, 'signature': f'sort{zs}'},
                         nontrivial=n >= 3 and len(set(zs)) < n)

    # ------------------------------------------------------------------------------------------------
    def judge(self, d):
        meta = d.get('meta') or {}
        if d['section'] == 'sort-z':
            return sort_violation(meta['zs'], d['impl'])
        if d['section'] == 'rounded-boxes':
            return rounded_violation(frac_list(meta['lengths']), [tuple(frac_list(r)) for r in meta['radii']],
                                     meta['call'], frac_list(meta['args']))
        if d['section'] == 'radii-percentages':
            return radii_violation(frac_list(meta['lengths']),
                                   [tuple((Fraction(v), u) for v, u in c) for c in meta['corners']], meta['removed'])
        if d['section'] == 'mock-dispatch':
            page = mock_page([tuple_spec(s) for s in meta['specs']])
            attrs, kids, _ = scene.export_page(page)
            return oracle.contexts_violation(attrs, kids, real_contexts(page))
        if d['section'] in ('scene-contexts', 'scene-paint'):
            what, _ = check_html(meta['html'])
            return what
        return None

    def search(self, run, failures):
        """Fresh documents, small first, judged by the oracle on the implementation alone."""
        docs.quiet()
        found = []
        candidates = [BASE + body for body in CORPUS]
        for f in failures:
            detail = f.get('detail')
            if f['kind'] == 'correspondence' and isinstance(detail, dict) and 'html' in (detail.get('meta') or {}):
                candidates.insert(0, detail['meta']['html'])
        for depth, count in ((1, 60), (2, 120), (3, 120)):
            for _ in range(count):
                candidates.append(scene.Scene(run.rng, max_depth=depth).document())
        for html in candidates:
            run.search_stats['evaluations'] += 1
            try:
                what, _ = check_html(html)
            except Exception:  # a layout failure is not a C17 matter
                continue
            if what:
                found.append({'what': what, 'input': {'html': html}, 'signature': html[-80:]})
                if len(found) >= 3:
                    return found
        for case in range(3000):
            run.search_stats['evaluations'] += 1
            lengths, radii = random_geo(run.rng, case % 4 == 0)
            for call, args in (('rpadding', []), ('rcontent', []), ('rborder', []), ('rratio', [Fraction(1, 2)])):
                what = rounded_violation(lengths, radii, call, args)
                if what:
                    found.append({'what': what, 'input': {'lengths': lengths, 'radii': radii, 'call': call,
                                                          'args': args}, 'signature': f'round-{call}'})
                    break
            if len(found) >= 3:
                return found
        zs_cases = [[1, 1, -1, -1, 0, 0], [2, 1, 2, 1], [-1, -2, -1, -2], [0, 5, -5, 5, 0, -5]]
        for zs in zs_cases:
            run.search_stats['evaluations'] += 1
            what = sort_violation(zs, real_sort(zs))
            if what:
                found.append({'what': what, 'input': {'zs': zs}, 'signature': f'sort{zs}'})
        return found

    def finding_replays(self):
        return {fid: (lambda fid=fid, html=html: finding_still_there(BASE + html, fid))
                for fid, html in FINDINGS.items()}

    def replay(self, data):
        inp = data.get('input', {})
        meta = inp.get('meta') if isinstance(inp.get('meta'), dict) else inp
        if 'html' in meta:
            return check_html(meta['html'])[0]
        if 'zs' in meta:
            return sort_violation(meta['zs'], real_sort(meta['zs']))
        if 'call' in meta:
            return rounded_violation(frac_list(meta['lengths']), [tuple(frac_list(r)) for r in meta['radii']],
                                     meta['call'], frac_list(meta['args']))
        if 'corners' in meta:
            return radii_violation(frac_list(meta['lengths']),
                                   [tuple((Fraction(v), u) for v, u in c) for c in meta['corners']], meta['removed'])
        if 'specs' in meta:
            page = mock_page([tuple_spec(s) for s in meta['specs']])
            attrs, kids, _ = scene.export_page(page)
            return oracle.contexts_violation(attrs, kids, real_contexts(page))
        return None


def tuple_spec(s):
    """A spec read back from JSON (lists, opacity as 'n/d' string)."""
    kind, position, z, grid, opacity, transform, overflow, floated, placeholder, kids = s
    return (kind, position, z, grid, Fraction(opacity), transform, overflow, floated, placeholder,
            [tuple_spec(k) for k in kids])


# Minimal inputs of the known findings (known_findings.txt).
FINDINGS = {
    'context-root-loses-decoration':
        '<table style="border-collapse:separate"><tr style="position:relative;background:#000004">'
        '<td style="background:#000008;color:#000009">a</td></tr></table>'
        '<div style="display:grid;opacity:0.5;background:#00000c"><div>b</div></div>',
    'inline-root-background-late':
        '<span style="position:relative;z-index:0;background:#000004;color:#000005">t<span style="position:relative;'
        'z-index:-1;background:#000008;color:#000009">inner</span></span>',
    'outline-escapes-overflow-clip':
        '<div style="overflow:hidden;background:#000004"><p style="outline:2px solid #00000b;color:#000009">x</p></div>',
    'clip-escaped-by-positioned-descendant':
        '<div style="position:absolute;clip:rect(0px,5px,5px,0px);background:#000004"><div style="position:relative;'
        'background:#000008;color:#000009">x</div></div>',
}

PROP = C17()

MANIFEST = {
    'design_ref': 'DESIGN.md §4 C17',
    'technique': 'Lean 4 theorems over a literal model of stacking.py and of the paint sequence of draw/__init__.py '
                 '(every class test regenerated from the source each run); executable correspondence with the real '
                 'StackingContext.from_page and with the display list interpreted from the real content stream of '
                 'generated documents, plus the real dispatcher on mock box trees',
    'text': 'Unbounded theorems (any tree, any z-indexes): the state-passing dispatcher (mutable lists, insert at a '
            'remembered index, assert) equals a pure specification and its assert is unreachable; it loses and '
            'duplicates no box and keeps tree order in every bucket; a box roots a real / positioned-auto / float / '
            'atomic-inline context exactly under the CSS 2.1 9.9.1 conditions; child contexts are split by sign and '
            'stably sorted; the paint list of a context is own decoration, negative contexts, block backgrounds, '
            'floats, inline content, zero/auto, positive contexts, outlines, the overflow clip excluding its own '
            'border; every item of a context carries its opacity group / transform / clip (subtree atomicity); on the '
            'block / line / inline / atomic-inline grammar every background is painted exactly once per page and '
            'never below a singular transform, under the explicit hypothesis that context roots are of a class painted '
            'by point 2 or 6 (false for grid containers and table rows: known finding with Lean witness).',
    'note': 'Trusted: Lean kernel, the class-test extractor, the export of a laid-out page to the abstract tree, the '
            'content-stream interpreter. Not proved: paint-once for text items and for tables in flow, absence of the '
            'draw_inline_level asserts (both exercised by the correspondence only). Geometry of the painted '
            'rectangles, radii, glyphs/ToUnicode, images, collapsed borders are not modelled (search only). Four '
            'known findings are listed in known_findings.txt.',
}
