"""C17 — what is painted is what was laid out, in CSS paint order."""
from fractions import Fraction

from extract import stack_kinds
from harness import c17_oracle as oracle
from harness import c17_scene as scene
from harness import docs
from vlib import sx
from vlib.framework import PropCheck

# Hand-written scenes, run first: one per branch of `_dispatch` / point of `draw_stacking_context`.
BASE = ('<style>@page{size:300px 400px;margin:10px}html{background:#d00001}'
        'body{margin:0;font-size:10px;line-height:12px}</style>')
CORPUS = [
    '<div style="background:#000004;color:#000005">a<span style="background:#000008;color:#000009">b</span>c</div>',
    '<div style="position:relative;z-index:-1;background:#000004">n</div><div style="background:#000008">b</div>'
    '<div style="position:relative;z-index:2;background:#00000c">p2</div>'
    '<div style="position:relative;z-index:1;background:#000010">p1</div>'
    '<div style="position:relative;z-index:1;background:#000014">p1b</div>'
    '<div style="position:relative;background:#000018">auto</div><div style="float:left;background:#00001c">f</div>',
    '<div style="position:relative;background:#000004"><div style="position:absolute;z-index:-1;background:#000008">'
    'deep</div><div style="float:left;background:#00000c"><div style="position:relative;z-index:3;'
    'background:#000010">x</div></div></div>',
    '<p style="background:#000004">t<span style="display:inline-block;background:#000008;color:#000009">ib'
    '<span style="position:relative;z-index:-1;background:#00000c">neg</span></span>u</p>',
    '<div style="opacity:0.5;background:#000004"><div style="opacity:0.25;background:#000008;color:#000009">o</div>'
    '<div style="transform:translate(1001px,0);background:#00000c">t</div></div>'
    '<div style="transform:scale(0);background:#000010">gone<div style="position:relative;z-index:5">gone</div></div>',
    '<div style="overflow:hidden;background:#000004;border:2px solid #000006;outline:1px solid #000007">'
    '<p style="background:#000008;outline:1px solid #00000b">clipped</p></div>',
    '<table style="background:#000004;border:1px solid #000006;border-collapse:separate">'
    '<colgroup style="background:#000008"><col style="background:#00000c"></colgroup>'
    '<tr style="background:#000010"><td style="background:#000014;border:1px solid #000016">c</td>'
    '<td style="background:#000018;empty-cells:hide"></td><td style="background:#00001c;opacity:0.5">o</td></tr></table>',
    '<div style="display:flex;background:#000004"><div style="z-index:2;background:#000008">a</div>'
    '<div style="z-index:1;background:#00000c">b</div></div>'
    '<div style="display:grid;background:#000010"><div style="z-index:2;background:#000014">a</div>'
    '<div style="z-index:-1;background:#000018">b</div><div style="background:#00001c">c</div></div>',
    '<div style="visibility:hidden;background:#000004;border:1px solid #000006">h<span style="visibility:visible;'
    'background:#000008;color:#000009">v</span></div>',
    '<div style="position:absolute;clip:rect(0px,20px,20px,0px);background:#000004">cl</div>',
    # regression: input of the former finding collapse-paints-background (repaired by af29a5d)
    '<p style="visibility:collapse;background:#000004;color:#000005;border:1px solid #000006">h</p>'
    '<table style="border-collapse:separate"><tr><td hidden style="background:#000008;color:#000009">c</td>'
    '<td style="background:#00000c;color:#00000d">d</td></tr></table>',
    # visibility is inherited and reset: visible inline content of every kind inside hidden inline / block boxes
    '<p style="color:#000005">t<span style="visibility:hidden;background:#000008;color:#000009;border:1px solid #00000a">'
    'h<span style="visibility:visible;background:#00000c;color:#00000d">v</span><b style="color:#000011">still hidden</b>'
    '<span style="visibility:visible;display:inline-block;background:#000014;color:#000015">ib</span>'
    '<span style="color:#000019">h<i style="visibility:visible;color:#00001d;outline:1px solid #00001f">deep</i></span>'
    '</span>u</p>',
    '<p style="visibility:collapse;background:#000004;color:#000005">h<span style="background:#000008;color:#000009">'
    'h<span style="visibility:visible;color:#00000d">v</span></span></p>'
    '<div style="visibility:hidden;float:left;background:#000010"><span style="color:#000015">h<span '
    'style="visibility:visible;position:relative;color:#000019">rel</span><span style="visibility:visible;'
    'background:#00001c;color:#00001d">v</span></span></div>',
    # the known findings
    '<table style="border-collapse:separate"><tr style="position:relative;background:#000004">'
    '<td style="background:#000008">a</td></tr></table>',
    '<div style="display:grid;opacity:0.5;background:#000004"><div style="background:#000008">a</div></div>',
    '<span style="position:relative;z-index:0;background:#000004">t<span style="position:relative;z-index:-1;'
    'background:#000008">inner</span></span>',
]

# Documents given whole (own <style>): canvas propagation (CSS 2.1 14.2) and transforms on every
# transformable class; run first with the corpus.
PAGE = '<style>@page{size:300px 400px;margin:10px}'
DOC_CORPUS = [
    PAGE + 'body{margin:5px;background:#000008;color:#000009;font-size:10px}</style><p>body to canvas</p>',
    PAGE + 'html{background:#000004}body{margin:5px;background:#000008;color:#000009}</style><p>both</p>',
    PAGE + 'body{margin:5px;background:rgba(0,0,8,0.5);border-radius:4px;color:#000009}</style><p>translucent</p>',
    PAGE + 'html{visibility:hidden;background:#000004}body{visibility:visible;background:#000008;color:#000009}'
    '</style><p>hidden root</p>',
    PAGE + 'body{position:absolute;background:#000008;color:#000009}</style><p>abs body</p>',
    PAGE + 'body{background:#000008;opacity:0.5;color:#000009}</style><p style="background:#00000c">opacity body</p>',
    PAGE + 'body{margin:0;font-size:10px}</style><p>no background at all</p>',
    PAGE + 'body{margin:0;font-size:10px;line-height:12px}</style>'
    '<table style="border-collapse:separate"><tr><td style="transform:translate(1001px,0);background:#000004;'
    'color:#000005">cell</td><td style="background:#000008;color:#000009">b</td></tr></table>'
    '<div style="display:inline-flex;transform:translate(1002px,0);background:#00000c;color:#00000d">flex</div>'
    '<div style="display:inline-grid;transform:translate(1003px,0);background:#000010;color:#000011">grid</div>'
    '<span style="transform:translate(1004px,0);background:#000014;color:#000015">inline: not transformable</span>',
    PAGE + 'body{margin:0;font-size:10px;line-height:12px}</style>'
    '<table style="border-collapse:separate"><caption style="transform:translate(1001px,0);background:#000004;'
    'color:#000005">cap</caption><tr><td style="transform:scale(0);background:#000008;color:#000009">gone</td>'
    '<td style="background:#00000c;color:#00000d">b</td></tr></table>'
    '<img src="data:image/svg+xml,%3Csvg xmlns=\'http://www.w3.org/2000/svg\' width=\'10\' height=\'8\'%3E%3C/svg%3E" '
    'style="transform:translate(1002px,0);background:#000010">',
]

# Backgrounds with images (gradients): their painting is not modelled; compared after layout only.
LAYOUT_CORPUS = [
    PAGE + 'html{background:linear-gradient(#000004,#000008)}body{background:#00000c;color:#00000d}</style><p>g</p>',
    PAGE + 'body{background:linear-gradient(#000004,#000008);color:#00000d}</style><p>g</p>',
    PAGE + 'html{background:none}body{background-image:none,linear-gradient(#000004,#000008)}</style>'
    '<p style="background-image:none,linear-gradient(#000004,#000008);visibility:hidden">g</p>',
    PAGE + '@page{background:linear-gradient(#000004,#000008)}html{background:none}body{color:#00000d}</style>'
    '<p style="background-image:none;background-color:rgba(0,0,0,0)">g</p>',
]

OPACITIES = [Fraction(1), Fraction(1), Fraction(1), Fraction(1, 2), Fraction(0), Fraction(3, 2), Fraction(-1),
             1 - Fraction(1, 2 ** 40), Fraction(1, 3)]
ZS = ['auto', 'auto', 'auto', 0, 0, -1, 1, 2, -2, 1, 10 ** 15, -10 ** 15]


def mock_kinds():
    from weasyprint.formatting_structure import boxes
    return [c.__name__ for c in vars(boxes).values() if isinstance(c, type) and issubclass(c, boxes.Box)]


def random_spec(rng, depth, kinds, adversarial):
    """An abstract box: (kind, position, z, grid, opacity, transform, overflow, float, placeholder, kids)."""
    if adversarial:
        kind = rng.choice(kinds)
    else:
        kind = rng.choice(['BlockBox', 'BlockBox', 'BlockBox', 'LineBox', 'InlineBox', 'TextBox', 'InlineBlockBox',
                           'TableBox', 'TableRowGroupBox', 'TableRowBox', 'TableCellBox', 'FlexBox', 'GridBox',
                           'InlineFlexBox', 'BlockReplacedBox', 'InlineReplacedBox'])
    position = rng.choice(['static', 'static', 'static', 'relative', 'absolute', 'fixed'])
    z = rng.choice(ZS)
    grid = rng.random() < 0.15
    opacity = rng.choice(OPACITIES) if rng.random() < (0.5 if adversarial else 0.15) else Fraction(1)
    transform = rng.random() < 0.08
    overflow = rng.choice(['visible'] * 8 + ['hidden', 'auto'])
    floated = rng.choice(['none'] * 5 + ['left', 'right'] + (['footnote'] if adversarial else []))
    placeholder = rng.random() < 0.1
    kids = []
    if depth > 0:
        width = rng.choice([0, 1, 1, 2, 3, 5] if not adversarial else [0, 1, 2, 2, 3, 8])
        kids = [random_spec(rng, depth - 1, kinds, adversarial) for _ in range(width)]
    return (kind, position, z, grid, opacity, transform, overflow, floated, placeholder, kids)


def mock_box(spec, counter=None):
    """A real box object of the named class carrying what stacking.py reads."""
    from tinycss2.color4 import parse_color
    from weasyprint.formatting_structure import boxes
    from weasyprint.layout.absolute import AbsolutePlaceholder
    kind, position, z, grid, opacity, transform, overflow, floated, placeholder, kids = spec
    cls = getattr(boxes, kind)
    box = cls.__new__(cls)
    black = parse_color('black')
    box.element_tag, box.element = 'x', None
    box.style = {
        'position': position, 'z_index': z, 'opacity': opacity,
        'transform': (('translate', (1, 0)),) if transform else (), 'overflow': overflow, 'float': floated,
        'visibility': 'visible', 'clip': (), 'border_top_color': black, 'border_left_color': black,
        'border_right_color': black, 'border_bottom_color': black, 'outline_width': 0,
        'outline_color': black, 'color': black, 'border_collapse': 'separate', 'empty_cells': 'show'}
    box.remove_decoration_sides = set()
    box.is_grid_item = grid
    if issubclass(cls, boxes.ParentBox):
        box.children = tuple(mock_box(k) for k in kids)
    else:
        box.children = []
    if issubclass(cls, boxes.TableBox):
        box.column_groups = ()
    return AbsolutePlaceholder(box) if placeholder else box


def mock_page(specs):
    from weasyprint.formatting_structure import boxes
    page = mock_box(('PageBox', 'static', 'auto', False, Fraction(1), False, 'visible', 'none', False, []))
    page.children = tuple(mock_box(s) for s in specs)
    page.canvas_background = None
    assert isinstance(page, boxes.PageBox)
    return page


def real_contexts(page_box):
    from weasyprint.stacking import StackingContext
    return docs.outcome(lambda: sx.dumps(scene.show_node(StackingContext.from_page(page_box))))


class FakeContext:
    def __init__(self, ident, z):
        self.ident, self.z_index = ident, z


def real_sort(zs):
    from weasyprint.stacking import StackingContext

    class B:
        style = {'z_index': 'auto'}
    ctx = StackingContext(B(), [FakeContext(i, z) for i, z in enumerate(zs)], [], [], [], None)
    def ids(lst):
        return ' '.join(str(c.ident) for c in lst)
    return f'({ids(ctx.negative_z_contexts)}) ({ids(ctx.zero_z_contexts)}) ({ids(ctx.positive_z_contexts)})'


def sort_violation(zs, impl):
    """Clause: negative / zero / positive split, each sorted by (z, original position)."""
    idx = list(range(len(zs)))
    def fmt(sel):
        return ' '.join(str(i) for i in sorted(sel, key=lambda i: (zs[i], i)))
    want = (f'({fmt([i for i in idx if zs[i] < 0])}) ({fmt([i for i in idx if zs[i] == 0])}) '
            f'({fmt([i for i in idx if zs[i] > 0])})')
    if impl != want:
        return f'child contexts with z-indexes {zs} ordered {impl}, CSS 2.1 E.2 (z, then tree order) gives {want}'
    return None


# ---------------------------------------------------------------------------------------------------
# rounded boxes (Box.rounded_box & co, resolve_radii_percentages): direct calls with Fractions

GEO_SLOTS = ('position_x position_y margin_left margin_top border_top_width border_right_width border_bottom_width '
             'border_left_width padding_top padding_right padding_bottom padding_left width height').split()
CORNERS = ('top_left', 'top_right', 'bottom_right', 'bottom_left')


def random_geo(rng, adversarial):
    """14 lengths + 4 radii pairs, as Fractions (halves, quarters, thirds; zeros and huge values when adversarial)."""
    def length(top):
        roll = rng.random()
        if roll < 0.2:
            return Fraction(0)
        if adversarial and roll < 0.3:
            return Fraction(rng.choice([10 ** 6, 10 ** 9, 1]), rng.choice([1, 3, 7]))
        return Fraction(rng.randrange(0, top * 4), rng.choice([1, 2, 4, 4, 3]))
    lengths = [length(50), length(50), length(20), length(20)]
    lengths += [length(12) for _ in range(4)]           # border widths: independent per side
    lengths += [length(8) for _ in range(4)]            # paddings
    lengths += [length(60), length(60)]                 # content width / height
    if not adversarial and rng.random() < 0.5:
        lengths[12] += 40
        lengths[13] += 40
    def radius():
        roll = rng.random()
        if roll < 0.15:
            return (Fraction(0), Fraction(0))
        rx = length(25)
        return (rx, rx) if roll < 0.5 else (rx, length(25))
    radii = [radius() for _ in range(4)]
    if rng.random() < 0.3:
        radii = [radii[0]] * 4
    return lengths, radii


def geo_box(lengths, radii):
    from weasyprint.formatting_structure import boxes
    box = boxes.BlockBox.__new__(boxes.BlockBox)
    for name, value in zip(GEO_SLOTS, lengths):
        setattr(box, name, value)
    for corner, value in zip(CORNERS, radii):
        setattr(box, f'border_{corner}_radius', tuple(value))
    box.remove_decoration_sides = set()
    box.children = ()
    return box


def geo_wire(lengths, radii):
    return list(lengths) + [list(r) for r in radii]


def show_rounded(result):
    x, y, w, h, *corners = result
    def atom(v):
        return sx.atom(Fraction(v))
    return ' '.join([atom(x), atom(y), atom(w), atom(h)] + [f'({atom(a)} {atom(b)})' for a, b in corners])


def rounded_call(box, call, args):
    if call == 'rbox':
        return box.rounded_box(*args)
    if call == 'rratio':
        return box.rounded_box_ratio(*args)
    return {'rpadding': box.rounded_padding_box, 'rborder': box.rounded_border_box,
            'rcontent': box.rounded_content_box}[call]()


def rounded_expected(lengths, radii, call, args):
    """css-backgrounds-3 corner shaping + corner overlap, stated directly (judge only)."""
    px, py, ml, mt, bt, br, bb, bl, pt, pr, pb, pl, width, height = lengths
    border_w = width + pl + pr + bl + br
    border_h = height + pt + pb + bt + bb
    if call == 'rbox':
        it, ir, ib, il = args
    elif call == 'rratio':
        it, ir, ib, il = (w * args[0] for w in (bt, br, bb, bl))
    elif call == 'rpadding':
        it, ir, ib, il = bt, br, bb, bl
    elif call == 'rborder':
        it = ir = ib = il = 0
    else:
        it, ir, ib, il = bt + pt, br + pr, bb + pb, bl + pl
    # horizontal radius shrinks by the inset of the corner's left/right side, vertical by its top/bottom side
    insets = {'top_left': (il, it), 'top_right': (ir, it), 'bottom_right': (ir, ib), 'bottom_left': (il, ib)}
    inner = {c: (max(0, r[0] - insets[c][0]), max(0, r[1] - insets[c][1])) for c, r in zip(CORNERS, radii)}
    w, h = border_w - il - ir, border_h - it - ib
    ratio = Fraction(1)
    for extent, total in ((w, inner['top_left'][0] + inner['top_right'][0]),
                          (w, inner['bottom_left'][0] + inner['bottom_right'][0]),
                          (h, inner['top_left'][1] + inner['bottom_left'][1]),
                          (h, inner['top_right'][1] + inner['bottom_right'][1])):
        if total > 0:
            ratio = min(ratio, Fraction(extent) / total)
    return (px + ml + il, py + mt + it, w, h) + tuple(
        (inner[c][0] * ratio, inner[c][1] * ratio) for c in CORNERS)


def rounded_violation(lengths, radii, call, args):
    box = geo_box(lengths, radii)
    got = docs.outcome(lambda: show_rounded(rounded_call(box, call, args)))
    want = show_rounded(rounded_expected(lengths, radii, call, args))
    if got != want:
        return (f'{call}{tuple(str(a) for a in args)} on border widths {[str(v) for v in lengths[4:8]]}, paddings '
                f'{[str(v) for v in lengths[8:12]]}, content {lengths[12]}x{lengths[13]}, radii '
                f'{[(str(a), str(b)) for a, b in radii]}: rectangle/radii {got}; CSS (inner radius = max(0, outer - '
                f'inset) per corner and axis, then corner-overlap scaling) gives {want}')
    return None


def radii_case(rng):
    """Computed radii (value, '%' | 'px') for resolve_radii_percentages + removed sides."""
    def dim():
        roll = rng.random()
        if roll < 0.2:
            return (Fraction(0), 'px')
        if roll < 0.55:
            return (Fraction(rng.randrange(0, 200), rng.choice([1, 2, 4])), '%')
        return (Fraction(rng.randrange(0, 160), rng.choice([1, 2, 4])), 'px')
    corners = [(dim(), dim()) for _ in range(4)]
    removed = [side for side in ('top', 'right', 'bottom', 'left') if rng.random() < 0.15]
    return corners, removed


def real_radii(lengths, corners, removed):
    from weasyprint.css.properties import Dimension
    from weasyprint.layout.percent import resolve_radii_percentages
    box = geo_box(lengths, [(0, 0)] * 4)
    box.remove_decoration_sides = set(removed)
    box.style = {f'border_{c}_radius': (Dimension(*rx), Dimension(*ry)) for c, (rx, ry) in zip(CORNERS, corners)}
    resolve_radii_percentages(box)
    return ' '.join(f'({sx.atom(Fraction(a))} {sx.atom(Fraction(b))})'
                    for a, b in (getattr(box, f'border_{c}_radius') for c in CORNERS))


def radii_violation(lengths, corners, removed):
    px, py, ml, mt, bt, br, bb, bl, pt, pr, pb, pl, width, height = lengths
    border_w = width + pl + pr + bl + br
    border_h = height + pt + pb + bt + bb
    want = []
    for corner, (rx, ry) in zip(CORNERS, corners):
        def used(d, ref):
            return ref * d[0] / 100 if d[1] == '%' else d[0]
        if (rx[0] == 0 and rx[1] == 'px') or (ry[0] == 0 and ry[1] == 'px') or set(corner.split('_')) & set(removed):
            want.append((Fraction(0), Fraction(0)))
        else:
            want.append((used(rx, border_w), used(ry, border_h)))
    want = ' '.join(f'({sx.atom(Fraction(a))} {sx.atom(Fraction(b))})' for a, b in want)
    got = docs.outcome(lambda: real_radii(lengths, corners, removed))
    if got != want:
        return (f'border radii {corners} on a {border_w}x{border_h} border box (removed sides {removed}) resolve to '
                f'{got}; css-backgrounds-3 (% of the border-box width / height) gives {want}')
    return None


def thaw_origin(origin):
    return tuple((Fraction(v), u) for v, u in origin)


def thaw_fns(fns):
    out = []
    for name, args in fns:
        if name == 'translate':
            out.append((name, tuple((Fraction(v), u) for v, u in args)))
        else:
            out.append((name, tuple(Fraction(v) for v in args)))
    return out


def frac_list(values):
    return [Fraction(v) for v in values]


# ---------------------------------------------------------------------------------------------------
# ToUnicode map-back

TEXT_WORDS = ['office', 'waffle', 'fjord', 'Hello,', 'wörld!', 'naïve', 'façade', 'Ångström', 'señor', 'straße',
              '“quoted”', '—', '½', '1/2', 'x-ray', 'A&B', 'über', 'fi', 'ffl', 'ff', 'Zoë', 'déjà', 'vu', '100%',
              '(a)', '[b]', 'c;d', 'e:f', 'µ', 'Ω', '≤', 'a b', 'K', 'Δ', '∆', 'Å']
PLAIN_WORDS = ['abc', 'def', 'g', 'hi jk', 'lmnop', 'qrs tuv', 'wxyz']


GLYPH_POOL = ([chr(c) for c in range(33, 127) if chr(c) not in '<>&'] + [chr(c) for c in range(0xa1, 0x100) if c != 0xad] +
              [chr(c) for c in range(0x391, 0x3ca) if c != 0x3a2] + [chr(c) for c in range(0x410, 0x450)])


def text_document(rng, many_glyphs=None):
    parts = ['<style>@page{size:400px 600px;margin:10px}body{margin:0;font-size:10px;line-height:12px}</style>']
    if many_glyphs:
        # more distinct glyphs in one font than one `beginbfchar` batch (100) holds
        chars = rng.sample(GLYPH_POOL, many_glyphs)
        words = [''.join(chars[i:i + 7]) for i in range(0, len(chars), 7)]
        parts.append(f'<p>{" ".join(words)}</p>')
        return ''.join(parts)
    for _ in range(rng.randrange(1, 6)):
        style = rng.choice(['', 'font-weight:bold', 'font-style:italic', 'opacity:0.5', 'font-size:14px',
                            'text-align:right', 'letter-spacing:1px', 'word-spacing:3px', 'text-align:justify'])
        inner = []
        for _ in range(rng.randrange(1, 12)):
            roll = rng.random()
            if roll < 0.7:
                inner.append(rng.choice(TEXT_WORDS))
            elif roll < 0.85:
                inner.append(f'<span style="font-family:weasyprint">{rng.choice(PLAIN_WORDS)}</span>')
            else:
                inner.append(f'<b>{rng.choice(TEXT_WORDS)}</b>')
        parts.append(f'<p style="{style}">{" ".join(inner)}</p>')
    return ''.join(parts)


def tounicode_cases(html):
    """-> [(cmap entries, glyphs, text, note)] for every text run of the painted document."""
    from weasyprint.formatting_structure import boxes
    document = scene.render(html)
    streams = scene.paint_all(document)
    cmaps = scene.written_cmaps(document)
    cases = []
    for stream, page in zip(streams, document.pages):
        text_boxes = [box for box in page._page_box.descendants() if isinstance(box, boxes.TextBox)]
        for x, y, segments in scene.text_runs(stream):
            fx, fy = float(x), float(y)
            candidates = [box for box in text_boxes
                          if abs(box.position_x - fx) < 1e-4 and abs(box.position_y + box.baseline - fy) < 1e-4]
            if not candidates:
                cases.append(([], [], None, f'text shown at ({x}, {y}) where no text box has its baseline origin'))
                continue
            text_boxes.remove(candidates[0])
            box = candidates[0]
            fonts = {font for font, _ in segments}
            if len(fonts) != 1:
                continue         # font fallback inside one box: glyph ids of several fonts, not compared
            glyphs = [g for _, gs in segments for g in gs]
            # U+200B is inserted by the layout at inline boundaries and has no glyph (PANGO_GLYPH_EMPTY)
            cases.append((cmaps[fonts.pop()], glyphs, box.text.replace('\u200b', ''), None))
    return cases


def py_decode(entries, glyphs):
    table = {}
    for glyph, units in entries:
        table.setdefault(glyph, units)
    decoded = []
    for glyph in glyphs:
        if glyph not in table:
            return None, glyph
        decoded += table[glyph]
    return decoded, None


def tounicode_violation(html):
    """Every shown glyph run maps back through the written ToUnicode CMap to exactly the text of the text box
    at whose baseline origin it is shown (no exemption: the line-end space glyphs of the former finding
    `line-end-space-glyph`, repaired by edeb32e, are a violation again)."""
    for entries, glyphs, text, note in tounicode_cases(html):
        if note:
            return note
        decoded, missing = py_decode(entries, glyphs)
        if decoded is None:
            return f'glyph {missing:04x} of the text {text!r} has no entry in the ToUnicode CMap'
        if decoded != scene.utf16_units(text):
            back = bytes(b for u in decoded for b in u.to_bytes(2, 'big')).decode('utf-16-be', 'replace')
            return f'the glyphs shown for the text box {text!r} map back through ToUnicode to {back!r}'
    return None


def written_violation(html):
    """PDF 32000-1 9.10.3: the value of a bfchar entry is the UTF-16BE encoding of the glyph's text."""
    document = scene.render(html)
    scene.paint_all(document)
    for glyph, text, line in scene.written_bfchar_lines(document):
        want = f'<{glyph:04x}> <{text.encode("utf-16-be").hex()}>'
        if line != want:
            return (f'the ToUnicode CMap maps glyph {glyph:04x} (text {text!r}) with the line {line!r}; the UTF-16BE '
                    f'value of the text gives {want!r}')
    return None


# ---------------------------------------------------------------------------------------------------
# transformation matrix (anchors.py gather_anchors + matrix.py) on mock boxes with Fractions

def random_transform(rng):
    def frac(top):
        return Fraction(rng.randrange(-top * 4, top * 4), rng.choice([1, 2, 4, 3]))
    def dim():
        return (frac(30), '%') if rng.random() < 0.4 else (frac(60), 'px')
    fns = []
    for _ in range(rng.choice([1, 1, 2, 3, 4])):
        roll = rng.random()
        if roll < 0.4:
            fns.append(('scale', (rng.choice([Fraction(0), Fraction(1), Fraction(-1), frac(3), Fraction(1, 2)]),
                                  rng.choice([Fraction(1), frac(3), Fraction(2), Fraction(0)]))))
        elif roll < 0.8:
            fns.append(('translate', (dim(), dim())))
        else:
            fns.append(('matrix', tuple(frac(3) for _ in range(6))))
    origin = rng.choice([((Fraction(50), '%'), (Fraction(50), '%')), (dim(), dim()),
                         ((Fraction(0), 'px'), (Fraction(100), '%'))])
    return fns, origin


def real_matrix(lengths, fns, origin, kind='BlockBox'):
    from weasyprint.anchors import gather_anchors
    from weasyprint.css.properties import Dimension
    from weasyprint.formatting_structure import boxes
    box = geo_box(lengths, [(0, 0)] * 4)
    if kind != 'BlockBox':
        cls = getattr(boxes, kind)
        other = cls.__new__(cls)
        other.__dict__.update(box.__dict__)
        other.column_groups = ()
        box = other
    computed = []
    for name, args in fns:
        if name == 'translate':
            computed.append((name, tuple(Dimension(*d) for d in args)))
        else:
            computed.append((name, args))
    box.style = {'transform': tuple(computed), 'transform_origin': tuple(Dimension(*d) for d in origin),
                 'bookmark_level': 'none', 'bookmark_state': 'open', 'link': None, 'anchor': None,
                 'appearance': 'none'}
    box.element = None
    box.bookmark_label = None
    gather_anchors(box, {}, [], [], {})
    matrix = box.transformation_matrix
    if matrix is None:
        return 'none'
    return ' '.join(sx.atom(Fraction(v)) for v in (*matrix.values, matrix.determinant))


def matrix_wire(lengths, fns, origin):
    px, py, ml, mt, bt, br, bb, bl, pt, pr, pb, pl, width, height = lengths
    bw, bh = width + pl + pr + bl + br, height + pt + pb + bt + bb
    wire_fns = []
    for name, args in fns:
        if name == 'translate':
            (xv, xu), (yv, yu) = args
            wire_fns.append(['translate', xv, xu == '%', yv, yu == '%'])
        else:
            wire_fns.append([name, *args])
    (oxv, oxu), (oyv, oyu) = origin
    return [px + ml, py + mt, bw, bh], [oxv, oxu == '%', oyv, oyu == '%'], wire_fns


def matrix_violation(lengths, fns, origin, kind='BlockBox'):
    """css-transforms-1: the used matrix is T(origin) · F1 · … · Fn · T(-origin) acting on column vectors, i.e. a
    point is moved to the origin's frame, transformed by Fn first … F1 last, and moved back; every box but a
    non-replaced inline box is transformable, `transform: none` gives no matrix."""
    (bbx, bby, bw, bh), (oxv, oxp, oyv, oyp), wire_fns = matrix_wire(lengths, fns, origin)
    ox = bbx + (bw * oxv / 100 if oxp else oxv)
    oy = bby + (bh * oyv / 100 if oyp else oyv)

    def transform(x, y):
        x, y = x - ox, y - oy
        for fn in reversed(wire_fns):
            if fn[0] == 'scale':
                x, y = x * fn[1], y * fn[2]
            elif fn[0] == 'translate':
                x, y = x + (bw * fn[1] / 100 if fn[2] else fn[1]), y + (bh * fn[3] / 100 if fn[4] else fn[3])
            else:
                a, b, c, d, e, f = fn[1:]
                x, y = a * x + c * y + e, b * x + d * y + f
        return x + ox, y + oy

    got = docs.outcome(lambda: real_matrix(lengths, fns, origin, kind))
    if got.startswith('err:'):
        return f'transformation matrix of {fns} raised {got}'
    if not fns or kind in oracle.NOT_TRANSFORMABLE:
        return None if got == 'none' else f'a {kind} with transform {fns} got the transformation matrix {got}'
    if got == 'none':
        return (f'a {kind} with transform {fns} got no transformation matrix: the transform is not applied to '
                'the box and its subtree (css-transforms-1: every box but a non-replaced inline is transformable)')
    a, b, c, d, e, f, det = (Fraction(v) for v in got.split())
    for x, y in ((Fraction(0), Fraction(0)), (Fraction(1), Fraction(0)), (Fraction(0), Fraction(1)), (ox, oy)):
        have = (x * a + y * c + e, x * b + y * d + f)
        if have != transform(x, y):
            return (f'transform {fns} with origin {origin} on a {bw}x{bh} border box at ({bbx}, {bby}): the matrix '
                    f'({a} {b} {c} {d} {e} {f}) maps ({x}, {y}) to {have}, css-transforms gives {transform(x, y)}')
    if det != a * d - b * c:
        return f'determinant {det} of matrix ({a} {b} {c} {d} {e} {f})'
    return None


def check_html(html, exempt=True):
    """Oracle on a rendered document (judge / search / replay). -> (text | None, findings seen)"""
    document = scene.render(html)
    seen = set()
    for index, page in enumerate(document.pages):
        attrs, kids, canvas = scene.export_page(page._page_box, style_level=True)
        info = scene.doc_info(page._page_box)
        what = oracle.contexts_violation(attrs, kids, real_contexts(page._page_box))
        if what:
            return f'page {index}: {what}', seen
        what, findings = oracle.laid_out_violation(attrs, kids, info, scene.laid_out(page._page_box), exempt)
        seen |= findings
        if what:
            return f'page {index}: {what}', seen
        events = docs.outcome(lambda: scene.paint_page(document, page))
        what, findings = oracle.violation(attrs, kids, canvas, events, exempt, info)
        seen |= findings
        if what:
            return f'page {index}: {what}', seen
    return None, seen


def check_geometry(html, exempt=True, findings=None):
    """Geometry clauses on a rendered document (judge / search / replay). -> text | None"""
    document = scene.render(html)
    for index, page in enumerate(document.pages):
        scene.export_page(page._page_box)
        events = docs.outcome(lambda: scene.paint_page_geo(document, page))
        if events.startswith('err:'):
            return f'page {index}: painting raised {events}'
        what = oracle.geometry_violation(page._page_box, events.split(), exempt, findings)
        if what:
            return f'page {index}: {what}'
    return None


def geometry_finding_still_there(html, finding_id):
    seen = set()
    return bool(check_geometry(html, exempt=False, findings=seen)) and finding_id in seen


def finding_still_there(html, finding_id):
    """A known finding is still present when the un-exempted oracle fails and names it."""
    what, seen = check_html(html, exempt=False)
    return bool(what) and finding_id in seen


class C17(PropCheck):
    id = 'C17'
    extractors = (stack_kinds.generate,)
    modules = ('WpModel.Props.C17Utf16', 'WpModel.Props.C17ReadBack', 'WpModel.Props.C17', 'WpModel.Props.C17Paint', 'WpModel.Props.C17Text', 'WpModel.Props.C17Doc',
               'WpModel.Props.C17Parts', 'WpModel.Props.C17Clip',
               'WpModel.Witness.C17')
    trusted_base = (
        'modelled, not verified: stacking.py (StackingContext.__init__/from_page/from_box, _dispatch, '
        '_dispatch_children) and the paint sequence of draw/__init__.py (draw_page, draw_stacking_context, '
        'draw_background colour fill, draw_border simple case, draw_table, draw_outline, draw_inline_level, '
        'draw_text visibility) as Model/Stacking.lean + Model/PaintOrder.lean; every isinstance test is taken from '
        'Gen/StackKinds.lean (class tuples by AST, membership by issubclass)',
        'modelled, not verified: Box.rounded_box / rounded_padding_box / rounded_border_box / rounded_content_box / '
        'rounded_box_ratio (boxes.py) and resolve_radii_percentages (layout/percent.py) as Model/RoundedBox.lean, '
        'tied by exact direct calls with Fractions',
        'py/harness/c17_scene.py export_page: one abstract attribute per attribute read of the drawing code '
        '(style[...] / border widths / cell.empty); with style_level=True the background and the transform are '
        'exported as the style says them (visibility, background-color, number of background images; border box, '
        'transform-origin, transform functions) and element_tag == html / body for the root box and its children',
        'modelled, not verified: the TableRowGroupBox / TableRowBox / TableColumn(Group)Box branches of '
        'layout_background_layer (painting area, clipped cell boxes) as Model/TablePartBg.lean, tied by the geometric '
        'display list of documents with separated-borders tables',
        'modelled, not verified: the bfchar line of build_fonts_dictionary (UTF-16BE hex of the text, glyph id) as '
        'Model/Utf16.lean, tied line by line to the written ToUnicode CMaps',
        'modelled, not verified: the `clip` rectangle of draw_stacking_context (auto substitution, operands of '
        'stream.rectangle) as Model/ClipRect.lean, tied by the clip stacks of the geometric display list',
        'modelled, not verified: layout_box_backgrounds (is there a Background, its colour), layout_backgrounds '
        '(canvas background from the root element or its <body> child, chosen_box.background = None, canvas '
        'painting area = page border box) and the guard of gather_anchors (class test: graph of the real function '
        'on one box per class, Gen/StackKinds gaTransformable) as Model/LaidOut.lean',
        'modelled, not verified: layout_background_layer (ordinary boxes: painting area, clipped box), box_rectangle, '
        'draw/border.py rounded_box (path), the text matrix / font size of draw_text, gather_anchors + matrix.py '
        '(transformation matrix), the cmap recording of draw_first_line and the bfchar table of '
        'build_fonts_dictionary, as Model/RoundedBox.lean, Drive/PaintGeo.lean, Model/Transform.lean, '
        'Model/ToUnicode.lean',
        'py/harness/c17_scene.py display_list: interpretation of the uncompressed content stream (q/Q, rg, W, gs, cm, '
        'f, TJ, Do into opacity groups); a fill colour identifies element and role',
    )
    assumptions = (
        'generated borders are solid, one colour, four equal sides (the simple case of draw_border); collapsed-border '
        'tables have no borders; no images, gradients, text decorations, list markers; single font',
        'draw_collapsed_borders, draw_replacedbox, draw_background_image, rounded corners, dashed/double borders are '
        'not modelled (their items are not predicted)',
    )

    # ------------------------------------------------------------------------------------------------
    def correspondence(self, run):
        docs.quiet()
        rng = run.rng
        sec_ctx = run.section(
            'scene-contexts',
            'StackingContext.from_page on every laid-out page of generated documents vs Stacking.fromPage on the '
            'exported tree; buckets, pruned trees and orders compared as one canonical term; non-trivial = at least '
            'two contexts besides the page and the root')
        sec_paint = run.section(
            'scene-paint',
            'display list of Page.paint (fills and text shows with colour, clip depth, opacity groups, transforms) '
            'vs LaidOut.drawDocument on the style-level export (the model derives box.background, the canvas '
            'background and box.transformation_matrix from the styles, then PaintOrder.drawPage); non-trivial = at '
            'least 8 items and one nested context')
        sec_laid = run.section(
            'scene-laid-out',
            'page.canvas_background, box.background and box.transformation_matrix of every box after layout vs '
            'LaidOut.boxBackground / layoutBackgrounds / boxMatrix on the style-level export; non-trivial = the '
            'canvas background comes from <body>, or a box has a transform')
        htmls = [BASE + body for body in CORPUS] + DOC_CORPUS + LAYOUT_CORPUS
        layout_only = set(LAYOUT_CORPUS)
        branches_seen = set()
        n_docs = run.n(260, 5000)
        render_errors = {}
        for index in range(n_docs + len(htmls)):
            if index < len(htmls):
                html, used = htmls[index], {'corpus'}
            else:
                sc = scene.Scene(rng, max_depth=rng.choice([1, 2, 2, 3, 3, 4]), features={
                    'table_part_context': 0.08, 'grid_context': 0.3})
                html, used = sc.document(), sc.used
                if rng.random() < 0.15:
                    # small pages: boxes split between pages (removed border sides, repeated fixed boxes)
                    html = html.replace('size:700px 4000px', f'size:700px {rng.choice([100, 150, 240])}px')
                    used = used | {'multipage'}
            try:
                document = scene.render(html)
            except Exception as exc:  # layout failures belong to C02; counted, not compared
                render_errors[type(exc).__name__] = render_errors.get(type(exc).__name__, 0) + 1
                run.extra.setdefault('render_error_examples', []).append(
                    {'error': f'{type(exc).__name__}: {exc}'[:200], 'html': html[:3000]})
                continue
            for page_index, page in enumerate(document.pages[:5]):
                page_box = page._page_box
                try:
                    attrs, kids, canvas = scene.export_page(page_box, style_level=True)
                except ValueError as exc:     # a transform function outside the exported subset
                    render_errors[str(exc)] = render_errors.get(str(exc), 0) + 1
                    continue
                info = scene.doc_info(page_box)
                meta = {'html': html, 'page': page_index, 'signature': f'doc{index}/{page_index}'}
                if scene.SHARED:
                    used = used | {'shared-box-dealiased'}
                impl_laid = scene.laid_out(page_box)
                root_wire = kids[0]
                while root_wire[0] == 'P':
                    root_wire = root_wire[1]
                from_body = bool(info[0] and canvas != 'none' and oracle.spec_bg(root_wire[1][14]) == 'none')
                sec_laid.add(sx.line('laidout', attrs, info, kids), impl_laid, meta=meta,
                             nontrivial=from_body or bool(used & {'transform', 'singular'}),
                             tags=(['canvas-from-body'] if from_body else
                                   ['canvas-from-root'] if canvas != 'none' else ['no-canvas']) +
                             sorted(used & {'transform', 'singular', 'corpus', 'multipage'}))
                if html in layout_only:
                    continue
                impl_ctx = real_contexts(page_box)
                n_ctx = impl_ctx.count('(ctx')
                sec_ctx.add(sx.line('frompage', attrs, kids), impl_ctx, meta=meta, nontrivial=n_ctx >= 4,
                            tags=[f'ctx{min(n_ctx // 4 * 4, 40)}'] + sorted(used))
                impl_paint = docs.outcome(lambda: scene.paint_page(document, page))
                n_items = impl_paint.count(':') // 4
                branches = oracle.branch_tags(attrs, kids, canvas, info)
                branches_seen.update(branches)
                sec_paint.add(sx.line('paintdoc', attrs, info, kids), impl_paint, meta=meta,
                              nontrivial=n_items >= 8 and n_ctx >= 3,
                              tags=[f'items{min(n_items // 20 * 20, 200)}'] + branches)
        run.extra['render_errors_skipped'] = render_errors
        run.extra['model_branches_never_hit'] = sorted(set(oracle.ALL_BRANCHES) - branches_seen)

        sec_mock = run.section(
            'mock-dispatch',
            'StackingContext.from_page on real box objects built from random abstract trees (all box classes, '
            'placeholders, huge/negative z, opacity 0, >1, 1-2^-40, depth <= 7) without layout; non-trivial = the tree '
            'has a context-creating box below the top level')
        kinds = mock_kinds()
        for case in range(run.n(2500, 60000)):
            adversarial = case % 3 == 0
            specs = [random_spec(rng, rng.choice([1, 2, 3, 4, 5, 7] if adversarial else [2, 3, 4]), kinds, adversarial)
                     for _ in range(rng.choice([1, 1, 2, 3]))]
            page = mock_page(specs)
            attrs, kids, _ = scene.export_page(page)
            impl = real_contexts(page)
            sec_mock.add(sx.line('frompage', attrs, kids), impl, meta={'specs': specs, 'signature': f'mock{case}'},
                         nontrivial=impl.count('(ctx') > 1 + len(specs),
                         tags=['adversarial' if adversarial else 'structured'])

        sec_geo = run.section(
            'scene-geometry',
            'geometric display list of Page.paint on documents whose decorations are all modelled (four-sided '
            'borders of independent widths, paddings, px / % / elliptical radii, background-clip, overflow, floats, '
            'positioned and inline boxes, fixed-pitch font): every fill with its path, every clip path on the stack, '
            'every text show with its origin and font size, vs PaintGeo.lean; numbers within 1e-4 are snapped to the '
            "model's (counted as float_rounding); non-trivial = a curved path and an asymmetric border")
        geo_lines, geo_impl, geo_meta = [], [], []
        for index in range(run.n(150, 2000)):
            sc = scene.Scene(rng, max_depth=rng.choice([1, 2, 2, 3]), features={
                'geo': True, 'grid_context': 0.3, 'geo_tables': index % 3 == 0})
            html = sc.document()
            if index < len(GEO_CORPUS):
                html = BASE + GEO_CORPUS[index]
                sc.used = {'corpus', 'table'}
            try:
                document = scene.render(html)
            except Exception as exc:
                render_errors[type(exc).__name__] = render_errors.get(type(exc).__name__, 0) + 1
                continue
            for page_index, page in enumerate(document.pages[:2]):
                page_box = page._page_box
                attrs, kids, canvas = scene.export_page(page_box, style_level=True)
                table = scene.geometry_table(page_box)
                geo_lines.append(sx.line('paintgeodoc', attrs, scene.doc_info(page_box), kids, table))
                geo_impl.append(docs.outcome(lambda: scene.paint_page_geo(document, page)))
                geo_meta.append(({'html': html, 'page': page_index, 'geo': True,
                                  'signature': f'geo{index}/{page_index}'}, sorted(sc.used)))
        float_rounding = 0
        from vlib import lean
        for start in range(0, len(geo_lines), 500):
            chunk = geo_lines[start:start + 500]
            for offset, model_out in enumerate(lean.run_driver(self.driver, chunk)):
                k = start + offset
                canon, differed = scene.snap(geo_impl[k], model_out)
                float_rounding += differed
                meta, used = geo_meta[k]
                sec_geo.add(geo_lines[k], canon, meta=meta,
                            nontrivial='c(' in geo_impl[k] and 'border-asym' in used,
                            tags=used + (['float-rounded'] if differed else []))
        run.extra['float_rounding'] = float_rounding

        sec_uni = run.section(
            'tounicode',
            'glyph ids of every text-showing operator of painted documents (accents, ligatures, punctuation, three '
            'faces, two families, opacity groups) decoded through the ToUnicode CMap written by '
            'build_fonts_dictionary vs ToUnicode.decode, against the text of the text box whose baseline origin '
            'the text matrix has; non-trivial = a ligature or a non-ASCII character')
        batch_sizes = [99, 100, 101, 150, 201, 250]
        for index in range(run.n(60, 1000) + len(TEXT_CORPUS)):
            many = batch_sizes[index % len(batch_sizes)] if index % 10 == 0 else None
            # corpus first: the inputs of repaired findings stay as regression cases
            html = TEXT_CORPUS[index] if index < len(TEXT_CORPUS) else text_document(rng, many)
            try:
                cases = tounicode_cases(html)
            except Exception as exc:
                render_errors[type(exc).__name__] = render_errors.get(type(exc).__name__, 0) + 1
                continue
            for k, (entries, glyphs, text, note) in enumerate(cases):
                impl = note or sx.dumps(scene.utf16_units(text))
                stripped = bool(text) and index < len(TEXT_CORPUS) and len(glyphs) == len(text)
                sec_uni.add(sx.line('tounicode', [[g, units] for g, units in entries], glyphs), impl,
                            meta={'html': html, 'tounicode': True, 'signature': f'uni{index}/{k}'},
                            nontrivial=bool(text) and (len(glyphs) != len(text) or not text.isascii()),
                            tags=['ligature' if text and len(glyphs) < len(text) else 'one-to-one'] +
                            (['regression-corpus'] if stripped else []) +
                            ([f'cmap>{len(entries) // 100 * 100}'] if len(entries) >= 100 else []))

        sec_written = run.section(
            'tounicode-written',
            'every bfchar line of the ToUnicode CMaps written by build_fonts_dictionary for painted documents (the '
            'fixed astral / ligature family first, then generated text) vs Utf16.bfcharLine on the entry of '
            'font.cmap (glyph, text as code points); non-trivial = a text of several characters or a character '
            'above U+FFFF')
        written_docs = list(TEXT_CORPUS) + [text_document(rng, None) for _ in range(run.n(6, 100))]
        for index, html in enumerate(written_docs):
            try:
                document = scene.render(html)
                scene.paint_all(document)
                entries = scene.written_bfchar_lines(document)
            except Exception as exc:
                render_errors[type(exc).__name__] = render_errors.get(type(exc).__name__, 0) + 1
                continue
            for k, (glyph, text, line) in enumerate(entries):
                sec_written.add(sx.line('bfline', glyph, [ord(ch) for ch in text]), line,
                                meta={'html': html, 'tounicode': True, 'signature': f'bf{index}/{k}'},
                                nontrivial=len(text) > 1 or any(ord(ch) > 0xffff for ch in text),
                                tags=['astral' if any(ord(ch) > 0xffff for ch in text) else
                                      'cluster' if len(text) > 1 else 'bmp'])

        sec_round = run.section(
            'rounded-boxes',
            'Box.rounded_box / rounded_padding_box / rounded_border_box / rounded_content_box / rounded_box_ratio on '
            'real boxes with Fraction geometry (independent border widths, paddings, elliptical radii, overlapping '
            'corners, zeros, huge values) vs RoundedBox.lean, exact; non-trivial = a non-zero radius meets a non-zero '
            'inset and top/bottom or left/right insets differ')
        for case in range(run.n(4000, 60000)):
            adversarial = case % 4 == 0
            lengths, radii = random_geo(rng, adversarial)
            call = rng.choice(['rbox', 'rpadding', 'rpadding', 'rborder', 'rcontent', 'rcontent', 'rratio'])
            args = []
            if call == 'rbox':
                args = [Fraction(rng.randrange(0, 60), rng.choice([1, 2, 3])) for _ in range(4)]
            elif call == 'rratio':
                args = [rng.choice([Fraction(1, 2), Fraction(1, 3), Fraction(2, 3), Fraction(1)])]
            box = geo_box(lengths, radii)
            out = docs.outcome(lambda: show_rounded(rounded_call(box, call, args)))
            asym = lengths[4] != lengths[6] or lengths[5] != lengths[7] or bool(args)
            sec_round.add(sx.line(call, geo_wire(lengths, radii), *args), out,
                          meta={'lengths': lengths, 'radii': radii, 'call': call, 'args': args,
                                'signature': f'round{case}'},
                          nontrivial=asym and any(r[0] and r[1] for r in radii) and call != 'rborder',
                          tags=[call, 'adversarial' if adversarial else 'structured'])
        sec_radii = run.section(
            'radii-percentages',
            'resolve_radii_percentages on real boxes (px / % radii, zero components, removed decoration sides) vs '
            'resolveRadii; non-trivial = a percentage radius on a non-square border box')
        for case in range(run.n(2000, 30000)):
            lengths, _ = random_geo(rng, case % 5 == 0)
            corners, removed = radii_case(rng)
            out = docs.outcome(lambda: real_radii(lengths, corners, removed))
            wire_corners = [[rx[0], rx[1] == '%', ry[0], ry[1] == '%'] for rx, ry in corners]
            rm = [side in removed for side in ('top', 'right', 'bottom', 'left')]
            sec_radii.add(sx.line('radii', geo_wire(lengths, [(0, 0)] * 4), rm, wire_corners), out,
                          meta={'lengths': lengths, 'corners': corners, 'removed': removed,
                                'signature': f'radii{case}'},
                          nontrivial=any(rx[1] == '%' or ry[1] == '%' for rx, ry in corners))

        sec_matrix = run.section(
            'transform-matrix',
            'gather_anchors on real boxes of every box class with Fraction geometry and computed transform lists '
            '(none, scale incl. 0 and negative, translate px / %, matrix(), 1-4 functions, px / % origins): '
            'box.transformation_matrix (or None) and its determinant vs LaidOut.gatherMatrix, exact; non-trivial = '
            'two or more functions or a % value')
        for case in range(run.n(1500, 30000)):
            lengths, _ = random_geo(rng, case % 5 == 0)
            fns, origin = random_transform(rng)
            if case % 9 == 0:
                fns = []
            kind = rng.choice(kinds) if case % 2 else 'BlockBox'
            out = docs.outcome(lambda: real_matrix(lengths, fns, origin, kind))
            rect, org, wire_fns = matrix_wire(lengths, fns, origin)
            singular = out.endswith(' 0')
            sec_matrix.add(sx.line('gmatrix', kind, rect, org, wire_fns), out,
                           meta={'lengths': lengths, 'fns': fns, 'origin': origin, 'kind': kind,
                                 'signature': f'matrix{case}'},
                           nontrivial=len(fns) >= 2 or any('%' in str(f) for f in fns),
                           tags=[f'fns{len(fns)}', 'no-matrix' if out == 'none' else
                                 'singular' if singular else 'regular', kind] + sorted({name for name, _ in fns}))

        sec_sort = run.section(
            'sort-z', 'StackingContext.__init__ on child contexts with random z-indexes (ties, negatives, zero, 10^15) '
            'vs splitZ/sortZ; non-trivial = two equal z among >= 3')
        for case in range(run.n(3000, 60000)):
            n = rng.choice([0, 1, 2, 3, 4, 5, 6, 8, 12, 20])
            pool = rng.choice([[-1, 0, 1], [-2, -1, 0, 1, 2], [-3, -3, 5, 5, 0], [10 ** 15, -10 ** 15, 0, 1, -1],
                               list(range(-6, 7))])
            zs = [rng.choice(pool) for _ in range(n)]
            sec_sort.add(sx.line('sortz', zs), real_sort(zs), meta={'zs': zs, 'signature': f'sort{zs}'},
                         nontrivial=n >= 3 and len(set(zs)) < n)

    # ------------------------------------------------------------------------------------------------
    def judge(self, d):
        meta = d.get('meta') or {}
        if d['section'] == 'sort-z':
            return sort_violation(meta['zs'], d['impl'])
        if d['section'] == 'rounded-boxes':
            return rounded_violation(frac_list(meta['lengths']), [tuple(frac_list(r)) for r in meta['radii']],
                                     meta['call'], frac_list(meta['args']))
        if d['section'] == 'radii-percentages':
            return radii_violation(frac_list(meta['lengths']),
                                   [tuple((Fraction(v), u) for v, u in c) for c in meta['corners']], meta['removed'])
        if d['section'] == 'mock-dispatch':
            page = mock_page([tuple_spec(s) for s in meta['specs']])
            attrs, kids, _ = scene.export_page(page)
            return oracle.contexts_violation(attrs, kids, real_contexts(page))
        if d['section'] == 'transform-matrix':
            return matrix_violation(frac_list(meta['lengths']), thaw_fns(meta['fns']), thaw_origin(meta['origin']),
                                    meta.get('kind', 'BlockBox'))
        if d['section'] in ('tounicode', 'tounicode-written'):
            return tounicode_violation(meta['html']) or written_violation(meta['html'])
        if d['section'] == 'scene-geometry':
            return check_geometry(meta['html']) or check_html(meta['html'])[0]
        if d['section'] in ('scene-contexts', 'scene-paint', 'scene-laid-out'):
            what, _ = check_html(meta['html'])
            return what
        return None

    def search(self, run, failures):
        """Fresh documents, small first, judged by the oracle on the implementation alone."""
        docs.quiet()
        found = []
        candidates = [BASE + body for body in CORPUS] + DOC_CORPUS
        for f in failures:
            detail = f.get('detail')
            if f['kind'] == 'correspondence' and isinstance(detail, dict) and 'html' in (detail.get('meta') or {}):
                candidates.insert(0, detail['meta']['html'])
        for depth, count in ((1, 60), (2, 120), (3, 120)):
            for _ in range(count):
                candidates.append(scene.Scene(run.rng, max_depth=depth).document())
        for html in candidates:
            run.search_stats['evaluations'] += 1
            try:
                what, _ = check_html(html)
            except Exception:  # a layout failure is not a C17 matter
                continue
            if what:
                found.append({'what': what, 'input': {'html': html}, 'signature': html[-80:]})
                if len(found) >= 3:
                    return found
        probe = [Fraction(v) for v in (5, 7, 1, 1, 2, 2, 2, 2, 1, 1, 1, 1, 40, 20)]
        for kind in mock_kinds():
            run.search_stats['evaluations'] += 1
            fns = [('translate', ((Fraction(3), 'px'), (Fraction(10), '%')))]
            origin = ((Fraction(50), '%'), (Fraction(50), '%'))
            what = matrix_violation(probe, fns, origin, kind)
            if what:
                found.append({'what': what, 'input': {'lengths': probe, 'fns': fns, 'origin': origin, 'kind': kind},
                              'signature': f'matrix-{kind}'})
                if len(found) >= 3:
                    return found
        for case in range(60):
            run.search_stats['evaluations'] += 1
            html = text_document(run.rng, [None, 101, 201][case % 3])
            try:
                what = tounicode_violation(html)
            except Exception:
                continue
            if what:
                found.append({'what': what, 'input': {'html': html, 'tounicode': True}, 'signature': html[-80:]})
                if len(found) >= 3:
                    return found
        for case in range(120):
            run.search_stats['evaluations'] += 1
            html = scene.Scene(run.rng, max_depth=1 + case % 3, features={'geo': True}).document()
            try:
                what = check_geometry(html)
            except Exception:
                continue
            if what:
                found.append({'what': what, 'input': {'html': html, 'geo': True}, 'signature': html[-80:]})
                if len(found) >= 3:
                    return found
        for case in range(3000):
            run.search_stats['evaluations'] += 1
            lengths, radii = random_geo(run.rng, case % 4 == 0)
            for call, args in (('rpadding', []), ('rcontent', []), ('rborder', []), ('rratio', [Fraction(1, 2)])):
                what = rounded_violation(lengths, radii, call, args)
                if what:
                    found.append({'what': what, 'input': {'lengths': lengths, 'radii': radii, 'call': call,
                                                          'args': args}, 'signature': f'round-{call}'})
                    break
            if len(found) >= 3:
                return found
        zs_cases = [[1, 1, -1, -1, 0, 0], [2, 1, 2, 1], [-1, -2, -1, -2], [0, 5, -5, 5, 0, -5]]
        for zs in zs_cases:
            run.search_stats['evaluations'] += 1
            what = sort_violation(zs, real_sort(zs))
            if what:
                found.append({'what': what, 'input': {'zs': zs}, 'signature': f'sort{zs}'})
        return found

    def finding_replays(self):
        replays = {fid: (lambda fid=fid, html=html: finding_still_there(BASE + html, fid))
                   for fid, html in FINDINGS.items()}
        replays.update({fid: (lambda fid=fid, html=html: geometry_finding_still_there(BASE + html, fid))
                        for fid, html in GEO_FINDINGS.items()})
        return replays

    def replay(self, data):
        inp = data.get('input', {})
        meta = inp.get('meta') if isinstance(inp.get('meta'), dict) else inp
        if 'html' in meta and meta.get('tounicode'):
            return tounicode_violation(meta['html'])
        if 'html' in meta and meta.get('geo'):
            return check_geometry(meta['html']) or check_html(meta['html'])[0]
        if 'html' in meta:
            return check_html(meta['html'])[0]
        if 'zs' in meta:
            return sort_violation(meta['zs'], real_sort(meta['zs']))
        if 'fns' in meta:
            return matrix_violation(frac_list(meta['lengths']), thaw_fns(meta['fns']), thaw_origin(meta['origin']),
                                    meta.get('kind', 'BlockBox'))
        if 'call' in meta:
            return rounded_violation(frac_list(meta['lengths']), [tuple(frac_list(r)) for r in meta['radii']],
                                     meta['call'], frac_list(meta['args']))
        if 'corners' in meta:
            return radii_violation(frac_list(meta['lengths']),
                                   [tuple((Fraction(v), u) for v, u in c) for c in meta['corners']], meta['removed'])
        if 'specs' in meta:
            page = mock_page([tuple_spec(s) for s in meta['specs']])
            attrs, kids, _ = scene.export_page(page)
            return oracle.contexts_violation(attrs, kids, real_contexts(page))
        return None


def tuple_spec(s):
    """A spec read back from JSON (lists, opacity as 'n/d' string)."""
    kind, position, z, grid, opacity, transform, overflow, floated, placeholder, kids = s
    return (kind, position, z, grid, Fraction(opacity), transform, overflow, floated, placeholder,
            [tuple_spec(k) for k in kids])


# Minimal inputs of the known findings (known_findings.txt).
FINDINGS = {
    'context-root-loses-decoration':
        '<table style="border-collapse:separate"><tr style="position:relative;background:#000004">'
        '<td style="background:#000008;color:#000009">a</td></tr></table>',
    'inline-root-background-late':
        '<span style="position:relative;z-index:0;background:#000004;color:#000005">t<span style="position:relative;'
        'z-index:-1;background:#000008;color:#000009">inner</span></span>',
    'outline-escapes-overflow-clip':
        '<div style="overflow:hidden;background:#000004"><p style="outline:2px solid #00000b;color:#000009">x</p></div>',
    'clip-escaped-by-positioned-descendant':
        '<div style="position:absolute;clip:rect(0px,5px,5px,0px);background:#000004"><div style="position:relative;'
        'background:#000008;color:#000009">x</div></div>',
}

# Hand-written geometry scenes, run first in `scene-geometry`: table parts (rows, row groups, columns, column
# groups with backgrounds; rounded cells; border-spacing; row spans; empty cells), and the known finding.
GEO_CORPUS = [
    '<table style="border-collapse:separate;border-spacing:2px;background:#000020;font-family:weasyprint">'
    '<colgroup style="background:#000024"><col style="background:#000028"><col></colgroup>'
    '<tbody style="background:#000004"><tr style="background:#000008"><td style="height:20px;width:30px;'
    'background:#00000c;border-radius:4px;color:#00000d">a</td><td style="color:#000011">x</td></tr></tbody></table>',
    '<table style="border-collapse:separate;border-spacing:3px 1px;font-family:weasyprint">'
    '<thead style="background:#000004"><tr style="background:#000008"><td rowspan="2" style="width:20px;'
    'border:2px solid #00000e;color:#00000d">s</td><td style="color:#000011;height:15px">h</td></tr>'
    '<tr style="background:#000014"><td style="color:#000019;height:25px;border-radius:50%">i</td></tr></thead>'
    '<tbody><tr style="background:#00001c"><td style="color:#00001d"></td><td style="color:#000021;'
    'empty-cells:hide"></td></tr></tbody></table>',
    '<table style="border-collapse:separate;border-spacing:0;font-family:weasyprint"><tbody style="background:#000004">'
    '<tr><td style="height:20px;width:30px;color:#000009">a</td></tr>'
    '<tr><td style="height:20px;color:#00000d">b</td></tr></tbody></table>',
    # the `clip` rectangle: lengths, `auto` on every side, and the known finding (one of left / right `auto`)
    '<div style="position:absolute;top:20px;left:40px;width:50px;height:40px;clip:rect(5px,30px,20px,10px);'
    'background:#000004;color:#000005;font-family:weasyprint">cl</div>'
    '<div style="position:absolute;top:80px;left:40px;width:50px;height:40px;clip:rect(auto,auto,auto,auto);'
    'background:#000008;color:#000009;font-family:weasyprint">au</div>'
    '<div style="position:fixed;top:140px;left:40px;width:50px;height:40px;clip:rect(auto,30px,25px,2px);'
    'border:3px solid #00000e;background:#00000c;color:#00000d;font-family:weasyprint">tb</div>'
    '<div style="position:absolute;top:200px;left:40px;width:50px;height:40px;clip:rect(0px,auto,auto,10px);'
    'background:#000010;color:#000011;font-family:weasyprint">sw</div>',
    # right-to-left table: the first cell of a column group is its rightmost
    '<table style="direction:rtl;border-collapse:separate;border-spacing:4px;font-family:weasyprint">'
    '<colgroup style="background:#000004"><col style="background:#000008"><col></colgroup><col style="background:#00000c">'
    '<tr style="background:#000010"><td style="width:20px;color:#000015">a</td><td style="width:35px;color:#000019">b'
    '</td><td style="color:#00001d">c</td></tr><tr><td style="color:#000021">d</td><td colspan="2" '
    'style="color:#000025;background:#000024">e</td></tr></table>',
]

# Known findings of the geometry clauses (judged by check_geometry).
GEO_FINDINGS = {
    'clip-auto-sides-swapped':
        '<div style="position:absolute;top:20px;left:40px;width:50px;height:40px;clip:rect(0px,auto,auto,10px);'
        'background:#000004;color:#000005">sw</div>',

    'row-group-background-first-row-only':
        '<table style="border-collapse:separate;border-spacing:0"><tbody style="background:#000004">'
        '<tr><td style="height:20px;width:30px;color:#000009">a</td></tr>'
        '<tr><td style="height:20px;color:#00000d">b</td></tr></tbody></table>',
}

# Input of the former finding `line-end-space-glyph` (repaired by edeb32e) and variants: text boxes at the end of a
# line whose trailing spaces `remove_last_whitespace` strips.  Run first in the `tounicode` section.
LINE_END_HTML = ('<style>body{font-size:10px}</style>'
                 '<p style="width:60px">aaa <b>bbb</b> ccc ddd <b>eee</b> fff</p>')
# Characters outside the Basic Multilingual Plane (two UTF-16 code units per character in the bfchar value), alone,
# next to BMP text, next to ligatures and across faces; DejaVu Sans has these glyphs.
ASTRAL = '<style>body{font-size:10px;font-family:DejaVu Sans}</style>'
TEXT_CORPUS = [
    ASTRAL + '<p>a\U0001D7D8b \U0001F030 x\U0001F0A1</p><p>\U0001D7D9\U0001D7DA</p>',
    ASTRAL + '<p>office \U0001D7DB waffle <b>\U0001D7DC\U0001F031</b> <i>na\u00efve \U0001F0A2</i></p>'
    '<p style="opacity:0.5">\U0001D7DD \u2264 \U0001F032\u00e9</p>',
    LINE_END_HTML,
    '<style>body{font-size:10px;font-family:weasyprint}</style><p style="width:45px">ab cd ef gh <i>ij</i> kl</p>',
    '<style>body{font-size:10px}</style><p style="width:70px;text-align:justify">office <b>waffle </b> fjord naïve</p>',
    '<style>body{font-size:10px}</style><p style="width:50px;white-space:pre-wrap">aa  bb  <b>cc  </b>dd</p>',
]

PROP = C17()

MANIFEST = {
    'design_ref': 'DESIGN.md §4 C17',
    'technique': 'Lean 4 theorems over literal models of stacking.py, of the paint sequence of draw/__init__.py, of the '
                 'rounded boxes / background areas / rounded-box paths, of the transformation matrix and of the '
                 'glyph-to-text table behind ToUnicode (every class test regenerated from the source each run); '
                 'executable correspondence with the real StackingContext.from_page, with the display list and the '
                 'geometric display list (paths, clip stacks, text origins) interpreted from the real content stream of '
                 'generated documents, with the written ToUnicode CMaps, and with direct calls on Fraction geometry',
    'text': 'Unbounded theorems: the state-passing dispatcher equals a pure specification (assert unreachable), loses '
            'and duplicates no box, keeps tree order in every bucket; context creation conditions; stable z-index '
            'sort; the paint sequence of a context; every item carries the opacity groups, transforms and the clip '
            'stack of its ancestors (overflow clip = padding box, not on the own border); for every item kind '
            '(background, border, text, outline, column background, replaced content) and every page over the block / '
            'line / inline / atomic-inline / table grammar the display list holds exactly the items due, none below a '
            'singular transform, and raises nothing - under the explicit hypothesis that context roots are of a class '
            'painted by point 2 or 6 (false for grid containers and table rows: known finding with Lean witnesses); '
            'inner radius = max(0, outer - inset) per corner and axis, corner-overlap scaling makes adjacent radii '
            'fit; transform-origin is a fixed point, determinant multiplicative; glyphs map back to the text when the '
            'glyph-to-text relation is functional, and read as UTF-16 the decoded units are the text, character by '
            'character in every plane; every box class but InlineBox gets its transform as a matrix '
            '(regenerated table), singular iff the product of the function determinants vanishes; '
            'layout_backgrounds moves exactly one Background to the canvas (root element, else its body child) and '
            'leaves every other one in place, so the propagated background is not painted at its own box; '
            'Page.paint = draw_page on that result.',
    'note': 'Trusted: Lean kernel, the class-test extractor, the export of a laid-out page (attributes, geometry), the '
            'content-stream interpreter, the PDF-reader side of the ToUnicode check. Not modelled: rotate/skew '
            'trigonometry, border side segments and dashed/double styles, outlines\' geometry, collapsed borders, images and gradients, font embedding. Six known findings are listed in '
            'known_findings.txt.',
}
