"""C06 — the cascade, inheritance and computed values select the right value."""
import itertools
from fractions import Fraction

from extract import c06_source, precedence, units
from harness import c06_real, cascade_docs, docs
from harness.cssval import canon, enc, frac, opt, outcome
from harness.snap import SnapSection
from vlib import sx
from vlib.framework import PropCheck

F = Fraction
ORIGINS = ('user agent', 'user', 'author')
RANK = {('user agent', False): 1, ('user agent', True): 1, ('user', False): 2, ('author', False): 3,
        ('author', True): 4, ('user', True): 5}   # the order of the property statement


class BranchTally:
    """Which branch of the mirrored code each generated input takes, classified by the model
    (lean/WpModel/Model/C06Branches.lean); reported in the evidence with the branches never hit."""

    def __init__(self):
        self.lines = {}

    def add(self, fn, line):
        self.lines.setdefault(fn, []).append(line)

    def report(self, run):
        import collections
        from vlib import lean
        hist, never = {}, {}
        for fn, lines in self.lines.items():
            outs = lean.run_driver(run.prop.driver, lines)
            counter = collections.Counter(outs)
            if fn == 'specified':
                parts = collections.Counter()
                for tag, n in counter.items():
                    for i, part in enumerate(tag.split('/')):
                        parts[f'{i}:{part}'] += n
                hist['specified-steps'] = dict(sorted(parts.items()))
                universe = SPECIFIED_UNIVERSE
                never['specified-steps'] = sorted(set(universe) - set(parts))
            hist[fn] = dict(counter.most_common(60))
            if fn in ('length', 'pagematch', 'fontsize'):
                universe = lean.run_driver(run.prop.driver, [f'universe {fn}'])[0].split(' ')
                never[fn] = sorted(set(universe) - set(counter))
        run.extra['model_branches'] = hist
        run.extra['model_branches_never_hit'] = never


SPECIFIED_UNIVERSE = (
    ['0:cascaded', '0:pending-solved', '0:pending-invalid-inherits', '0:pending-invalid-initial',
     '0:absent-inherited', '0:absent-not-inherited', '0:anonymous-style',
     '1:initial-custom', '1:initial-not-computed', '1:initial-stored', '1:inherit-stored', '1:value',
     '1:raises-in-steps-1-3',
     '2:text-decoration', '2:page-auto-root', '2:page-auto-parent', '2:specified-saved', '2:plain',
     '3:return-stored', '3:no-computer', '3:raises-in-step-4', '3:raises-in-step-4-after-store'] +
    [f'3:compute:{name}' for name in (
        'length', 'font_size', 'font_weight', 'border_width', 'break_before_after', 'display', 'compute_float',
        'line_height', 'pixel_length', 'word_spacing', 'gap', 'tab_size', 'bleed', 'vertical_align', 'length_tuple',
        'length_or_percentage_tuple', 'border_radius', 'compute_position', 'background_size', 'border_image_slice',
        'border_image_width', 'border_image_outset', 'border_image_repeat', 'transform', 'content', 'bookmark_label',
        'string_set', 'anchor', 'lang')])
TALLY = BranchTally()


def w_origin(origin):
    return origin.replace(' ', '_')


# ---------------------------------------------------------------------------------------------
# cascaded styles (direct StyleFor calls with mock sheets)

class MockMatcher:
    def __init__(self, table):
        self.table = table

    def match(self, element):
        return self.table.get(element.etree_element.get('id'), [])


class MockSheet:
    def __init__(self, table=None, page_rules=None):
        self.matcher = MockMatcher(table or {})
        self.page_rules = page_rules or []


def w_casc(value):
    from weasyprint.css.utils import Pending
    if isinstance(value, Pending):
        return ['pending', 'none' if value.result is INVALID else enc(value.result)]
    return ['val', enc(value)]


def c_casc(value):
    from weasyprint.css.utils import Pending
    if isinstance(value, Pending):
        return 'pending:invalid' if value.result is INVALID else 'pending:' + canon(value.result)
    return canon(value)


def w_decls(decls):
    return [[name, w_casc(value), bool(imp)] for name, value, imp in decls]


def c_cstyle(cascaded):
    """cascaded dict {name: (value, (precedence, specificity))} -> the text `showCStyle` prints."""
    return ';'.join(
        f'{name}={c_casc(value)}@{weight[0]}:({",".join(str(i) for i in weight[1])})'
        for name, (value, weight) in cascaded.items())


INT_PROPS = ('z_index', 'orphans', 'widows', 'order')
DIM_PROPS = ('width', 'height')
PSEUDOS = (None, None, None, 'before', 'after', 'marker')


def fold_case(rng, adversarial):
    """A small real document + mock sheets; returns (html text, ph flag, sheets, per-element model input)."""
    from weasyprint.css.properties import Dimension
    counter = itertools.count(1)
    n = rng.randint(1, 4)
    tags = [rng.choice(['div', 'p', 'span', 'img', 'hr', 'section']) for _ in range(n)]
    ph = rng.random() < 0.5
    elements, attrs = [], {}
    for i, tag in enumerate(tags):
        blocks = []
        attr_text = ''
        if rng.random() < 0.7:
            decls, parts = [], []
            for _ in range(rng.randint(1, 3)):
                imp = rng.random() < 0.3
                k = next(counter)
                if rng.random() < 0.6:
                    name = rng.choice(INT_PROPS)
                    decls.append((name, k, imp))
                    parts.append(f'{name.replace("_", "-")}:{k}{" !important" if imp else ""}')
                else:
                    name = rng.choice(DIM_PROPS)
                    decls.append((name, Dimension(k, 'px'), imp))
                    parts.append(f'{name}:{k}px{" !important" if imp else ""}')
            attr_text = f' style="{";".join(parts)}"'
            blocks.append(((1, 0, 0, 0), decls))
        hint = ''
        if tag in ('img', 'hr') and rng.random() < 0.6:
            k = next(counter)
            hint = f' width={k}'
            if ph:
                if tag == 'img':
                    blocks.append(((0, 0, 0, 0), [('width', Dimension(k, 'px'), False)]))
                else:
                    # <hr>: size = 0 and no color/noshade -> no size rule; then the width rule
                    blocks.append(((0, 0, 0, 0), [('width', Dimension(k, 'px'), False)]))
        attrs[f'e{i}'] = blocks
        void = tag in ('img', 'hr')
        elements.append(f'<{tag} id=e{i}{attr_text}{hint}>' + ('' if void else f'x</{tag}>'))
    html = '<html><body>' + ''.join(elements) + '</body></html>'
    sheets = []
    for _ in range(rng.randint(0, 4)):
        origin = rng.choice(ORIGINS)
        if adversarial:
            sheet_spec = rng.choice([None, None, (), (0, 0, 0, 0), (1,), (0, 1, 0, 0, 0), (0, 0, 0), (2, 0, 0, 0)])
        else:
            sheet_spec = rng.choice([None, None, None, (0, 0, 0, 0)])
        table = {}
        order = 0
        for i in range(n):
            matched = []
            for _ in range(rng.randint(0, 3)):
                order += 1
                top = 12 if adversarial else 2
                spec = (rng.randint(0, 1), rng.randint(0, top), rng.randint(0, top))
                if adversarial and rng.random() < 0.2:
                    spec = tuple(rng.randint(0, 3) for _ in range(rng.randint(0, 5)))
                decls = []
                for _ in range(rng.randint(1, 3)):
                    k = next(counter)
                    name = rng.choice(INT_PROPS + DIM_PROPS)
                    value = k if name in INT_PROPS else Dimension(k, 'px')
                    if rng.random() < 0.1:
                        value = rng.choice(['inherit', 'initial'])
                    decls.append((name, value, rng.random() < 0.3))
                matched.append((spec, order, rng.choice(PSEUDOS), decls))
            if matched:
                table[f'e{i}'] = matched
        sheets.append((MockSheet(table), origin, sheet_spec))
    return html, ph, sheets, attrs, n


def fold_section(run):
    from weasyprint.css import StyleFor
    sec = run.section(
        'cascade-fold',
        'real StyleFor.__init__ on a parsed document with style attributes / presentational hints and mock '
        'sheets (chosen matcher results, origins, sheet specificities); the cascaded dict with weights of every '
        '(element, pseudo) is compared; non-trivial = at least two declarations compete for one name')
    for case in range(run.n(700, 12000)):
        adversarial = case % 4 == 3
        html, ph, sheets, attrs, n = fold_case(run.rng, adversarial)
        doc = docs.html(html)
        try:
            style_for = StyleFor(doc, sheets, ph, None)
            computed = style_for._computed_styles
            error = None
        except Exception as exc:  # noqa: BLE001
            error = f'err:{type(exc).__name__}'
        by_id = {el.get('id'): el for el in doc.etree_element.iter() if el.get('id')}
        for i in range(n):
            eid = f'e{i}'
            w_attrs = [[list(spec), w_decls(decls)] for spec, decls in attrs[eid]]
            w_sheets = [[w_origin(origin), opt(None if spec is None else list(spec)),
                         [[list(s), o, opt(p), w_decls(d)] for s, o, p, d in sheet.matcher.table.get(eid, [])]]
                        for sheet, origin, spec in sheets]
            pseudos = {None} | {p for sheet, _, _ in sheets for _, _, p, _ in sheet.matcher.table.get(eid, [])}
            for pseudo in sorted(pseudos, key=str):
                if error:
                    out = error
                else:
                    style = computed.get((by_id[eid], pseudo))
                    out = c_cstyle(getattr(style, 'cascaded', {})) if style is not None else ''
                names = [d[0] for spec, decls in attrs[eid] for d in decls] if pseudo is None else []
                names += [d[0] for sheet, _, _ in sheets for _, _, p, ds in sheet.matcher.table.get(eid, [])
                          if p == pseudo for d in ds]
                sec.add(sx.line('cascade', opt(pseudo), w_attrs, w_sheets), out,
                        meta={'html': html, 'ph': ph, 'element': eid, 'pseudo': pseudo,
                              'signature': f'fold:{out[:40]}'},
                        nontrivial=len(names) != len(set(names)),
                        tags=['adversarial' if adversarial else 'plain', f'decls{min(len(names), 8)}'])


def pair_section(run):
    """Every ordered pair (and sampled triples) of conflicting declaration kinds through the real fold."""
    from weasyprint.css import StyleFor
    sec = run.section(
        'cascade-pairs',
        'every ordered pair of declaration kinds (style attribute | hint | sheet of each origin) x importance x '
        'specificity class competing for one property of one element, through the real StyleFor.__init__; '
        'thorough: every ordered triple; non-trivial = all')
    kinds = [('attr', None, imp, None) for imp in (False, True)]
    kinds += [('sheet', origin, imp, spec) for origin in ORIGINS for imp in (False, True)
              for spec in ((0, 0, 1), (0, 1, 0), (1, 0, 0), (0, 0, 0), (0, 11, 0), (1, 1, 1))]
    kinds += [('phsheet', 'author', imp, (0, 1, 1)) for imp in (False, True)]
    arity = [2] if not run.thorough else [2, 3]
    combos = []
    for k in arity:
        all_k = list(itertools.product(kinds, repeat=k))
        if k == 3 and len(all_k) > 30000:
            all_k = run.rng.sample(all_k, 30000)
        combos += all_k
    if not run.thorough:
        combos = run.rng.sample(combos, 600)
    for combo in combos:
        out, html, w_attrs, w_sheets = run_pair(combo)
        sec.add(sx.line('cascade', 'none', w_attrs, w_sheets), out,
                meta={'combo': [list(map(str, c)) for c in combo], 'html': html,
                      'signature': f'pair:{combo}'},
                tags=[f'arity{len(combo)}'])


def run_pair(combo):
    """The real StyleFor on one <p> with the declarations of `combo` (values 1..n in this order)."""
    from weasyprint.css import StyleFor
    # style attributes are one block: their relative order is the source order inside the attribute
    attr_parts, attr_decls, sheets = [], [], []
    for value, (kind, origin, imp, spec) in enumerate(combo, start=1):
        if kind == 'attr':
            attr_parts.append(f'z-index:{value}{" !important" if imp else ""}')
            attr_decls.append(('z_index', value, imp))
        else:
            table = {'e0': [(spec, 1, None, [('z_index', value, imp)])]}
            sheets.append((MockSheet(table), origin, (0, 0, 0, 0) if kind == 'phsheet' else None))
    style = f' style="{";".join(attr_parts)}"' if attr_parts else ''
    html = f'<html><body><p id=e0{style}>x</p></body></html>'
    doc = docs.html(html)
    el = next(e for e in doc.etree_element.iter() if e.get('id') == 'e0')
    out = outcome(lambda: StyleFor(doc, sheets, False, None)._computed_styles[(el, None)].cascaded,
                  render=c_cstyle)
    w_attrs = [[[1, 0, 0, 0], w_decls(attr_decls)]] if attr_decls else []
    w_sheets = [[w_origin(origin), opt(None if ss is None else list(ss)),
                 [[list(s), o, opt(p), w_decls(d)] for s, o, p, d in sheet.matcher.table['e0']]]
                for sheet, origin, ss in sheets]
    return out, html, w_attrs, w_sheets


def reference_winner(decls):
    """The property statement, directly: decls = [(value, origin, important, is_style_attr, specificity3)] in
    source order -> the value that must win."""
    best = None
    for index, (value, origin, imp, is_attr, spec) in enumerate(decls):
        key = (RANK[(origin, imp)], 1 if is_attr else 0, tuple(spec), index)
        if best is None or key >= best[0]:
            best = (key, value)
    return best[1] if best else None


# ---------------------------------------------------------------------------------------------
# page selectors

def w_name(name):
    return 'none' if name is None else '=' + name


def w_selector(sel):
    index = 'none' if sel.index is None else [sel.index[0], sel.index[1], w_name(sel.index[2])]
    return [opt(sel.side), opt(sel.blank), opt(sel.first), index, w_name(sel.name)]


def w_page(page):
    return [page.side, page.blank, page.index, '=' + page.name, [['=' + g, i] for g, i in page.groups]]


def nth_holds(a, b, index):
    """`:nth(an+b)` matches the page of 0-based `index` iff there is n >= 0 with index + 1 = a*n + b."""
    target = index + 1
    if a == 0:
        return target == b
    n, r = divmod(target - b, a)
    return r == 0 and n >= 0


def reference_page_match(sel, page):
    """css-page-3 page selector matching, stated directly."""
    if sel.side is not None and sel.side != page.side:
        return False
    if sel.blank is not None and sel.blank != page.blank:
        return False
    if sel.first is not None and sel.first != (page.index == 0):
        return False
    if sel.name is not None and sel.name != page.name:
        return False
    if sel.index is not None:
        a, b, name = sel.index
        if name is None:
            return nth_holds(a, b, page.index)
        return name == page.name and any(g == name and nth_holds(a, b, i) for g, i in page.groups)
    return True


def random_selector_page(rng, adversarial=False):
    from weasyprint.css import PageSelectorType
    from weasyprint.layout.page import PageType
    names = ['', 'a', 'b']
    small = lambda lo, hi: rng.randint(lo, hi)   # noqa: E731
    if adversarial:
        def big():
            return rng.choice([0, 1, -1, 2, 10 ** 20, -10 ** 20, 10 ** 400, -10 ** 400, 2 ** 1024, 2 ** 1023,
                               2 ** 1024 - 2 ** 970, 2 ** 1024 - 2 ** 970 - 1, 3 * 10 ** 307])
        a, b, idx = big(), big(), abs(big())
    else:
        a, b, idx = small(-4, 4), small(-6, 6), small(0, 12)
    name = rng.choice(names)
    groups = tuple((rng.choice(names), abs(big()) if adversarial and rng.random() < 0.3 else small(0, 8))
                   for _ in range(rng.randint(0, 3)))
    page = PageType(rng.choice(['left', 'right']), rng.random() < 0.3, name, idx, groups)
    index = None
    if rng.random() < 0.7:
        index = (a, b, rng.choice([None, None] + names))
    sel = PageSelectorType(
        rng.choice([None, None, 'left', 'right']), rng.choice([None, None, True, False]),
        rng.choice([None, None, True, False]), index, rng.choice([None, None] + names))
    return sel, page


def page_match_section(run):
    from weasyprint.css import PageSelectorType, StyleFor
    from weasyprint.layout.page import PageType

    def show(b):
        return 'true' if b else 'false'
    sec = run.section(
        'page-type-match',
        'StyleFor._page_type_match: all a in -4..4, b in -6..6, index 0..12 for :nth(an+b); random selectors '
        'with side/blank/first/name and :nth(an+b of name) over page groups; adversarial huge integers; '
        'non-trivial = the selector has an :nth() component or at least two components')
    for a in range(-4, 5):
        for b in range(-6, 7):
            for idx in range(0, 13):
                sel = PageSelectorType(None, None, None, (a, b, None), None)
                page = PageType('right', False, '', idx, ())
                out = outcome(lambda: StyleFor._page_type_match(sel, page), render=show)
                TALLY.add('pagematch', sx.line('pmbranch', w_selector(sel), w_page(page)))
                TALLY.add('pagematch', sx.line('pmbranch', w_selector(sel), w_page(page)))
        sec.add(sx.line('pagematch', w_selector(sel), w_page(page)), out,
                        meta={'sel': list(sel), 'page': list(page), 'signature': f'nth:{a}:{b}:{idx}'},
                        tags=['nth-exhaustive'])
    run.extra['exhaustive'] = True
    run.extra['exhaustive_what'] = (':nth(an+b) for all a in -4..4, b in -6..6, page index 0..12; declaration_precedence '
                                    'on its whole domain; every ordered pair of declaration kinds (thorough: triples)')
    for i in range(run.n(4000, 60000)):
        adversarial = i % 5 == 4
        sel, page = random_selector_page(run.rng, adversarial)
        out = outcome(lambda: StyleFor._page_type_match(sel, page), render=show)
        comps = sum(x is not None for x in sel)
        TALLY.add('pagematch', sx.line('pmbranch', w_selector(sel), w_page(page)))
        sec.add(sx.line('pagematch', w_selector(sel), w_page(page)), out,
                meta={'sel': list(sel), 'page': [page.side, page.blank, page.name, page.index, list(page.groups)],
                      'signature': f'pm:{list(sel)}'},
                nontrivial=sel.index is not None or comps >= 2,
                tags=['adversarial' if adversarial else ('nth' if sel.index else 'plain')])


def page_decls_section(run):
    from weasyprint.css import StyleFor
    sec = run.section(
        'page-declarations',
        'real StyleFor.add_page_declarations(page_type) with mock sheets carrying page_rules; cascaded dict with '
        'weights per margin-box pseudo type; non-trivial = at least two rules match')
    doc = docs.html('<html><body><p>x</p></body></html>')
    for _ in range(run.n(600, 8000)):
        counter = itertools.count(1)
        sheets, w_sheets, npage = [], [], None
        _, page = random_selector_page(run.rng)
        for _ in range(run.rng.randint(1, 3)):
            origin = run.rng.choice(ORIGINS)
            sheet_spec = run.rng.choice([None, None, None, (0, 0, 0)])
            rules, w_rules = [], []
            for _ in range(run.rng.randint(0, 4)):
                selectors = []
                decls = [(run.rng.choice(['margin_top', 'orphans', 'widows']), next(counter), run.rng.random() < 0.3)
                         for _ in range(run.rng.randint(1, 2))]
                for _ in range(run.rng.randint(1, 2)):
                    sel, _ = random_selector_page(run.rng)
                    if run.rng.random() < 0.5:
                        sel = sel._replace(index=None, blank=None, first=None)
                    spec = (run.rng.randint(0, 2), run.rng.randint(0, 2), run.rng.randint(0, 2))
                    pseudo = run.rng.choice([None, None, '@top-left', '@bottom-center'])
                    selectors.append((spec, pseudo, sel))
                    w_rules.append([list(spec), opt(pseudo), w_selector(sel), w_decls(decls)])
                rules.append((None, selectors, decls))
            sheets.append((MockSheet(page_rules=rules), origin, sheet_spec))
            w_sheets.append([w_origin(origin), opt(None if sheet_spec is None else list(sheet_spec)), w_rules])
        pseudos = {None} | {p for sheet, _, _ in sheets for _, sels, _ in sheet.page_rules for _, p, _ in sels}
        try:
            style_for = StyleFor(doc, sheets, False, None)
            style_for.add_page_declarations(page)
            cascaded, error = style_for._cascaded_styles, None
        except Exception as exc:  # noqa: BLE001
            cascaded, error = None, f'err:{type(exc).__name__}'
        matching = sum(1 for sheet, _, _ in sheets for _, sels, _ in sheet.page_rules for _, _, s in sels
                       if reference_page_match(s, page))
        for pseudo in sorted(pseudos, key=str):
            out = error or c_cstyle(cascaded.get((page, pseudo), {}))
            sec.add(sx.line('pagedecls', w_page(page), opt(pseudo), w_sheets), out,
                    meta={'page': list(page), 'signature': f'pd:{out[:40]}'}, nontrivial=matching >= 2,
                    tags=[f'match{min(matching, 5)}'])


# ---------------------------------------------------------------------------------------------
# precedence, weights, matcher sort, media, preprocess_stylesheet

def precedence_section(run):
    from weasyprint import css
    sec = run.section('declaration-precedence', 'declaration_precedence on 3 origins x 2 importances and unknown origins')
    for origin in ORIGINS + ('User', 'agent', 'useragent', 'x', 'authors'):
        for imp in (False, True):
            out = outcome(lambda: css.declaration_precedence(origin, imp), render=str)
            sec.add(sx.line('prec', w_origin(origin), imp), out, meta={'origin': origin, 'importance': imp})
    sec2 = run.section(
        'weight-order', 'Python tuple comparison `old_weight <= weight` on (precedence, specificity) with '
        'specificities of any length; non-trivial = equal precedence')
    for _ in range(run.n(3000, 40000)):
        def weight():
            return (run.rng.randint(1, 5), tuple(run.rng.randint(0, 2) for _ in range(run.rng.choice([0, 3, 3, 4, 4, 4, 5]))))
        a, b = weight(), weight()
        if run.rng.random() < 0.3:
            b = (a[0], b[1])
        if run.rng.random() < 0.1:
            b = a
        sec2.add(sx.line('wle', [a[0], list(a[1])], [b[0], list(b[1])]), 'true' if a <= b else 'false',
                 meta={'a': a, 'b': b}, nontrivial=a[0] == b[0], tags=[f'len{len(a[1])}-{len(b[1])}'])


SORT_SELECTORS = ['div', '.c', '#i', 'div.c', '*', '[id]', 'div#i.c', 'body div', 'body > div', '.c.d', ':first-child',
                  'div:first-child', '#i.c', 'html body div', '[class]', 'div[id][class]', '.d', 'body .c']


def matcher_sort_section(run):
    import cssselect2
    sec = run.section(
        'matcher-sort', 'real cssselect2.Matcher.match on <div id=i class="c d"> with random selector multisets: '
        'payload order vs the (specificity, order) sort; non-trivial = at least two different specificities')
    doc = docs.html('<html><body><div id=i class="c d">x</div></body></html>')
    target = next(w for w in doc.wrapper_element.iter_subtree() if w.etree_element.get('id') == 'i')
    for _ in range(run.n(300, 4000)):
        chosen = [run.rng.choice(SORT_SELECTORS) for _ in range(run.rng.randint(1, 8))]
        matcher = cssselect2.Matcher()
        wire = []
        for order, text in enumerate(chosen, start=1):
            selector, = cssselect2.compile_selector_list(text)
            matcher.add_selector(selector, order)
            wire.append([list(selector.specificity), order, 'none', []])
        out = ' '.join(str(payload) for _, _, _, payload in matcher.match(target))
        sec.add(sx.line('sortmatched', wire), out, meta={'selectors': chosen},
                nontrivial=len({tuple(w[0]) for w in wire}) >= 2, tags=[f'n{len(chosen)}'])


MEDIA_TEXTS = ['', ' ', 'all', 'print', 'screen', 'SCREEN', 'Print', 'screen, print', 'screen,print', 'print, all',
               'screen and (min-width: 3px)', '(min-width: 3px)', 'print,', ',print', ',', 'screen print', '3', 'print, 3',
               '/* c */ print', 'print /* c */ , /* d */ speech', 'speech', 'tv, projection', 'not print', 'only screen',
               '"print"', 'print, (x)', 'all and (x)', 'braille,embossed,handheld', 'print;']


def media_tokens(text):
    import tinycss2
    from weasyprint.css.utils import remove_whitespace
    toks = []
    for token in remove_whitespace(tinycss2.parse_component_value_list(text)):
        if token.type == 'ident' and token.lower_value.isalnum():
            toks.append(['i', token.lower_value])
        elif token.type == 'literal' and token.value == ',':
            toks.append('c')
        else:
            toks.append('o')
    return toks


def media_section(run):
    import tinycss2
    from weasyprint.css import media_queries
    sec = run.section('media', 'evaluate_media_query on random media lists x device types; parse_media_query on '
                      'tokenised media texts; non-trivial = the list has at least two entries')
    words = ['all', 'print', 'screen', 'speech', 'PRINT', 'al', 'prin', 'tv']
    for _ in range(run.n(1500, 20000)):
        query = [run.rng.choice(words) for _ in range(run.rng.randint(0, 4))]
        device = run.rng.choice(['print', 'screen', 'speech', 'all', 'tv'])
        out = 'true' if media_queries.evaluate_media_query(query, device) else 'false'
        sec.add(sx.line('media', query, device), out, meta={'query': query, 'device': device},
                nontrivial=len(query) >= 2, tags=[out])
    for text in MEDIA_TEXTS:
        result = media_queries.parse_media_query(tinycss2.parse_component_value_list(text))
        out = 'none' if result is None else '(' + ' '.join(result) + ')'
        sec.add(sx.line('parsemedia', media_tokens(text)), out, meta={'text': text}, nontrivial=',' in text,
                tags=['parse'])


def preprocess_section(run):
    from weasyprint import CSS
    from weasyprint.urls import URLFetchingError
    sec = run.section(
        'preprocess-stylesheet',
        'real CSS(string=…) -> preprocess_stylesheet on generated rule trees (style rules with selector lists, '
        'empty / invalid rules, @import of sheets served by a memory fetcher with media and failing fetches, @media '
        'nesting, @page/@font-face/@counter-style, unknown at-rules): the sequence of matcher.add_selector calls '
        '(read back from the real matcher) vs the model; non-trivial = the tree has an @import or an @media')
    for _ in range(run.n(600, 10000)):
        tree = cascade_docs.random_rule_tree(run.rng, itertools.count(1), depth=2, top=True)
        device = run.rng.choice(['print', 'print', 'screen'])
        store = {}
        text = cascade_docs.rule_tree_css(tree, store, marker=True)

        def fetch(url, store=store):
            name = url.rsplit('/', 1)[-1]
            if name not in store:
                raise URLFetchingError('no such sheet')
            return {'string': store[name].encode(), 'mime_type': 'text/css'}
        try:
            css = CSS(string=text, url_fetcher=fetch, media_type=device, base_url='http://mem/')
            out = '[' + ' '.join(cascade_docs.matcher_sequence(css.matcher)) + ']'
        except Exception as exc:  # noqa: BLE001
            out = f'err:{type(exc).__name__}'
        flat = str(tree)
        sec.add(sx.line('preprocess', device, cascade_docs.rule_tree_wire(tree)), out,
                meta={'css': text, 'store': store, 'device': device, 'signature': f'pp:{out[:60]}'},
                nontrivial="'i'" in flat or "'m'" in flat,
                tags=[t for t in ('import', 'media') if f"'{t[0]}'" in flat] or ['flat'])


# ---------------------------------------------------------------------------------------------
# computed_values by direct call

FONT_KEYS = ('font_family', 'font_style', 'font_stretch', 'font_weight', 'font_variant_ligatures',
             'font_variant_position', 'font_variant_caps', 'font_variant_numeric', 'font_variant_alternates',
             'font_variant_east_asian', 'font_feature_settings', 'font_variation_settings',
             'font_language_override', 'lang')


class FakeStyle(dict):
    """dict-like style with the attributes computed_values.py reads."""

    def __init__(self, values, parent_style=None, root_style=None, specified=None, pseudo_type=None,
                 ex=F(1, 2), ch=F(1, 2)):
        super().__init__({key: 'normal' for key in FONT_KEYS})
        self.update(values)
        self.parent_style = parent_style
        self.root_style = root_style if root_style is not None else {}
        self.specified = specified or {}
        self.is_root_element = parent_style is None
        self.pseudo_type = pseudo_type
        self.element = None
        self.attrs = {}
        self.base_url = None
        # Pango's measurement is a parameter of this section (see `pango_parameter`); the real character_ratio
        # and its per-document cache are compared in the `character-ratio-cache` section
        self.ratio_ex, self.ratio_ch = ex, ch

    def copy(self):
        raise AssertionError('character_ratio is a parameter of this section')


class pango_parameter:
    """Inside the block `computed_values.character_ratio(style, c)` is the parameter carried by the FakeStyle
    (the function-level sections compare the arithmetic of `length` & co., not Pango and not the cache)."""

    def __enter__(self):
        from weasyprint.css import computed_values as cv
        self.cv, self.real = cv, cv.character_ratio

        def character_ratio(style, character):
            assert character in ('x', '0')
            return style.ratio_ex if character == 'x' else style.ratio_ch
        cv.character_ratio = character_ratio

    def __exit__(self, *exc):
        self.cv.character_ratio = self.real


def w_thunk(mapping, key, absent_parent=False):
    if mapping is None:
        return 'none' if absent_parent else ['err', 'KeyError']
    if key not in mapping:
        return ['err', 'KeyError']
    value = mapping[key]
    return value if isinstance(value, (int, Fraction)) else enc(value)


def w_env(style, gets=(), model_overrides=None):
    """The `Env` S-expression for a FakeStyle.  model_overrides: exact rationals for values that the
    implementation holds as floats (keyword font sizes)."""
    over = model_overrides or {}
    parent = style.parent_style
    pfs = 'none' if parent is None else over.get('parent_font_size', w_thunk(parent, 'font_size'))
    pfw = 'none' if parent is None else (enc(parent['font_weight']) if 'font_weight' in parent else ['err', 'KeyError'])
    return [over.get('font_size', w_thunk(style, 'font_size')), w_thunk(style.root_style, 'font_size'), pfs, pfw,
            style.ratio_ex, style.ratio_ch,
            [[k, enc(style[k])] for k in gets if k in style],
            [[k, enc(v)] for k, v in style.specified.items()],
            style.is_root_element, bool(style.pseudo_type),
            [[k, enc(v)] for k, v in style.attrs.items()]]


def set_attrs(style, attrs):
    import xml.etree.ElementTree as ET
    style.element = ET.Element('p', dict(attrs))
    style.attrs = dict(attrs)


NUMBERS = [F(0), F(1), F(-1), F(3, 2), F(1, 4), F(16), F(12), F(10), F(7, 10), F(-5, 2), F(100), F(96), F(254, 100),
           F(1, 3), F(1000000), F(10 ** 30), F(-10 ** 30), F(1, 1024), F(3), F(5), F(48, 5), F(128, 9), F(24), F(32)]
UNITS = ['px', 'pt', 'pc', 'in', 'cm', 'mm', 'q', 'em', 'ex', 'ch', 'rem', '%', 'fr', 'deg', None, 'vw']
KEYWORDS = ['auto', 'content', 'from-font', 'normal', 'thin', 'medium', 'thick', 'none', 'larger', 'smaller', 'bold',
            'always', 'super', 'sub', 'baseline', 'foo']


def pynum(q):
    """The harness never hands an integral Fraction where the code may test isinstance(value, int)."""
    return int(q) if q.denominator == 1 else q


def random_value(rng, kinds='dkn'):
    from weasyprint.css.properties import Dimension
    kind = rng.choice(kinds)
    if kind == 'd':
        return Dimension(pynum(rng.choice(NUMBERS)), rng.choice(UNITS))
    if kind == 'k':
        return rng.choice(KEYWORDS)
    if kind == 'n':
        return pynum(rng.choice(NUMBERS))
    return tuple(rng.choice(['inline', 'block', 'flow']) for _ in range(rng.randint(0, 2)))


def font_size_choice(rng, table):
    """-> (value given to the implementation, exact rational given to the model)."""
    from weasyprint.css.computed_values import FONT_SIZE_KEYWORDS
    if rng.random() < 0.4:
        name, exact = rng.choice(table)
        return FONT_SIZE_KEYWORDS[name], exact
    q = rng.choice([F(16), F(12), F(10), F(9), F(33), F(40), F(20), F(1, 2), F(0), F(19), F(24), F(25), F(100), F(13), F(8)])
    return pynum(q), q


def computed_section(run):
    from weasyprint.css import computed_values as cv
    from weasyprint.css.properties import Dimension
    table, _ = units.font_size_keywords()
    sec = SnapSection(
        run, 'computed-values',
        'direct calls of computed_values.length / COMPUTER_FUNCTIONS[key] (font_size, font_weight, border_width, '
        'break_before_after, display, compute_float, line_height, pixel_length, word_spacing, gap, tab_size, '
        'length_pixels_only, bleed, vertical_align) with a dict-like style and Fractions; mostly-valid values plus '
        'keywords / numbers / tuples of the wrong shape, zeros, negatives, 10^30; non-trivial = the value is '
        'relative (em, ex, ch, rem, %, larger/smaller, bolder/lighter) or a keyword table entry')
    relative = ('em', 'ex', 'ch', 'rem', '%')

    def style_for_lengths():
        fs_impl, fs_model = font_size_choice(run.rng, table)
        root_impl, root_model = font_size_choice(run.rng, table)
        values = {'font_size': fs_impl} if run.rng.random() < 0.95 else {}
        style = FakeStyle(values, parent_style=None if run.rng.random() < 0.3 else {'font_size': 16},
                          root_style={'font_size': root_impl} if run.rng.random() < 0.95 else {},
                          ex=run.rng.choice([F(1, 2), F(4, 5), F(45, 100)]), ch=run.rng.choice([F(1, 2), F(1), F(6, 10)]))
        over = {}
        if 'font_size' in values:
            over['font_size'] = fs_model
        env = w_env(style, model_overrides=over)
        if 'font_size' in style.root_style:
            env[1] = root_model
        return style, env

    # length()
    for _ in range(run.n(4000, 60000)):
        style, env = style_for_lengths()
        value = random_value(run.rng, 'dddddkn')
        override = run.rng.choice([None, None, F(20), F(0), F(5, 2)])
        pixels_only = run.rng.random() < 0.5
        out = outcome(lambda: cv.length(style, 'width', value, font_size=override, pixels_only=pixels_only))
        TALLY.add('length', sx.line('lengthbranch', enc(value), opt(override), pixels_only))
        sec.add(sx.line('length', env, enc(value), opt(override), pixels_only), out,
                meta={'fn': 'length', 'value': repr(value), 'font_size': override, 'pixels_only': pixels_only,
                      'signature': f'length:{getattr(value, "unit", value)}'},
                nontrivial=isinstance(value, Dimension) and value.unit in relative,
                tags=[f'unit:{value.unit}' if isinstance(value, Dimension) else f'other:{type(value).__name__}'])

    def call(key, style, value, env, nontrivial, tag, **extra):
        fn = cv.COMPUTER_FUNCTIONS[key]
        out = outcome(lambda: fn(style, key, value))
        sec.add(sx.line('compute', key, env, enc(value)), out,
                meta=dict({'fn': fn.__name__, 'key': key, 'value': repr(value), 'signature': f'{key}:{tag}',
                           'pseudo': bool(style.pseudo_type), 'font_size': str(style.get('font_size', ''))}, **extra),
                nontrivial=nontrivial, tags=[f'{fn.__name__}:{tag}'])

    # font_size
    for _ in range(run.n(3000, 40000)):
        p_impl, p_model = font_size_choice(run.rng, table)
        parent = None if run.rng.random() < 0.15 else ({'font_size': p_impl} if run.rng.random() < 0.97 else {})
        r_impl, r_model = font_size_choice(run.rng, table)
        style = FakeStyle({}, parent_style=parent, root_style={'font_size': r_impl},
                          ex=F(1, 2), ch=F(3, 4))
        value = run.rng.choice([
            run.rng.choice([name for name, _ in table]), 'larger', 'smaller', 'larger', 'smaller',
            random_value(run.rng, 'd'), random_value(run.rng, 'd'), random_value(run.rng, 'dkn'),
            Dimension(pynum(run.rng.choice(NUMBERS)), '%'), Dimension(pynum(run.rng.choice(NUMBERS)), 'em')])
        env = w_env(style, model_overrides={'parent_font_size': p_model} if parent else {})
        env[1] = r_model
        tag = value if isinstance(value, str) else (f'unit:{value.unit}' if isinstance(value, Dimension) else 'num')
        TALLY.add('fontsize', sx.line('fsbranch', opt(p_model if parent else None) if parent is None or 'font_size' in parent
                                       else 'none', enc(value)))
        call('font_size', style, value, env,
             value in ('larger', 'smaller') or (isinstance(value, Dimension) and value.unit in relative), tag)

    # font_weight
    weights = [100, 200, 300, 400, 500, 600, 700, 800, 900]
    for value in ['normal', 'bold', 'bolder', 'lighter', 'foo'] + weights + [450, 1000, 0]:
        for parent_weight in weights + [450, 1000, 'bold', F(7, 2), None, 'missing']:
            parent = None if parent_weight is None else ({} if parent_weight == 'missing' else {'font_weight': parent_weight})
            style = FakeStyle({}, parent_style=parent, root_style={'font_size': 16})
            call('font_weight', style, value, w_env(style), value in ('bolder', 'lighter'), f'{value}:{parent_weight}',
                 parent_weight=parent_weight if isinstance(parent_weight, int) or parent_weight is None else str(parent_weight))

    # border_width and friends
    width_keys = [k for k, f in cv.COMPUTER_FUNCTIONS.items() if f is cv.border_width]
    for _ in range(run.n(1500, 20000)):
        key = run.rng.choice(width_keys)
        style_key = key.replace('width', 'style')
        style, env = style_for_lengths()
        if run.rng.random() < 0.95:
            style[style_key] = run.rng.choice(['none', 'hidden', 'solid', 'dotted', 'double'])
        value = run.rng.choice(['thin', 'medium', 'thick', 3, 0, random_value(run.rng, 'd'), random_value(run.rng, 'dkn')])
        env[6] = [[k, enc(style[k])] for k in (style_key,) if k in style]
        call(key, style, value, env, isinstance(value, str) or (isinstance(value, Dimension) and value.unit in relative),
             f'{style.get(style_key)}:{value if isinstance(value, (str, int)) else "dim"}')

    # break-before / break-after
    for key in ('break_before', 'break_after'):
        for value in ['auto', 'avoid', 'avoid-page', 'avoid-column', 'page', 'column', 'left', 'right', 'recto', 'verso',
                      'always', 'region', 3]:
            style = FakeStyle({}, root_style={'font_size': 16})
            call(key, style, value, w_env(style), value == 'always', str(value))

    # display / float
    displays = [('inline', 'flow'), ('block', 'flow'), ('inline', 'flow-root'), ('inline', 'table'), ('inline', 'flex'),
                ('inline', 'grid'), ('block', 'flex'), ('block', 'grid'), ('block', 'table'), ('none',),
                ('inline-table',), ('table-cell',), ('table-row',), ('table-caption',), ('table-row-group',),
                ('inline', 'flow', 'list-item'), ('block', 'flow', 'list-item'), ('inline', 'flow-root', 'list-item'),
                (), ('list-item',), ('table-', 'x')]
    positions = ['static', 'relative', 'absolute', 'fixed', ('running()', 'header')]
    floats = ['none', 'left', 'right', 'footnote']
    for value in displays:
        for position in positions:
            for float_ in floats:
                for is_root in (False, True):
                    specified = {'float': float_, 'position': position}
                    if run.rng.random() < 0.03:
                        del specified[run.rng.choice(['float', 'position'])]
                    style = FakeStyle({}, parent_style=None if is_root else {}, root_style={'font_size': 16},
                                      specified=specified)
                    call('display', style, value, w_env(style), True, 'x'.join(value) or 'empty')
    for value in floats:
        for position in positions + [(), ('running',), '']:
            style = FakeStyle({}, root_style={'font_size': 16}, specified={'position': position})
            call('float', style, value, w_env(style), True, str(position))

    # the other registered length-like functions
    others = {
        'line_height': ['normal', 'foo', 3], 'letter_spacing': ['normal', 'auto'], 'word_spacing': ['normal', 'auto'],
        'column_gap': ['normal', 'auto'], 'row_gap': ['normal'], 'tab_size': [8, 4, 0], 'column_width': ['auto'],
        'outline_offset': [], 'bleed_left': ['auto'], 'bleed_top': ['auto'],
        'vertical_align': ['baseline', 'middle', 'text-top', 'text-bottom', 'top', 'bottom', 'super', 'sub', 'foo'],
        'margin_top': ['auto'], 'flex_basis': ['auto', 'content'], 'text_underline_offset': ['auto'],
        'text_decoration_thickness': ['auto', 'from-font'], 'text_indent': [], 'min_width': ['auto'], 'top': ['auto']}
    for _ in range(run.n(3000, 40000)):
        key = run.rng.choice(list(others))
        style, env = style_for_lengths()
        if key.startswith('bleed'):
            style['marks'] = run.rng.choice([(), ('crop',), ('cross',), ('crop', 'cross'), 'none'])
            env[6] = [['marks', enc(style['marks'])]]
        pool = others[key]
        value = run.rng.choice(pool) if pool and run.rng.random() < 0.35 else random_value(run.rng, 'dddk')
        if key == 'vertical_align' and isinstance(value, Dimension) and value.unit == '%':
            continue   # needs Pango's strut
        if key == 'line_height' and isinstance(value, Dimension) and value.unit in ('fr', 'deg', 'vw') and value.value != 0:
            continue   # ('PIXELS', Dimension): not a value shape of the model, never produced by the validator
        call(key, style, value, env,
             (isinstance(value, Dimension) and value.unit in relative) or value in ('super', 'sub'),
             value if isinstance(value, str) else (f'unit:{value.unit}' if isinstance(value, Dimension) else 'num'))
    # tuple-valued properties, content lists, anchor / lang
    rng = run.rng

    def dim(units=('px', 'em', '%', 'rem', 'pt', 'in', None, 'ex')):
        return Dimension(pynum(rng.choice(NUMBERS[:16])), rng.choice(units))

    def some(n_choices, make):
        return tuple(make() for _ in range(rng.choice(n_choices)))

    def content_item():
        return rng.choice([('string', 'x'), ('string', 'yy'), ('content()', 'text'), ('counter()', ('c', 'decimal')),
                           ('attr()', ('id', 'string', 'fb')), ('attr()', ('title', 'string', 'fb')),
                           ('attr()', ('id', 'url', 'fb')), ('quote', 'open-quote'), ('leader()', ('string', 'dots')),
                           ('url', ('external', 'http-x')), ('bogus', 'x'), ('string()', ('title', 'first'))])
    def breadth():
        return rng.choice(['auto', 'min-content', 'max-content', dim(('px', 'em', '%', 'fr', 'rem', 'ex', 'pt')),
                           dim(('fr', 'em', 'px'))])

    def track(depth=1):
        r = rng.random()
        if r < 0.55:
            return breadth()
        if r < 0.75:
            return ('minmax()', breadth(), breadth())
        if r < 0.85 or depth == 0:
            return ('fit-content()', dim(('px', 'em', '%', 'rem')))
        return ('repeat()', rng.choice([1, 2, 'auto-fill', 'auto-fit']), track_list(depth - 1))

    def names():
        return rng.choice([(), (), ('a',), ('a', 'b')])

    def track_list(depth=1):
        out = [names()]
        for _ in range(rng.randint(1, 3)):
            out += [track(depth), names()]
        return tuple(out)
    generators = {
        'grid_template_columns': lambda: rng.choice(['none', ('subgrid', (('a',), ())), track_list(), track_list(), track_list()]),
        'grid_template_rows': lambda: rng.choice(['none', track_list(), track_list(), 'foo', ('x', 3, 'y')]),
        'grid_auto_rows': lambda: some([1, 2, 3], lambda: track(0)),
        'grid_auto_columns': lambda: some([1, 2], lambda: track(0)),
        'border_spacing': lambda: some([2], lambda: dim(('px', 'em', 'pt', 'rem'))),
        'size': lambda: some([2], lambda: dim(('px', 'in', 'cm', 'em'))),
        'clip': lambda: rng.choice([(), some([4], lambda: rng.choice(['auto', dim(('px', 'em'))]))]),
        'border_top_left_radius': lambda: some([2], dim), 'border_bottom_right_radius': lambda: some([2], dim),
        'transform_origin': lambda: some([2, 3], dim),
        'background_position': lambda: some([1, 2], lambda: (rng.choice(['left', 'right']), dim(), rng.choice(['top', 'bottom']), dim())),
        'object_position': lambda: some([1], lambda: (rng.choice(['left', 'right']), dim(), rng.choice(['top', 'bottom']), dim())),
        'background_size': lambda: some([1, 2, 3], lambda: rng.choice(['contain', 'cover', (rng.choice(['auto', dim()]), rng.choice(['auto', dim()]))])),
        'border_image_slice': lambda: some([1, 2, 3, 4], lambda: dim((None, '%'))) + rng.choice([(), ('fill',)]),
        'border_image_width': lambda: some([1, 2, 3, 4], lambda: rng.choice(['auto', dim((None, 'px', 'em', '%', 'rem', 'ex', 'ch', 'pt'))])),
        'mask_border_width': lambda: some([1, 2, 3, 4], lambda: rng.choice(['auto', dim((None, 'px', '%', 'em', 'in', 'ch'))])),
        'border_image_outset': lambda: some([1, 2, 3, 4], lambda: rng.choice([dim((None, 'px', 'em')), rng.randint(0, 3)])),
        'border_image_repeat': lambda: some([1, 2], lambda: rng.choice(['stretch', 'repeat', 'round', 'space'])),
        'transform': lambda: some([0, 1, 2], lambda: rng.choice([('translate', (dim(('px', 'em', '%')), dim(('px', 'em', '%')))),
                                                               ('rotate', F(3, 4)), ('scale', (2, F(1, 2)))])),
        'content': lambda: rng.choice([('normal',), ('none',), some([1, 2, 3], content_item), ('normal', 'none'), ()]),
        'bookmark_label': lambda: some([0, 1, 2, 3], content_item),
        'string_set': lambda: some([1, 2], lambda: (rng.choice(['a', 'b']), some([0, 1, 2], content_item))),
        'anchor': lambda: rng.choice(['none', ('attr()', 'id'), ('attr()', 'name'), ('attr()', 'title')]),
        'lang': lambda: rng.choice(['none', ('attr()', 'lang'), ('attr()', 'id'), ('string', 'fr'), ('bogus', 'x')]),
    }
    wrong = ['auto', 'none', 3, None, Dimension(2, 'em'), ('a',), ((),), (3,), (None,), (('left', Dimension(1, 'px')),)]
    for _ in range(run.n(2500, 40000)):
        key = rng.choice(list(generators))
        style, env = style_for_lengths()
        style.pseudo_type = rng.choice([None, None, 'before'])
        set_attrs(style, rng.choice([{}, {'id': 'q'}, {'id': 'q', 'lang': 'de', 'title': 'tt'}, {'name': ''}]))
        env = env[:9] + [bool(style.pseudo_type), [[k, enc(v)] for k, v in style.attrs.items()]]
        value = generators[key]() if rng.random() < 0.9 else rng.choice(wrong)
        if ('border_image' in key or 'mask_border' in key) and value == wrong[-1]:
            continue    # a pair that is not a Dimension unpacks as (number, unit): outside the model
        call(key, style, value, env, True, 'wrong-shape' if value in wrong else f'len{len(value) if hasattr(value, "__len__") else 0}')
    sec.flush()

    reg = run.section('computer-registry', 'COMPUTER_FUNCTIONS: the function registered for every key vs the generated table')
    for key, fn in cv.COMPUTER_FUNCTIONS.items():
        reg.add(sx.line('computerof', key), fn.__name__, meta={'key': key}, nontrivial=True)


# ---------------------------------------------------------------------------------------------
# ComputedStyle / AnonymousStyle by direct call

INVALID = object()


def make_pending(result):
    from weasyprint.css.utils import InvalidValues, Pending

    class MockPending(Pending):
        def __init__(self, result):
            super().__init__([], 'mock')
            self.result = result

        def validate(self, tokens, wanted_key):
            raise NotImplementedError

        def solve(self, tokens, wanted_key):
            if self.result is INVALID:
                raise InvalidValues('mock')
            return self.result
    return MockPending(result)


def style_vocabulary():
    from weasyprint.css.properties import Dimension as D
    lengths = [D(0, 'px'), D(3, 'px'), D(F(3, 2), 'em'), D(2, 'rem'), D(50, '%'), D(1, 'in'), D(12, 'pt'), D(1, 'cm'),
               D(-2, 'em'), D(1, 'pc')]
    return {
        'font_size': ['small', 'medium', 'xx-large', 'larger', 'smaller', D(20, 'px'), D(F(3, 2), 'em'), D(2, 'rem'),
                      D(150, '%'), D(50, '%'), D(12, 'pt'), D(0, 'px'), D(1, 'in')],
        'font_weight': ['normal', 'bold', 'bolder', 'lighter', 100, 300, 500, 600, 900],
        'width': ['auto'] + lengths, 'margin_left': ['auto'] + lengths, 'text_indent': lengths,
        'hyphenate_limit_zone': lengths, 'text_underline_offset': ['auto'] + lengths,
        'letter_spacing': ['normal'] + lengths[:6], 'word_spacing': ['normal'] + lengths[:6],
        'line_height': ['normal', D(F(3, 2), None), D(2, None), D(150, '%'), D(20, 'px'), D(2, 'em')],
        'border_top_width': ['thin', 'medium', 'thick'] + lengths[:4], 'border_top_style': ['none', 'hidden', 'solid', 'dotted'],
        'outline_width': ['thin', 'thick', D(2, 'em')], 'outline_style': ['none', 'solid'],
        'column_rule_width': ['medium', D(1, 'px')], 'column_rule_style': ['none', 'solid'],
        'break_before': ['auto', 'always', 'page', 'avoid', 'left'], 'break_after': ['auto', 'always', 'right'],
        'display': [('inline', 'flow'), ('block', 'flow'), ('inline', 'flow-root'), ('inline', 'table'), ('table-cell',),
                    ('inline', 'flow', 'list-item'), ('block', 'flex'), ('inline', 'flex'), ('none',)],
        'float': ['none', 'left', 'right'], 'position': ['static', 'relative', 'absolute', 'fixed', ('running()', 'h')],
        'visibility': ['visible', 'hidden', 'collapse'], 'orphans': [1, 2, 5], 'z_index': ['auto', 1, -3],
        'column_gap': ['normal'] + lengths[:5], 'tab_size': [8, 2] + lengths[:3],
        'vertical_align': ['baseline', 'super', 'sub', 'top', D(3, 'px'), D(1, 'em')],
        'text_decoration_line': ['none', {'underline'}, {'overline', 'underline'}, {'line-through'}, {'blink', 'overline'}],
        'text_decoration_style': ['solid', 'double', 'wavy'], 'text_decoration_thickness': ['auto', 'from-font', D(2, 'px'), D(1, 'em')],
        'page': ['auto', 'chapter', 'index'], 'color': ['red-ish', 'blue-ish'], '__x': [('tok', 'a'), ('tok', 'b', 'c')],
        '__y': [('tok', 'q')], 'bleed_left': ['auto'] + lengths[:3], 'marks': ['none', ('crop',), ('cross',), ('crop', 'cross')],
        'white_space': ['normal', 'pre', 'nowrap'], 'opacity': [1, F(1, 2)], 'min_height': ['auto'] + lengths[:4],
        'nonexistent_key': ['foo'],
        'border_spacing': [(D(1, 'em'), D(2, 'px')), (D(0, 'px'), D(1, 'rem'))],
        'border_top_left_radius': [(D(1, 'em'), D(50, '%')), (D(3, 'px'), D(3, 'px'))],
        'transform_origin': [(D(1, 'em'), D(2, 'em')), (D(50, '%'), D(0, 'px'), D(1, 'in'))],
        'background_position': [(('left', D(1, 'em'), 'top', D(10, '%')),), (('right', D(0, '%'), 'bottom', D(2, 'rem')),) * 2],
        'background_size': [(('auto', 'auto'),), ((D(1, 'em'), 'auto'), 'cover'), ('contain',)],
        'clip': [(), (D(1, 'px'), 'auto', D(1, 'em'), D(2, 'px'))],
        'border_image_slice': [(D(10, None), D(20, '%'), 'fill'), (D(1, None),)],
        'border_image_width': [(D(1, None), D(2, 'em'), 'auto'), ('auto',)],
        'border_image_outset': [(D(1, None), D(2, 'px')), (D(1, 'em'),)],
        'border_image_repeat': [('round',), ('stretch', 'space')],
        'transform': [(), (('translate', (D(1, 'em'), D(2, 'px'))), ('rotate', F(1, 2)))],
        'content': [('normal',), ('none',), (('string', 'x'), ('attr()', ('id', 'string', 'fb'))), (('attr()', ('nope', 'string', 'fb')),)],
        'bookmark_label': [(('content()', 'text'),), (('attr()', ('title', 'string', 'fb')), ('string', 'z'))],
        'string_set': [(('a', (('content()', 'text'),)),), (('b', (('string', 'x'), ('attr()', ('id', 'string', 'fb')))),)],
        'anchor': ['none', ('attr()', 'id'), ('attr()', 'name')], 'lang': ['none', ('attr()', 'lang'), ('string', 'fr')],
    }


def random_cascaded(rng, vocab):
    cascaded = {}
    for key in rng.sample(list(vocab), rng.choice([0, 1, 2, 3, 5, 8, 12])):
        r = rng.random()
        if r < 0.12:
            value = 'inherit'
        elif r < 0.22:
            value = 'initial'
        elif r < 0.34:
            rr = rng.random()
            value = make_pending(INVALID if rr < 0.4 else ('inherit' if rr < 0.5 else ('initial' if rr < 0.6 else rng.choice(vocab[key]))))
        else:
            value = rng.choice(vocab[key])
        cascaded[key] = (value, (3, (0, 0, 0, 1)))
    return cascaded


ELEMENT_ATTRS = {'id': 'q', 'lang': 'de', 'title': 'tt'}


def w_elem(cascaded, pseudo):
    return [opt(pseudo), ['@'] + [[k, enc(v)] for k, v in ELEMENT_ATTRS.items()]] + [
        [key, w_casc(value)] for key, (value, _) in cascaded.items()]


def style_section(run):
    import xml.etree.ElementTree as ET
    from weasyprint.css import computed_from_cascaded
    vocab = style_vocabulary()
    keys = list(vocab)
    sec = SnapSection(
        run, 'computed-style',
        'real computed_from_cascaded(...) -> ComputedStyle / AnonymousStyle chains of depth 1..4 (root, ancestors, '
        'element, optional pseudo-element) with generated cascaded dicts (values, inherit, initial, Pending objects '
        'whose solve() returns a value / inherit / initial / raises InvalidValues); every key of a 45-key vocabulary '
        'read in random order on the memoising dict; non-trivial = the key is not cascaded, or is '
        'inherit/initial/pending, or has a computing function')
    from weasyprint.css.computed_values import COMPUTER_FUNCTIONS
    element = ET.Element('p', ELEMENT_ATTRS)
    for _ in range(run.n(600, 12000)):
        depth = run.rng.randint(1, 4)
        chain = []      # root first: (cascaded, pseudo)
        for level in range(depth):
            cascaded = random_cascaded(run.rng, vocab)
            if level and run.rng.random() < 0.2:
                cascaded = {}
            pseudo = run.rng.choice([None, None, 'before']) if level == depth - 1 and level else None
            chain.append((cascaded, pseudo))
        styles = []
        for level, (cascaded, pseudo) in enumerate(chain):
            parent = styles[-1] if styles else None
            root_style = {'font_size': 16} if not styles else styles[0]
            styles.append(computed_from_cascaded(element, cascaded, parent, pseudo, root_style, None))
        style = styles[-1]
        order = keys[:]
        run.rng.shuffle(order)
        order = order[:run.rng.choice([4, 8, len(order)])]
        for level in chain:                       # every cascaded key of the chain, each key read once
            order += [k for k in level[0] if k not in order]
        run.rng.shuffle(order)
        w_chain = [w_elem(c, p) for c, p in reversed(chain)]
        cascaded = chain[-1][0]
        for key in order:
            out = f'{key}=' + outcome(lambda: style[key])
            value = cascaded.get(key, (None,))[0]
            TALLY.add('specified', sx.line('specbranch', F(1, 2), F(1, 2), w_chain, key))
            sec.add(sx.line('style', F(1, 2), F(1, 2), w_chain, [key]), out,
                    meta={'key': key, 'chain': [[{k: c_casc(v[0]) for k, v in c.items()}, p] for c, p in chain],
                          'signature': f'style:{key}:{out[:30]}'},
                    nontrivial=key not in cascaded or not isinstance(value, (int, tuple, set)) or key in COMPUTER_FUNCTIONS,
                    tags=[('anonymous' if not cascaded and depth > 1 else 'root' if depth == 1 else 'child') + ':' +
                          ('absent' if key not in cascaded else c_casc(value).split(':')[0] if not isinstance(value, str)
                           or value not in ('inherit', 'initial') else value)])
    sec.flush()


def all_properties_section(run):
    """absence / inherit / initial / failed var() for *every* key of INITIAL_VALUES, on the root, below it and on
    an element without declarations."""
    import xml.etree.ElementTree as ET
    from weasyprint.css import computed_from_cascaded
    from weasyprint.css.computed_values import COMPUTER_FUNCTIONS
    from weasyprint.css.properties import INHERITED, INITIAL_VALUES
    sec = SnapSection(
        run, 'all-properties',
        'every key of INITIAL_VALUES x {no declaration, inherit, initial, var() failing validation} x {root, child of '
        'a root that declares the key, child of a root that does not, element without any declaration}: real '
        'ComputedStyle / AnonymousStyle vs the model with the generated INHERITED / INITIAL_VALUES / '
        'INITIAL_NOT_COMPUTED tables; non-trivial = all')
    element = ET.Element('p', ELEMENT_ATTRS)
    weight = (3, (0, 0, 0, 1))
    for key in INITIAL_VALUES:
        # a parent value that needs no computing: an opaque sentinel for keys without computing function
        sentinel = 'sentinel-value' if key not in COMPUTER_FUNCTIONS else 'initial'
        for parent_casc in (None, {}, {key: (sentinel, weight)}):
            for own in ('absent', 'inherit', 'initial', 'pending-invalid', 'anonymous'):
                if parent_casc is None and own == 'anonymous':
                    continue
                cascaded = {} if own == 'anonymous' else {'nonexistent_key': ('x', weight)}
                if own in ('inherit', 'initial'):
                    cascaded[key] = (own, weight)
                elif own == 'pending-invalid':
                    cascaded[key] = (make_pending(INVALID), weight)
                chain = [] if parent_casc is None else [(dict(parent_casc, nonexistent_key=('x', weight)), None)]
                chain.append((cascaded, None))
                styles = []
                for casc, pseudo in chain:
                    parent = styles[-1] if styles else None
                    styles.append(computed_from_cascaded(element, casc, parent, pseudo,
                                                         {'font_size': 16} if not styles else styles[0], None))
                style = styles[-1]
                out = f'{key}=' + outcome(lambda: style[key])
                TALLY.add('specified', sx.line('specbranch', F(1, 2), F(1, 2), [w_elem(c, p) for c, p in reversed(chain)], key))
                sec.add(sx.line('style', F(1, 2), F(1, 2), [w_elem(c, p) for c, p in reversed(chain)], [key]), out,
                        meta={'key': key, 'own': own, 'parent': None if parent_casc is None else list(parent_casc),
                              'signature': f'all:{key}:{own}'},
                        tags=[own, 'inherited' if key in INHERITED else 'not-inherited',
                              'root' if parent_casc is None else 'child'])
    sec.flush()


def memo_section(run):
    """Sequences of reads (with repeats) on one memoising ComputedStyle, including after exceptions."""
    import xml.etree.ElementTree as ET
    from weasyprint.css import computed_from_cascaded
    vocab = style_vocabulary()
    keys = [k for k in vocab if k != 'nonexistent_key']
    sec = SnapSection(
        run, 'style-memo',
        'real ComputedStyle (root, or child of a root) read for a sequence of 3..14 keys with repeats: returned '
        'value or exception of every read, in order, vs the dict model (stores, early stores left behind by an '
        'exception, self[position] / self[float] pre-reads); roots with var() solved to inherit on page / '
        'text-decoration-* / position (the initial value since commit 582f36b) and roots holding a string for '
        'text-decoration-line (the union with the child value raises); first case = '
        'Witness.C06.stale_after_exception_chain on the real code; non-trivial = a key is read twice or a read raises')
    element = ET.Element('p', ELEMENT_ATTRS)
    failing = ['page', 'text_decoration_line', 'text_decoration_style', 'position', 'font_size', 'float']
    for case in range(run.n(500, 8000)):
        if case == 0:
            # Witness.C06.stale_after_exception_chain on the real code: the root holds a string where the validator
            # gives a set, so `value | parent_value` raises after the child has stored the inherited value
            chain = [({'text_decoration_line': ('underline', (3, (0, 0, 0, 1)))}, None),
                     ({'text_decoration_line': ('inherit', (3, (0, 0, 0, 1)))}, None)]
            order = ['text_decoration_line', 'text_decoration_line', 'text_decoration_line']
        elif case == 1:
            # the input of the repaired finding var-inherit-on-root, on the memoising dict: no read raises any more
            chain = [({'page': (make_pending('inherit'), (3, (0, 0, 0, 1)))}, None),
                     ({'page': (make_pending(INVALID), (3, (0, 0, 0, 1)))}, None)]
            order = ['page', 'page', 'page']
        else:
            root = random_cascaded(run.rng, vocab)
            if run.rng.random() < 0.5:
                for k in run.rng.sample(failing, run.rng.randint(1, 3)):
                    root[k] = (make_pending('inherit'), (3, (0, 0, 0, 1)))
            if run.rng.random() < 0.3:
                # a parent that raises (mock value of the wrong shape): the only way left to a stale entry
                root['text_decoration_line'] = (run.rng.choice(['underline', 'overline']), (3, (0, 0, 0, 1)))
            chain = [(root, None)]
            if run.rng.random() < 0.8:
                cascaded = random_cascaded(run.rng, vocab)
                if not cascaded:
                    cascaded = {'width': ('auto', (3, (0, 0, 0, 1)))}
                if run.rng.random() < 0.5:
                    for k in run.rng.sample(['page', 'text_decoration_line', 'text_decoration_style', 'orphans'], 2):
                        cascaded[k] = (run.rng.choice(['inherit', 'initial', make_pending(INVALID)]), (3, (0, 0, 0, 1)))
                chain.append((cascaded, run.rng.choice([None, None, 'before'])))
            pool = list(chain[-1][0]) + failing + ['display', 'float', 'position', 'width', 'font_size']
            pool = [k for k in pool if k != 'nonexistent_key']
            order = [run.rng.choice(pool) if run.rng.random() < 0.8 else run.rng.choice(keys)
                     for _ in range(run.rng.randint(3, 14))]
        styles = []
        for cascaded, pseudo in chain:
            parent = styles[-1] if styles else None
            root_style = {'font_size': 16} if not styles else styles[0]
            styles.append(computed_from_cascaded(element, cascaded, parent, pseudo, root_style, None))
        style = styles[-1]
        outs = [f'{key}=' + outcome(lambda: style[key]) for key in order]
        w_chain = [w_elem(c, p) for c, p in reversed(chain)]
        raised = any('=err:' in o for o in outs)
        sec.add(sx.line('readseq', F(1, 2), F(1, 2), w_chain, order), ' '.join(outs),
                meta={'keys': order, 'chain': [[{k: c_casc(v[0]) for k, v in c.items()}, p] for c, p in chain],
                      'signature': f'memo:{order}'},
                nontrivial=len(set(order)) < len(order) or raised,
                tags=['raised' if raised else 'clean', f'depth{len(chain)}',
                      'stale' if raised and any('=err:' not in o and outs[i].split('=')[0] in
                                                 [x.split('=')[0] for x in outs[:i] if '=err:' in x]
                                                 for i, o in enumerate(outs)) else 'no-stale'])
    sec.flush()


# ---------------------------------------------------------------------------------------------

class C06(PropCheck):
    id = 'C06'
    extractors = (precedence.generate, units.generate, c06_source.generate)
    modules = ('WpModel.Props.C06', 'WpModel.Props.C06Memo', 'WpModel.Props.C06Values', 'WpModel.Props.C06Ratio',
               'WpModel.Props.C06Source', 'WpModel.Props.C06Spec', 'WpModel.Props.C06Hints', 'WpModel.Props.C06Absolute',
               'WpModel.Witness.C06')
    trusted_base = (
        'modelled, not verified: StyleFor.__init__ / add_page_declarations weight fold, declaration_precedence, '
        '_page_type_match, preprocess_stylesheet control flow, evaluate/parse_media_query, the media attribute lines of '
        'find_stylesheets, ComputedStyle.__missing__, AnonymousStyle.__missing__, text_decoration, the cache discipline '
        'of character_ratio, and 30 functions of computed_values.py (hand transcription, '
        'tied by the correspondence); tables LENGTHS_TO_PIXELS, FONT_SIZE_KEYWORDS, BORDER_WIDTH_KEYWORDS, '
        'FONT_WEIGHT_RELATIVE, INHERITED, INITIAL_NOT_COMPUTED, INITIAL_VALUES, COMPUTER_FUNCTIONS, the graph of '
        'declaration_precedence, and the literal tables inside the mirrored functions (membership tuples, '
        'AnonymousStyle presets, the layout of the per-document ratio cache, the cache table selected per character) '
        'are regenerated from the source each run',
        'assumed, not modelled: cssselect2 (selector parsing, matching, specificity; used on both sides of the '
        'document-level correspondence), tinycss2 (tokeniser, parse_nth), the per-property validators (the cascaded '
        'value of each declaration is obtained from the real preprocess_declarations), Pango (what character_ratio '
        'measures is a parameter of the model, obtained per style from the real function on an empty cache), '
        'resolve_var / Pending.solve (the model is told what a var() declaration solves to on each element: C07)',
    )
    assumptions = (
        'isinstance(value, int) is modelled as "denominator 1": harnesses never pass integral Fractions/floats there',
        'str.strip() / str.lower() of the media attribute are modelled on ASCII text; generated attribute texts are ASCII',
        'the ex / ch ratio of a style depends on its 14 font properties only (KeyDetermines of '
        'C06.ratio_cache_transparent); the ratios given to the model are measured by the real character_ratio on a copy '
        'of the style with an empty cache',
        'keyword font sizes are floats in the implementation (16 * (3 / 5)); the model holds the exact rational and '
        'values are compared up to 1e-9 relative (counted as float_rounding); discrete comparisons only involve '
        'dyadic values or the keyword floats themselves',
    )

    def correspondence(self, run):
        docs.quiet()
        TALLY.lines.clear()
        c06_real.regression_section(run)            # corpus first
        c06_real.css_wide_section(run)              # fixed family
        c06_real.spec_tables_section(run)
        c06_real.pres_hints_section(run)
        precedence_section(run)
        matcher_sort_section(run)
        media_section(run)
        page_match_section(run)
        page_decls_section(run)
        fold_section(run)
        pair_section(run)
        preprocess_section(run)
        with pango_parameter():
            computed_section(run)
        style_section(run)
        memo_section(run)
        all_properties_section(run)
        cascade_docs.document_section(run)
        cascade_docs.conflict_section(run)
        c06_real.ratio_cache_section(run)
        c06_real.var_document_section(run)
        TALLY.report(run)

    # -- judge: does the implementation's output violate the property clause itself? ---------
    def judge(self, d):
        return cascade_docs.judge(d, reference_winner, reference_page_match, RANK)

    def search(self, run, failures):
        return cascade_docs.search(run, failures, reference_winner)

    def finding_replays(self):
        # the replay functions of the repaired findings (var-inherit-on-root, media-attr-case-sensitive,
        # border-image-width-not-computed) are the corpus-first `regressions` section now
        return {
            'inherit-skips-computed-value': cascade_docs.replay_inherit_skips_computing,
        }

    def replay(self, data):
        return cascade_docs.replay(data, reference_winner, reference_page_match, RANK)


PROP = C06()

MANIFEST = {
    'design_ref': 'DESIGN.md §4 C06',
    'technique': 'Lean 4 theorems over executable models of the cascade fold, inheritance skeleton, computed-value '
                 'functions, page-selector matching and stylesheet preprocessing; tables and the precedence graph '
                 'regenerated from the source each run; executable correspondence with the real functions (direct '
                 'calls with mock sheets / Fractions) and with box.style of rendered generated documents',
    'text': 'Proved for all inputs on the model: the weight fold of StyleFor.__init__ returns the last maximal '
            'declaration under (origin/importance rank, style attribute, specificity) for any list of declarations; '
            'declaration_precedence realises UA < user < author < author! < user!; missing declarations inherit or '
            'take the initial value, inherit on the root is initial; em/rem/%/larger/smaller/bolder/lighter compute '
            'against the stated reference with monotone generated tables; :nth(an+b) page matching is exactly '
            '"exists n >= 0, index + 1 = a n + b"; media rules apply iff all or the device type is listed; the '
            'per-document cache of the ex / ch ratios is transparent (every length is computed against its own font '
            'whatever was computed before). The model is '
            'tied to /repo by generated tables and by exact comparison with the real code on generated inputs.',
    'note': 'Partial: selector matching and specificity computation are cssselect2 (assumed); validators are used as '
            'given; what Pango measures for ex / ch is a parameter (the cache around it is modelled and proved '
            'transparent); var() substitution is exercised through mock Pending objects and through rendered documents '
            'whose Pending values are solved by the real resolve_var (token-level resolution belongs to C07). '
            'Known finding: an inherited value is stored without its computing function (border width with style none, '
            'display of a floated box). Repaired and kept as corpus-first regressions: inherit through var() on the root '
            'element, the case-sensitive media attribute of <style>/<link>, uncomputed border-image-width lengths.',
}
