"""C09 — inline formatting: greedy line breaking inside the available width.

Correspondence between the Lean model (`lean/WpModel/Model/{Pango,LineBreak}.lean`) and the real
`text.line_break.split_first_line` / `create_layout`, `layout.inline.split_text_box` / `text_align` /
`justify_line` / `add_word_spacing`, and rendered paragraphs (`LineBox` / `TextBox` text and geometry).
Real Pango with the fixed-pitch test font is used throughout; Pango itself is an *assumed component*
(`Model/Pango.lean`), tied only by these runs.
"""
import functools
import math
import time
from fractions import Fraction

from extract import line_break_tables
from harness import docs, inline_c09 as ic
from vlib import sx
from vlib.framework import PropCheck

WS = ['normal', 'nowrap', 'pre', 'pre-wrap', 'pre-line']
WB = ['normal', 'break-all']
OW = ['normal', 'anywhere', 'break-word']
ALIGN_ALL = ['left', 'right', 'center', 'justify', 'start', 'end']
ALIGN_LAST = ['auto'] + ALIGN_ALL
WRAP = ('normal', 'pre-wrap', 'pre-line')
COLLAPSE = ('normal', 'nowrap', 'pre-line')
LETTERS = 'abcdefhijlmnopqrstuvwxyz'   # no 'k', no 'g': the test font kerns 'kk' and has a 1.5em ligature for 'liga'
FINDING_HYPHEN = 'break-all-hyphen-width'
FINDING_START_SPACING = 'inline-start-spacing-overflow'
FINDING_END_SPACING = 'inline-end-spacing-overflow'
FINDING_END_RESERVED = 'inline-end-spacing-reserved-early'
FINDING_STALE_WIDTH = 'inline-box-width-stale'
FINDING_BOUNDARY = 'waiting-box-boundary-opportunity-unused'
FINDING_FLOAT_INDENT = 'float-gap-text-indent-later-lines'
FINDING_FLOAT_BAND = 'float-align-width-not-of-line-box'
FINDING_SOFT_HYPHEN = 'soft-hyphen-forces-overflowing-line'


# ---------------------------------------------------------------------------------------------
# wire helpers

def enc(text):
    return 't:' + text.replace(' ', '_').replace('\n', '|')


def dec(atom):
    assert atom.startswith('t:')
    return atom[2:].replace('_', ' ').replace('|', '\n')


def wire_width(w):
    if w is None:
        return 'none'
    if w == math.inf:
        return 'inf'
    return Fraction(w)


def snap(x):
    """Document-level numbers: nearest multiple of 2^-20 px (exact results are dyadic)."""
    return Fraction(round(Fraction(x) * 2 ** 20), 2 ** 20)


# ---------------------------------------------------------------------------------------------
# generators (every choice from run.rng)

def gen_word(rng, long_ok=True):
    r = rng.random()
    if r < 0.55:
        n = rng.randint(1, 6)
    elif r < 0.9 or not long_ok:
        n = rng.randint(5, 12)
    else:
        n = rng.randint(13, 30)
    if rng.random() < 0.5:
        return rng.choice(LETTERS) * n
    return ''.join(rng.choice(LETTERS) for _ in range(n))


def gen_separator(rng, ws, canon=False):
    r = rng.random()
    if canon:
        return '\n' if (ws != 'normal' and ws != 'nowrap' and r < 0.15) else ' '
    if ws in ('pre', 'pre-wrap'):
        if r < 0.7:
            return ' '
        return rng.choice(['  ', '   ', '\n', ' \n', '\n ', '\n\n', '  \n', '\n  '])
    if ws == 'pre-line':
        if r < 0.8:
            return ' '
        return rng.choice(['\n', '\n', '\n\n'])
    return ' '


def gen_paragraph(rng, ws, max_words=400, edges=True, canon=False):
    r = rng.random()
    if r < 0.35:
        n = rng.randint(1, 4)
    elif r < 0.8:
        n = rng.randint(3, 25)
    elif r < 0.95:
        n = rng.randint(20, 100)
    else:
        n = rng.randint(100, 400)
    n = max(1, min(n, max_words))
    parts = []
    for i in range(n):
        parts.append(gen_word(rng))
        if i < n - 1:
            parts.append(gen_separator(rng, ws, canon))
    text = ''.join(parts)
    if edges and not canon:
        r = rng.random()
        if r < 0.12:
            text += ' '
        elif r < 0.18:
            text = ' ' + text
        elif r < 0.21 and ws != 'normal' and ws != 'nowrap':
            text += '\n'
    return text


def gen_adversarial_text(rng):
    n = rng.choice([0, 1, 1, 2, 3, 4, 5, 6, 8, 10, 13, 16])
    alphabet = rng.choice(['ab \n', 'a  ', 'aaa \n', 'a \n\n', 'ab   \n', 'abc '])
    return ''.join(rng.choice(alphabet) for _ in range(n))


def gen_font_size(rng):
    r = rng.random()
    if r < 0.8:
        return Fraction(rng.randint(1, 40))
    return Fraction(rng.randint(4, 160), 4)


def gen_width(rng, fs, adversarial=False):
    if adversarial:
        r = rng.random()
        if r < 0.5:
            return rng.choice([None, math.inf, Fraction(-5), Fraction(-1, 8192), Fraction(-1, 2), Fraction(0),
                               Fraction(1, 4), Fraction(3), Fraction(2 ** 21), Fraction(2 ** 21 - 1),
                               Fraction(10 ** 9), fs * 4, fs * 4 - Fraction(1, 4), fs, fs * 2])
        return Fraction(rng.randint(0, 20 * 4), 4) * fs
    r = rng.random()
    if r < 0.04:
        return None
    if r < 0.06:
        return math.inf
    if r < 0.5:
        return Fraction(rng.randint(0, 60 * 4), 4) * fs          # 0..60em in em/4 steps
    if r < 0.8:
        return Fraction(rng.randint(0, 16 * 4), 4) * fs          # narrow
    return Fraction(rng.randint(0, 60 * 40 * 64), 64)             # any dyadic px value up to 2400


def gen_keywords(rng):
    ws = rng.choice(WS + ['normal', 'normal', 'pre-wrap', 'pre-line'])
    wb = rng.choice(['normal', 'normal', 'normal', 'break-all'])
    ow = rng.choice(['normal', 'normal', 'normal', 'anywhere', 'break-word'])
    return ws, wb, ow


# ---------------------------------------------------------------------------------------------
# real calls

def real_sfl(text, ws, wb, ow, fs, width, ils, minimum, hyphens='manual'):
    from weasyprint.text.line_break import split_first_line
    style = ic.make_style(white_space=ws, word_break=wb, overflow_wrap=ow, font_size=float(fs), hyphens=hyphens)
    w = width if width is None or width == math.inf else float(width)

    def call():
        layout, length, resume, w_, height, _ = split_first_line(text, style, ic.context(), w, 0, ils, minimum)
        return sx.dumps([length, resume, Fraction(w_), enc(layout.text)])
    return docs.outcome(call)


def real_stb(text, ws, wb, ow, fs, width, skip, ils):
    from weasyprint.formatting_structure import boxes
    from weasyprint.layout.inline import split_text_box
    style = ic.make_style(white_space=ws, word_break=wb, overflow_wrap=ow, font_size=float(fs))
    w = width if width is None or width == math.inf else float(width)

    def call():
        box = boxes.TextBox('p', style, None, text or 'x')
        box.text = text          # an empty text box exists after remove_last_whitespace
        new_box, resume, preserved = split_text_box(ic.context(), box, w, skip, is_line_start=ils)
        child = 'none' if new_box is None else [enc(new_box.text), Fraction(new_box.width)]
        return sx.dumps([child, resume, bool(preserved)])
    return docs.outcome(call)


def real_sfw(text, ws, index):
    """Real skip_first_whitespace on a LineBox holding one TextBox, resuming at byte offset `index`."""
    from weasyprint.formatting_structure import boxes
    from weasyprint.layout.inline import skip_first_whitespace
    style = ic.make_style(white_space=ws)

    def call():
        tb = boxes.TextBox('p', style, None, text or 'x')
        tb.text = text
        line = boxes.LineBox('p', style, None, [tb])
        result = skip_first_whitespace(line, {0: {index: None}} if index else None)
        if result == 'continue':
            return 'continue'
        if result is None:
            return '0'
        (i0, sub), = result.items()
        assert i0 == 0
        if sub is None:
            return '0'
        (i1, none), = sub.items()
        assert none is None
        return str(i1)
    return docs.outcome(call)


def real_rlw(text, ws, wb, ow, fs, width, skip):
    """Real split_text_box then remove_last_whitespace on the line holding the new box."""
    from weasyprint.formatting_structure import boxes
    from weasyprint.layout.inline import remove_last_whitespace, split_text_box
    style = ic.make_style(white_space=ws, word_break=wb, overflow_wrap=ow, font_size=float(fs))
    w = width if width is None or width == math.inf else float(width)

    def call():
        box = boxes.TextBox('p', style, None, text or 'x')
        box.text = text
        box.position_x = 0
        new_box, _, _ = split_text_box(ic.context(), box, w, skip, is_line_start=True)
        if new_box is None:
            return 'none'
        line = boxes.LineBox('p', style, None, [new_box])
        line.position_x, line.width = 0, new_box.width
        before = line.width
        remove_last_whitespace(ic.context(), line)
        return sx.dumps([enc(new_box.text), Fraction(new_box.width), Fraction(before - line.width)])
    return docs.outcome(call)


def real_pango(text, width_units, wrap_char, hyph, fs):
    """Real Pango on one layout: (first_line.length, second line start, logical width)."""
    from weasyprint.text.constants import PANGO_WRAP_MODE
    from weasyprint.text.line_break import Layout, line_size, pango
    style = ic.make_style(white_space='pre-wrap', font_size=float(fs),
                          overflow_wrap='normal' if hyph else 'anywhere')
    layout = Layout(ic.context(), style, 0, None)
    if width_units is not None:
        pango.pango_layout_set_width(layout.layout, width_units)
    if wrap_char:
        pango.pango_layout_set_wrap(layout.layout, PANGO_WRAP_MODE['WRAP_CHAR'])
    layout.set_text(text)
    line, index = layout.get_first_line()
    width, _ = line_size(line, style)
    return sx.dumps([line.length, index, Fraction(width)])


# ----- dictionary hyphenation (step 4 of split_first_line)

VOCABULARY = (
    'remember yesterday carefully beautifully hyphenation international understanding development information '
    'different important another because between children something together without example community '
    'environment education particular available necessary themselves everyone possible president national '
    'business american political university experience interest several history material situation individual '
    'certainly relationship especially television organization performance traditional responsibility the of and '
    'to in is you that it he was for on are as with his they at be this have from or one had by word but not what '
    'all were we when your can said there use an each which she do how their if will up other about out many then '
    'them these so some her would into time has look two more write see number way could people than first water '
    'been called who its now find down day did come made may part').split()
HYPHEN_LANG = 'en'


@functools.lru_cache(maxsize=None)
def reference_dictionary(left, right):
    """pyphen itself (the assumed component), one object per (left, right): never WeasyPrint's cache."""
    import pyphen
    return pyphen.Pyphen(lang=pyphen.language_fallback(HYPHEN_LANG), left=left, right=right)


def first_parts(word, left, right):
    return [len(start) for start, _ in reference_dictionary(left, right).iterate(word)]


def text_words(text):
    out, cur = [], ''
    for c in text:
        if c in ' \n':
            if cur:
                out.append(cur)
            cur = ''
        else:
            cur += c
    if cur:
        out.append(cur)
    return out


def gen_hyphen_case(rng):
    ws = rng.choice(['normal', 'normal', 'normal', 'pre-wrap', 'pre-line'])
    wb = rng.choice(['normal', 'normal', 'normal', 'normal', 'break-all'])
    ow = rng.choice(['normal', 'normal', 'normal', 'anywhere'])
    n = rng.choice([1, 1, 2, 2, 3, 4, 6, 9])
    words = [rng.choice(VOCABULARY) for _ in range(n)]
    sep = ' '
    text = sep.join(words)
    r = rng.random()
    if r < 0.06:
        text = text.replace(' ', '  ', 1)
    elif r < 0.12 and ws != 'normal':
        text = text.replace(' ', '\n', 1)
    elif r < 0.16:
        text = ' ' + text
    fs = Fraction(rng.choice([5, 8, 10, 10, 16]))
    width = Fraction(rng.randint(0, 30 * 2), 2) * fs if rng.random() < 0.92 else rng.choice(
        [Fraction(-5), Fraction(0), Fraction(2 ** 21), math.inf])
    limits = (rng.choice([5, 5, 5, 1, 3, 8, 12]), rng.choice([2, 2, 1, 3, 4]), rng.choice([2, 2, 1, 3, 4, 5]))
    zone = (rng.choice([0, 0, 0, 5, 20, 60]), 'px') if rng.random() < 0.6 else (rng.choice([0, 10, 25, 50]), '%')
    hchar = rng.choice(['‐', '‐', '‐', '-', '=='])
    return {'text': text, 'ws': ws, 'wb': wb, 'ow': ow, 'fs': fs, 'width': width, 'ils': rng.random() < 0.85,
            'minimum': rng.random() < 0.15, 'limits': limits, 'zone': zone, 'hchar': hchar}


def real_sfl_hyphen(case):
    from weasyprint.css.properties import Dimension
    from weasyprint.text.line_break import split_first_line
    style = ic.make_style(
        white_space=case['ws'], word_break=case['wb'], overflow_wrap=case['ow'], font_size=float(case['fs']),
        hyphens='auto', lang=HYPHEN_LANG, hyphenate_limit_chars=tuple(case['limits']),
        hyphenate_limit_zone=Dimension(case['zone'][0], case['zone'][1]), hyphenate_character=case['hchar'])
    width = case['width']
    w = width if width is None or width == math.inf else float(width)

    def call():
        layout, length, resume, w_, _, _ = split_first_line(
            case['text'], style, ic.context(), w, 0, case['ils'], case['minimum'])
        return sx.dumps([length, resume, Fraction(w_), enc(layout.text)])
    return docs.outcome(call)


def hyphen_line(case):
    total, left, right = case['limits']
    words = sorted(set(text_words(case['text'])))
    dictionary = [[enc(word), first_parts(word, left, right)] for word in words]
    return sx.line('sflh', enc(case['text']), case['ws'], case['wb'], case['ow'], case['fs'], wire_width(case['width']),
                   case['ils'], case['minimum'], total, case['zone'][1] == '%', Fraction(case['zone'][0]),
                   enc(case['hchar']), dictionary)


def hyphen_violation(case, impl):
    """Breaks inside a word occur only at the dictionary points allowed by the element's own
    hyphenate-limit-chars. -> what | None"""
    if impl.startswith('err:'):
        return f'split_first_line raised {impl[4:]}'
    length, resume, w, ltext = sx.loads_line(impl)[0]
    ltext = dec(ltext)
    hchar = case['hchar']
    if resume == 'none' or not ltext.endswith(hchar):
        return None
    resume = int(resume)
    text = case['text']
    if resume >= len(text) or resume < 1 or text[resume - 1] in ' \n' or text[resume] in ' \n':
        return None
    # the word that was cut and where
    start = resume
    while start > 0 and text[start - 1] not in ' \n':
        start -= 1
    end = resume
    while end < len(text) and text[end] not in ' \n':
        end += 1
    word, cut = text[start:end], resume - start
    total, left, right = case['limits']
    allowed = first_parts(word, left, right)
    if len(word) < total:
        return (f'{word!r} ({len(word)} letters) is hyphenated as {word[:cut]}{hchar}{word[cut:]} although '
                f'hyphenate-limit-chars requires {total} letters')
    if cut not in allowed:
        return (f'{word!r} is hyphenated as {word[:cut]}{hchar}{word[cut:]} ({cut} letters before, {len(word) - cut} '
                f'after); with hyphenate-limit-chars {total} {left} {right} the dictionary allows only '
                f'{[word[:k] + hchar + word[k:] for k in allowed]}')
    return None


# ----- lines next to floats (rendered)

def gen_floats_html(rng, fs, band):
    """1-3 left / right floats before the paragraph.  `band`: a float starts below the font-size but inside the
    line-height of some line, so that the two avoid_collisions calls of get_next_linebox (strut height, then
    font-size height) see different floats."""
    floats = ''
    for _ in range(rng.randint(1, 3)):
        clear = ''
        if band:
            # a left float of width 0 and the wanted height, then `clear: left`, puts the next float lower
            top = (2 * rng.randint(0, 3) + rng.choice([Fraction(5, 4), Fraction(3, 2)])) * fs
            floats += f'<div style="float:left;width:0;height:{float(top)}px"></div>'
            clear = 'clear:left;'
        floats += (f'<div style="float:{rng.choice(["left", "right"])};{clear}'
                   f'width:{float(Fraction(rng.randint(1, 6 if band else 12)) * fs / 2)}px;'
                   f'height:{float(Fraction(rng.randint(1, 8)) * fs / 2)}px;margin:{rng.choice([0, 0, 2])}px;'
                   f'margin-top:{float(rng.choice([0, 0, 1, 3, 5]) * fs / 2)}px"></div>')
    return floats


def gen_float_doc(rng):
    fs = Fraction(rng.choice([5, 8, 10, 10, 16]))
    width = Fraction(rng.randint(6, 40)) * fs
    band = rng.random() < 0.3
    if band:
        width = Fraction(rng.randint(8, 16)) * fs
    floats = gen_floats_html(rng, fs, band)
    ws, wb, ow = gen_keywords(rng)
    spec = {'text': gen_paragraph(rng, ws, max_words=25, edges=True), 'ws': ws, 'wb': wb, 'ow': ow, 'fs': fs,
            'width': width, 'lh': rng.choice(['normal', ('px', fs * 2), ('num', Fraction(3, 2))]),
            'indent': Fraction(rng.choice([0, 0, 0, 10, -5])), 'all': rng.choice(ALIGN_ALL),
            'last': rng.choice(ALIGN_LAST), 'rtl': False, 'ml': Fraction(0)}
    if band:
        spec.update(lh=('px', fs * 2), indent=Fraction(0), all=rng.choice(['right', 'center', 'end', 'justify']))
    lh = spec['lh']
    lh_css = 'normal' if lh == 'normal' else (f'{float(lh[1])}px' if lh[0] == 'px' else f'{float(lh[1])}')
    css = (f'white-space:{ws};word-break:{wb};overflow-wrap:{ow};line-height:{lh_css};'
           f'text-indent:{float(spec["indent"])}px;text-align-all:{spec["all"]};text-align-last:{spec["last"]}')
    html = (f'<div style="width:{float(width)}px;font-size:{float(fs)}px">{floats}'
            f'<p style="{css}">{html_escape(spec["text"])}</p></div>')
    return spec, html


def render_float_doc(spec, html):
    """-> (protocol line, impl, shapes, block geometry) | None when the paragraph is not a single text box."""
    from weasyprint.formatting_structure import boxes
    try:
        before, pages = ic.pipeline(f'<style>{PAGE_CSS}</style>' + html)
    except Exception as exc:  # noqa: BLE001
        return 'fpara-layout-failed', f'err:{type(exc).__name__}', [], None
    if len(before) != 1 or len(before[0]) != 1:
        return None
    shapes = [[Fraction(b.position_x), Fraction(b.position_y), Fraction(b.margin_width()), Fraction(b.margin_height()),
               b.style['float']]
              for page in pages for b in page.descendants() if isinstance(b, boxes.BlockBox) and b.is_floated()]
    (block, lines), = ic.laid_out_paragraphs(pages)
    canon, _ = real_lines(lines)
    if canon is None:
        return None
    geometry = (Fraction(block.content_box_x()), Fraction(block.content_box_y()), Fraction(block.width))
    proto = sx.line('fpara', shapes, enc(before[0][0]), spec['ws'], spec['wb'], spec['ow'], spec['fs'],
                    used_line_height(spec), geometry[0], geometry[2], spec['indent'], spec['all'], spec['last'],
                    geometry[1])
    return proto, sx.dumps(canon), shapes, geometry


def gen_float_inline_doc(rng):
    """1-3 floats, then a paragraph of nested inline boxes (every white-space value, glued boundaries)."""
    fs = Fraction(rng.choice([5, 8, 10, 10, 16]))
    width = Fraction(rng.randint(6, 30)) * fs
    floats = gen_floats_html(rng, fs, False)
    ws = rng.choice(INLINE_WS)
    safe = rng.random() < 0.6
    items = gen_inline_items(rng, rng.randint(2, 10), 2, fs, safe)
    glue = rng.random() < 0.4
    if rng.random() < 0.4:
        strip_spacing(items)
    attach_inline_spaces(items, rng, safe, ws, glue=glue)
    spec = {'items': items, 'fs': fs, 'width': width, 'ws': ws,
            'all': rng.choice(['start', 'start', 'left', 'center', 'end', 'right']),
            'last': rng.choice(['auto', 'auto', 'auto', 'start', 'center', 'end']),
            'indent': Fraction(rng.choice([0, 0, 0, 0, 10, -5]))}
    css = (f'white-space:{ws};text-indent:{float(spec["indent"])}px;text-align-all:{spec["all"]};'
           f'text-align-last:{spec["last"]}')
    html = (f'<div style="width:{float(width)}px;font-size:{float(fs)}px">{floats}'
            f'<p style="{css}">{inline_html(items)}</p></div>')
    return spec, html


def render_float_inline_doc(spec, html):
    """-> (protocol line, impl, shapes, block geometry, nodes) | None when the paragraph is not one line box."""
    from weasyprint.formatting_structure import boxes
    try:
        before, pages = ic.pipeline_trees(f'<style>{PAGE_CSS}</style>' + html, enc)
    except Exception as exc:  # noqa: BLE001
        return 'fipara-layout-failed', f'err:{type(exc).__name__}', [], None, None
    if len(before) != 1 or before[0] is None:
        return None
    shapes = [[Fraction(b.position_x), Fraction(b.position_y), Fraction(b.margin_width()), Fraction(b.margin_height()),
               b.style['float']]
              for page in pages for b in page.descendants() if isinstance(b, boxes.BlockBox) and b.is_floated()]
    (block, lines), = ic.laid_out_paragraphs(pages)
    canon = [[snap(line.position_x), snap(line.position_y), snap(line.width), snap(line.height),
              [ic.frag_wire(child, enc, snap) for child in line.children]] for line in lines]
    geometry = (Fraction(block.content_box_x()), Fraction(block.content_box_y()), Fraction(block.width))
    proto = sx.line('fipara', shapes, before[0], spec['ws'], 'normal', 'normal', spec['fs'], spec['fs'], geometry[0],
                    geometry[2], spec['indent'], spec['all'], spec['last'], geometry[1])
    return proto, sx.dumps(canon), shapes, geometry, before[0]


def float_inline_violation(shapes, geometry, wire, spec):
    """`float_violation` on the lines of a paragraph of nested inline boxes (wire: the canonical lines)."""
    if wire.startswith('err:'):
        return f'layout raised {wire[4:]}', None
    canon = [[Fraction(lx), Fraction(ly), Fraction(lw), Fraction(lh), 'x' if frags else 'none']
             for lx, ly, lw, lh, frags in sx.loads_line(wire)[0]]
    return float_violation(shapes, geometry, canon, spec['ws'], spec['indent'], (spec['all'], spec['last']))


def unexplained(violation, model_violation):
    """A violation of a known-finding class is excused only when the model of the unchanged code shows a violation of
    the same class on the same input; otherwise the finding does not explain it. -> what | None"""
    if not violation:
        return None
    if violation[1] is None:
        return violation[0]
    try:
        same = model_violation()
    except Exception:  # noqa: BLE001  (the model output is an error outcome)
        same = None
    if same and same[1] == violation[1]:
        return None
    return (f'{violation[0]} (not explained by known finding {violation[1]}: the model of the unchanged code does not '
            f'show it on this input)')


def beyond_model(violation, model_violation):
    """Nested inline boxes next to floats: the overflow findings of the unchanged code (inline-*, float-*) also make
    lines overlap floats; a violation is reported only when the model of the unchanged code does not show the very
    same one (same line, same coordinates) on the same input. -> what | None"""
    if not violation:
        return None
    try:
        same = model_violation()
    except Exception:  # noqa: BLE001
        same = None
    if same and same[0] == violation[0]:
        return None
    return violation[0]


def float_violation(shapes, geometry, canon, ws='normal', indent=0, align=('start', 'auto')):
    """Lines lie in the width left between the floats: a line never overlaps a float that is beside it, unless it is
    wider than the whole block (an unbreakable unit with no free place below). -> (what, finding_id) | None
    With a `text-indent` the unchanged code violates this on the lines after the first (known finding
    float-gap-text-indent-later-lines); a float that starts below the font-size band of a line but inside its
    line-height is not seen when the line is aligned, nor is the removal of the trailing space (known finding
    float-align-width-not-of-line-box: judged a violation only where the model of the unchanged code does not
    show the same, see `unexplained`)."""
    if isinstance(canon, str):
        return f'layout raised {canon[4:]}', None
    cbx, _, width = geometry
    if ws not in COLLAPSE:
        return None             # preserved spaces at the end of a line hang: they are part of the line width
    finding = FINDING_FLOAT_INDENT if Fraction(indent) != 0 else None
    moved_by_align = not (align[0] in ('start', 'left') and align[1] in ('auto', 'start', 'left'))
    for i, (lx, ly, lw, lh, child) in enumerate(canon):
        lx, ly, lw, lh = Fraction(lx), Fraction(ly), Fraction(lw), Fraction(lh)
        if child == 'none' or lw == 0 or lw > width:
            continue
        # a line moved or stretched by text-align got its offset from the second avoid_collisions of
        # get_next_linebox, made with a box that is not the final line box
        line_finding = finding or (FINDING_FLOAT_BAND if moved_by_align else None)
        for sx_, sy, smw, smh, side in shapes:
            beside = sy < ly + lh and ly < sy + smh
            if beside and lx < sx_ + smw and sx_ < lx + lw:
                return (f'line {i} spans x=[{float(lx)}, {float(lx + lw)}] at y=[{float(ly)}, {float(ly + lh)}] and '
                        f'overlaps the {side} float [{float(sx_)}, {float(sx_ + smw)}] x [{float(sy)}, '
                        f'{float(sy + smh)}]'), line_finding
        if lx < cbx or lx + lw > cbx + width:
            return (f'line {i} [{float(lx)}, {float(lx + lw)}] lies outside the block '
                    f'[{float(cbx)}, {float(cbx + width)}]'), line_finding
    return None


def gen_skip(rng, nodes):
    """A valid skip_stack into a list of model nodes: (python dict | None, wire)."""
    if not nodes or rng.random() < 0.35:
        return None, 'none'
    index = rng.randrange(len(nodes))
    node = nodes[index]
    if node[0] == 't':
        offset = rng.randint(0, len(dec(node[1])))
        return {index: {offset: None}}, [index, [offset, 'none']]
    sub, wire = gen_skip(rng, node[4])
    return {index: sub}, [index, wire]


def gen_preferred_html(rng):
    ws, wb, ow = gen_keywords(rng)
    fs = Fraction(rng.choice([5, 8, 10, 10, 16]))
    items = gen_inline_items(rng, rng.randint(1, 9), 2, fs, safe=False)
    attach_inline_spaces(items, rng, safe=False, ws=ws)
    r = rng.random()
    leaves = list(inline_leaves(items))
    if r < 0.2:
        leaves[-1][2] += ' '
    elif r < 0.3:
        leaves[0][2] = ' ' + leaves[0][2]
    indent = Fraction(rng.choice([0, 0, 0, 10, 25, -5]))
    css = (f'white-space:{ws};word-break:{wb};overflow-wrap:{ow};font-size:{float(fs)}px;'
           f'text-indent:{float(indent)}px')
    return f'<p style="{css}">{inline_html(items)}</p>', (ws, wb, ow, fs, indent)


# ----- vertical placement inside a line (rendered)

VERTICAL_FS = [5, 8, 10, 16, 20]
VERTICAL_ALIGN = ['baseline', 'middle', 'text-top', 'text-bottom', 'top', 'bottom', 'sub', 'super', '4px', '-3px',
                  '50%', '-25%']


def gen_vertical_body(rng, depth):
    out = ''
    for _ in range(rng.randint(1, 3)):
        if depth > 0 and rng.random() < 0.6:
            css = []
            if rng.random() < 0.6:
                css.append(f'font-size:{rng.choice(VERTICAL_FS)}px')
            r = rng.random()
            if r < 0.3:
                css.append(f'line-height:{rng.choice([0, 4, 10, 15, 30])}px')
            elif r < 0.5:
                css.append(f'line-height:{rng.choice([0.5, 1, 1.5, 2])}')
            elif r < 0.55:
                css.append('line-height:normal')
            if rng.random() < 0.7:
                css.append('vertical-align:' + rng.choice(VERTICAL_ALIGN))
            if rng.random() < 0.3:
                css.append(f'padding-top:{rng.choice([1, 2, 5])}px')
            if rng.random() < 0.3:
                css.append(f'padding-bottom:{rng.choice([1, 2, 5])}px')
            if rng.random() < 0.2:
                css.append(f'border-top:{rng.choice([1, 2, 4])}px solid')
            if rng.random() < 0.2:
                css.append(f'border-bottom:{rng.choice([1, 2, 4])}px solid')
            out += f'<span style="{";".join(css)}">{gen_vertical_body(rng, depth - 1)}</span> '
        else:
            out += rng.choice(['aa', 'b', 'ccc']) + ' '
    return out


def gen_vertical_html(rng):
    css = (f'font-size:{rng.choice(VERTICAL_FS)}px;line-height:{rng.choice(["normal", "normal", "12px", "1.5", "0"])};'
           f'width:{rng.choice([60, 150, 2000])}px')
    return f'<p style="{css}">{gen_vertical_body(rng, 3)}</p>'


def render_vertical_lines(paragraphs):
    """-> per line box made of text and inline boxes only: (paragraph html, line index, protocol line, impl)."""
    from weasyprint.formatting_structure import boxes
    try:
        document = docs.render(f'<style>{PAGE_CSS}</style>' + ''.join(paragraphs))
    except Exception as exc:  # noqa: BLE001
        if len(paragraphs) == 1:
            # no laid-out tree to give to the model: an unknown command, so that the outcome is a disagreement
            return [(paragraphs[0], 0, 'vline-layout-failed', f'err:{type(exc).__name__}')]
        return [entry for html in paragraphs for entry in render_vertical_lines([html])]
    blocks = [box for page in document.pages for box in page._page_box.descendants()
              if isinstance(box, boxes.BlockBox) and box.element_tag == 'p']
    out = []
    for html, block in zip(paragraphs, blocks):
        for index, line in enumerate(c for c in block.children if isinstance(c, boxes.LineBox)):
            inside = [d for d in line.descendants() if d is not line]
            if not all(isinstance(d, (boxes.TextBox, boxes.InlineBox)) for d in inside):
                continue
            proto = sx.line('vline', ic.vstyle_wire(line, True), [ic.vnode_wire(c) for c in line.children],
                            Fraction(line.position_y))
            impl = sx.dumps([snap(line.position_y), snap(line.height), snap(line.baseline),
                             [ic.vbox_wire(c, snap) for c in line.children]])
            out.append((html, index, proto, impl))
    return out


def top_bottom_nested(nodes):
    """Some `vertical-align: top | bottom` inline box holds another inline box (tag only: the shape of the repaired
    finding vertical-align-top-bottom-subtree)."""
    for node in nodes:
        if node[0] == 'b':
            if node[1][2] in ('top', 'bottom') and any(k[0] == 'b' for k in node[2]):
                return True
            if top_bottom_nested(node[2]):
                return True
    return False


def vertical_violation(style, nodes, impl):
    """Clauses on one laid-out line: every box is aligned as its vertical-align says (CSS 2.1 10.8.1), is one
    line-height high (margin box), the line is at least as high as the block's line-height, and every box lies inside
    the line box (so consecutive lines cannot overlap) - for every nesting of top / bottom boxes (full strength since
    fix 5152049).
    -> (what, finding_id) | None"""
    if impl.startswith('err:'):
        return f'line_box_verticality raised {impl[4:]}', None
    ly, lh, lbase, boxes_ = sx.loads_line(impl)[0]
    ly, lh = Fraction(ly), Fraction(lh)
    tol = Fraction(1, 2 ** 19)

    def used_line_height(st):
        fs, line_height, th = Fraction(st[0]), st[1], Fraction(st[7])
        if fs == 0:
            return Fraction(0)
        if line_height == 'normal':
            return th
        return Fraction(line_height[1]) if line_height[0] == 'px' else Fraction(line_height[1]) * fs

    if lh + tol < used_line_height(style):
        return f'the line is {float(lh)} high, less than the line-height {float(used_line_height(style))} of its block', None

    def strut(st):
        """(used line-height, baseline) of strut_layout."""
        fs, th, tb = Fraction(st[0]), Fraction(st[7]), Fraction(st[8])
        lh_ = used_line_height(st)
        if fs == 0:
            return Fraction(0), Fraction(0)
        return lh_, tb + (lh_ - th) / 2

    def subtree_extent(node, box):
        """(top, bottom) of the aligned subtree of CSS 2.1 10.8.1: the margin boxes of the box and of its
        descendants, nested top / bottom boxes (aligned subtrees of their own) excluded."""
        st = node[1]
        y, h, mt, mb = (Fraction(v) for v in box[1:5])
        top, bottom = y, y + h + mt + mb + sum(Fraction(v) for v in st[3:7])
        if node[0] == 'b':
            for kid, kbox in zip(node[2], box[6]):
                if kid[1][2] in ('top', 'bottom'):
                    continue
                ktop, kbottom = subtree_extent(kid, kbox)
                top, bottom = min(top, ktop), max(bottom, kbottom)
        return top, bottom

    def aligned(node, box, parent_baseline, parent_content_top, parent_st):
        """vertical-align of CSS 2.1 10.8.1, relative to the parent box"""
        st = node[1]
        y, h, mt, mb, base = (Fraction(v) for v in box[1:6])
        mh = h + mt + mb + sum(Fraction(v) for v in st[3:7])
        va = st[2]
        pfs, pex = Fraction(parent_st[0]), Fraction(parent_st[9])
        if va == 'baseline':
            got, want, what = y + base, parent_baseline, 'its baseline on the parent baseline'
        elif va == 'middle':
            got, want, what = y + mh / 2, parent_baseline - pfs * pex / 2, 'its middle half an ex above the parent baseline'
        elif va == 'text-top':
            got, want, what = y, parent_content_top, "its top at the top of the parent's content area"
        elif va == 'text-bottom':
            got, want, what = y + mh, parent_content_top + pfs, "its bottom at the bottom of the parent's content area"
        elif va == 'top':
            got, want, what = subtree_extent(node, box)[0], ly, 'the top of its aligned subtree at the top of the line box'
        elif va == 'bottom':
            got, want, what = (subtree_extent(node, box)[1], ly + lh,
                               'the bottom of its aligned subtree at the bottom of the line box')
        else:
            got, want, what = y + base, parent_baseline - Fraction(va[1]), f'its baseline {float(Fraction(va[1]))}px above the parent baseline'
        if abs(got - want) > tol:
            return f'vertical-align {va if isinstance(va, str) else "length"} puts {what}: expected {float(want)}, got {float(got)}'
        return None

    def walk(node, box, parent_baseline, parent_content_top, parent_st):
        st = node[1]
        y, h, mt, mb = (Fraction(v) for v in box[1:5])
        what = aligned(node, box, parent_baseline, parent_content_top, parent_st)
        if what:
            return what, None
        edges = sum(Fraction(v) for v in st[3:7])
        margin_height = h + mt + mb + edges
        if abs(margin_height - used_line_height(st)) > tol:
            return f'a box is {float(margin_height)} high (margin box), its line-height is {float(used_line_height(st))}', None
        if y + tol < ly or y + margin_height > ly + lh + tol:
            return (f'a box spans y=[{float(y)}, {float(y + margin_height)}], outside its line box '
                    f'[{float(ly)}, {float(ly + lh)}]: it overlaps the neighbouring line'), None
        if node[0] == 'b':
            base = Fraction(box[5])
            content_top = y + mt + Fraction(st[3]) + Fraction(st[4])
            for kid, kbox in zip(node[2], box[6]):
                r = walk(kid, kbox, y + base, content_top, st)
                if r:
                    return r
        return None
    line_lh, line_strut_base = strut(style)
    line_baseline = ly + Fraction(lbase)
    line_content_top = line_baseline - line_strut_base + (line_lh - Fraction(style[0])) / 2
    for node, box in zip(nodes, boxes_):
        r = walk(node, box, line_baseline, line_content_top, style)
        if r:
            return r
    return None


# ----- nested inline boxes (rendered)

def gen_inline_items(rng, n, depth, unit, safe):
    """Children of a line: ['t', [words…]] | ['s', left, right, how, [children…]] covering n words.
    `safe`: no start spacing, and a box with end spacing ends with a text leaf (the sub-domain in which the
    unchanged code keeps breakable lines inside the block, see the findings inline-*)."""
    items = []
    while n > 0:
        if depth > 0 and rng.random() < 0.5:
            k = rng.randint(1, n)
            kids = gen_inline_items(rng, k, depth - 1, unit, safe)
            left = Fraction(0) if safe else rng.choice([0, 0, 0, 1, 2, 4]) * unit / 2
            right = rng.choice([0, 1, 2, 2, 4, 6]) * unit / 2
            if safe and right and kids[-1][0] != 't':
                right = Fraction(0)
            items.append(['s', Fraction(left), Fraction(right), rng.choice(['padding', 'border', 'margin', 'mixed']), kids])
            n -= k
        else:
            k = rng.randint(1, n)
            items.append(['t', [gen_word(rng, long_ok=False)[:rng.randint(1, 6)] for _ in range(k)]])
            n -= k
    merged = []
    for item in items:
        if item[0] == 't' and merged and merged[-1][0] == 't':
            merged[-1][1].extend(item[1])
        else:
            merged.append(item)
    return merged


def strip_spacing(items):
    for item in items:
        if item[0] == 's':
            item[1] = item[2] = Fraction(0)
            strip_spacing(item[4])


def inline_leaves(items):
    for item in items:
        if item[0] == 't':
            yield item
        else:
            yield from inline_leaves(item[4])


def attach_inline_spaces(items, rng, safe, ws='normal', glue=None):
    """Give every leaf its text: the single separator between two leaves goes to one of them.  Under a `white-space`
    that preserves newlines a separator may be a newline (inside a leaf too); outside the safe sub-domain two
    leaves may be glued (a word continues in the next box: no break opportunity at the boundary)."""
    protected = set()
    newlines = ws in ('pre', 'pre-wrap', 'pre-line')
    glue = (not safe) if glue is None else glue

    def sep():
        return '\n' if newlines and rng.random() < 0.12 else ' '

    def mark(nodes):
        for node in nodes:
            if node[0] == 's':
                if node[2] != 0 and safe:
                    protected.add(id(node[4][-1]))
                mark(node[4])
    mark(items)
    leaves = list(inline_leaves(items))
    for leaf in leaves:
        text = leaf[1][0]
        for word in leaf[1][1:]:
            text += sep() + word
        leaf.append(text)
    for i in range(len(leaves) - 1):
        if glue and rng.random() < 0.15:
            continue                      # glued: 'cc<b>ddd</b>'
        if id(leaves[i]) not in protected and rng.random() < 0.5:
            leaves[i][2] += sep()
        else:
            leaves[i + 1][2] = sep() + leaves[i + 1][2]


def inline_html(items):
    out = ''
    for item in items:
        if item[0] == 't':
            out += html_escape(item[2])
            continue
        _, left, right, how, kids = item
        if how == 'mixed':
            lb, rb = int(left) // 2, int(right) // 2
            css = (f'padding-left:{float(left - lb)}px;border-left:{lb}px solid;'
                   f'padding-right:{float(right - rb)}px;border-right:{rb}px solid')
        elif how == 'border' and left == int(left) and right == int(right):
            css = f'border-left:{int(left)}px solid;border-right:{int(right)}px solid'
        elif how == 'margin':
            css = f'margin-left:{float(left)}px;margin-right:{float(right)}px'
        else:
            css = f'padding-left:{float(left)}px;padding-right:{float(right)}px'
        out += f'<span style="{css}">{inline_html(kids)}</span>'
    return out


INLINE_WS = ['normal', 'normal', 'normal', 'normal', 'pre-line', 'pre-line', 'pre-wrap', 'nowrap', 'pre']


def gen_inline_spec(rng, safe, ws=None):
    fs = Fraction(rng.choice([1, 2, 5, 8, 10, 10, 16, 20]))   # 1px glyphs: the 1px steps of _break_waiting_children matter
    ws = ws or rng.choice(INLINE_WS)
    items = gen_inline_items(rng, rng.randint(2, 10), 2, fs, safe)
    glue = rng.random() < 0.5
    if glue and rng.random() < 0.6:
        strip_spacing(items)
    attach_inline_spaces(items, rng, safe, ws, glue=glue)
    width = Fraction(rng.randint(4, 44), 2) * fs if rng.random() < 0.85 else Fraction(rng.randint(0, 8), 2) * fs
    return {'items': items, 'fs': fs, 'width': width, 'all': rng.choice(['start', 'start', 'left', 'center', 'end', 'right']),
            'last': rng.choice(['auto', 'auto', 'auto', 'start', 'center', 'end']),
            'ml': Fraction(rng.randint(0, 40), 4), 'safe': safe, 'ws': ws}


def inline_para_html(spec):
    css = (f'font-size:{float(spec["fs"])}px;width:{float(spec["width"])}px;text-align-all:{spec["all"]};'
           f'text-align-last:{spec.get("last", "auto")};margin-left:{float(spec["ml"])}px;'
           f'white-space:{spec.get("ws", "normal")}')
    return f'<p style="{css}">{inline_html(spec["items"])}</p>'


# ----- from the source text to the line (white-space processing + collapsed-space flags + layout)

def gen_src_text(rng, ws):
    """Raw text of a text node: words, single / multiple spaces, newlines, leading / trailing white space."""
    n = rng.choice([0, 1, 1, 2, 2, 3, 4])
    if n == 0:
        return rng.choice([' ', ' ', '  ', '\n', ' \n ']) if ws != 'x' else ' '
    out = rng.choice(['', '', ' ', '  ', '\n'])
    for i in range(n):
        out += gen_word(rng, long_ok=False)[:rng.randint(1, 5)]
        if i < n - 1:
            out += rng.choice([' ', ' ', ' ', '  ', '\n', ' \n', ' \n '])
    return out + rng.choice(['', '', ' ', ' ', '  ', '\n'])


def gen_src_items(rng, ws, depth, unit, budget):
    """Inline content as written in the source: ['t', raw text] | ['b', left, right, how, [children]]."""
    items = []
    for _ in range(rng.randint(1, 4)):
        if budget[0] <= 0:
            break
        budget[0] -= 1
        if depth > 0 and rng.random() < 0.45:
            r = rng.random()
            if r < 0.35:
                # an element holding only white space (its space may collapse away: ' <b> </b>', ' <b> <u> </u></b>')
                kids = [['t', rng.choice([' ', ' ', '  ', '\n'])]]
                if rng.random() < 0.3:
                    kids = [['t', ' '], ['b', Fraction(0), Fraction(0), 'padding', [['t', ' ']]]]
                elif rng.random() < 0.2:
                    kids = [['t', gen_word(rng, long_ok=False)[:3] + ' '], ['b', Fraction(0), Fraction(0), 'padding', [['t', ' ']]], ['t', ' ']]
            else:
                kids = gen_src_items(rng, ws, depth - 1, unit, budget)
            spaced = rng.random() < 0.2
            left = rng.choice([0, 1, 2]) * unit / 2 if spaced else Fraction(0)
            right = rng.choice([0, 1, 2, 4]) * unit / 2 if spaced else Fraction(0)
            items.append(['b', Fraction(left), Fraction(right), rng.choice(['padding', 'margin']), kids])
        else:
            items.append(['t', gen_src_text(rng, ws)])
    merged = []
    for item in items:                      # adjacent texts are one text node of the source
        if item[0] == 't' and merged and merged[-1][0] == 't':
            merged[-1][1] += item[1]
        else:
            merged.append(item)
    return merged


def src_html(items):
    out = ''
    for item in items:
        if item[0] == 't':
            out += html_escape(item[1])
        else:
            _, left, right, how, kids = item
            prop = 'margin' if how == 'margin' else 'padding'
            out += (f'<span style="{prop}-left:{float(left)}px;{prop}-right:{float(right)}px">'
                    f'{src_html(kids)}</span>')
    return out


def src_wire(items):
    return [['t', enc(i[1])] if i[0] == 't' else ['b', i[1], i[2], bool(i[1] or i[2]), src_wire(i[4])] for i in items]


def gen_source_spec(rng):
    fs = Fraction(rng.choice([5, 8, 10, 10, 16]))
    ws = rng.choice(['normal', 'normal', 'normal', 'nowrap', 'pre-line', 'pre-line', 'pre-wrap', 'pre'])
    items = gen_src_items(rng, ws, 2, fs, [rng.randint(2, 8)])
    width = Fraction(rng.randint(2, 30), 2) * fs
    return {'src': items, 'fs': fs, 'width': width, 'ws': ws, 'all': rng.choice(['start', 'start', 'center', 'end']),
            'last': rng.choice(['auto', 'auto', 'start', 'end']), 'ml': Fraction(rng.randint(0, 20), 4)}


def source_para_html(spec):
    css = (f'font-size:{float(spec["fs"])}px;width:{float(spec["width"])}px;text-align-all:{spec["all"]};'
           f'text-align-last:{spec["last"]};margin-left:{float(spec["ml"])}px;white-space:{spec["ws"]}')
    return f'<p style="{css}">{src_html(spec["src"])}</p>'


def render_source_paragraphs(specs):
    """-> list of (spec, real line children (flagged nodes) | None, block | None, canonical lines | None)."""
    html = f'<style>{PAGE_CSS}</style>' + ''.join(source_para_html(s) for s in specs)
    try:
        before, pages = ic.pipeline_trees(html, enc)
    except Exception as exc:  # noqa: BLE001
        if len(specs) == 1:
            before, _ = ic.pipeline_trees(html, enc, layout=False)
            return [(specs[0], before[0] if before else None, FailedBlock(specs[0]), f'err:{type(exc).__name__}')]
        return [entry for spec in specs for entry in render_source_paragraphs([spec])]
    laid = ic.laid_out_paragraphs(pages)
    if len(before) != len(specs) or len(laid) != len(specs):
        raise RuntimeError(f'paragraph count: {len(specs)} specs, {len(before)} before, {len(laid)} after layout')
    out = []
    for spec, nodes, (block, lines) in zip(specs, before, laid):
        canon = [[snap(line.position_x), snap(line.position_y), snap(line.width), snap(line.height),
                  [ic.frag_wire(child, enc, snap) for child in line.children]] for line in lines]
        out.append((spec, nodes, block, canon))
    return out


# ----- words wrapped in inline elements of another white-space (a fixed family, run first)

SPAN_WS_WORDS = 'aaaa bbbb cc ddddd ee fff gggg hh iiiii jj'.split()


def span_ws_family():
    """A normal paragraph in which single words are wrapped in `<span style="white-space: nowrap | pre">` (or the whole
    paragraph is nowrap and a word is wrapped in a normal span): the boundaries between boxes are at the spaces,
    which stay outside the spans and keep the white-space of the block, so the lines are those of the plain text.
    Deterministic: every word position x both values x block widths 5..13em."""
    fs = Fraction(10)
    for span_ws, block_ws in (('nowrap', 'normal'), ('pre', 'normal'), ('normal', 'nowrap'), ('nowrap', 'pre-line')):
        for wrapped in [(i,) for i in range(len(SPAN_WS_WORDS))] + [(1, 2), (3, 5, 6), (0, 9)]:
            for em in (5, 6, 7, 8, 9, 11, 13):
                yield {'words': SPAN_WS_WORDS, 'wrapped': wrapped, 'span_ws': span_ws, 'ws': block_ws, 'fs': fs,
                       'width': em * fs, 'text': ' '.join(SPAN_WS_WORDS), 'wb': 'normal', 'ow': 'normal', 'lh': 'normal',
                       'indent': Fraction(0), 'all': 'start', 'last': 'auto', 'rtl': False, 'ml': Fraction(0)}


def span_ws_html(spec):
    words = [f'<span style="white-space:{spec["span_ws"]}">{w}</span>' if i in spec['wrapped'] else w
             for i, w in enumerate(spec['words'])]
    return (f'<p style="white-space:{spec["ws"]};font-size:{float(spec["fs"])}px;width:{float(spec["width"])}px">'
            f'{" ".join(words)}</p>')


def render_span_ws(specs):
    """-> list of (spec, block, canonical lines in the form of `real_lines`: the fragments of a line joined)."""
    html = f'<style>{PAGE_CSS}</style>' + ''.join(span_ws_html(s) for s in specs)
    _, pages = ic.pipeline_trees(html, enc)
    laid = ic.laid_out_paragraphs(pages)
    if len(laid) != len(specs):
        raise RuntimeError(f'paragraph count: {len(specs)} specs, {len(laid)} after layout')
    out = []
    for spec, (block, lines) in zip(specs, laid):
        canon = []
        for line in lines:
            texts = [b for b in line.descendants() if hasattr(b, 'text')]
            child = 'none'
            if texts:
                child = [enc(''.join(b.text for b in texts)), snap(texts[0].position_x),
                         snap(sum(Fraction(b.width) for b in texts))]
            canon.append([snap(line.position_x), snap(line.position_y), snap(line.width), snap(line.height), child])
        out.append((spec, block, canon))
    return out


# ----- lines taller than the strut next to floats (the second pass of get_next_linebox; a fixed family)

TALL_WORDS = 'aaaa bbb cc ddddd ee fff gggg hh iii jj'


def tall_family():
    """Block line-height 10px (the strut), the whole text in a span of line-height 30px: every line is higher than
    the height the line box is first placed with, so get_next_linebox asks avoid_collisions again with the real line
    and lays the line out again where it is moved to.  Floats of different widths at different heights."""
    fs = Fraction(10)
    for width in (100, 120, 150):
        for first, second in (((20, 15), (50, 40)), ((30, 12), (60, 25)), ((10, 25), (40, 20)), ((50, 15), (20, 40))):
            for side in ('left', 'right'):
                for align in ('start', 'end'):
                    yield {'fs': fs, 'width': Fraction(width), 'floats': (first, second), 'side': side, 'ws': 'normal',
                           'all': align, 'last': 'auto', 'indent': Fraction(0), 'strut': Fraction(10), 'lineh': Fraction(30)}


def tall_html(spec):
    (w1, h1), (w2, h2) = spec['floats']
    side = spec['side']
    floats = (f'<div style="float:{side};width:{w1}px;height:{h1}px"></div>'
              f'<div style="float:{side};clear:{side};width:{w2}px;height:{h2}px"></div>')
    return (f'<div style="width:{float(spec["width"])}px;font-size:{float(spec["fs"])}px;line-height:{float(spec["strut"])}px">'
            f'{floats}<p style="text-align-all:{spec["all"]}"><span style="line-height:{float(spec["lineh"])}px">'
            f'{TALL_WORDS}</span></p></div>')


def render_tall_doc(spec):
    """-> (protocol line, impl, shapes, geometry, nodes) like render_float_inline_doc, for the `ftpara` command."""
    rendered = render_float_inline_doc(dict(spec), tall_html(spec))
    if rendered is None or rendered[3] is None:
        return rendered
    _, impl, shapes, geometry, nodes = rendered
    proto = sx.line('ftpara', shapes, nodes, spec['ws'], 'normal', 'normal', spec['fs'], spec['strut'], spec['lineh'],
                    geometry[0], geometry[2], spec['indent'], spec['all'], spec['last'], geometry[1])
    return proto, impl, shapes, geometry, nodes


def underfilled_violation(shapes, geometry, wire, fs):
    """Greedy next to floats: a line that is followed by another one could not hold the first word of that next line
    in the width left between the floats over its own height. -> (what, None) | None"""
    if wire.startswith('err:'):
        return f'layout raised {wire[4:]}', None
    cbx, _, width = geometry
    lines = sx.loads_line(wire)[0]
    texts = [''.join(frag_text(f) for f in line[4]).strip(' ') for line in lines]
    for i in range(len(lines) - 1):
        lx, ly, lw, lh = (Fraction(v) for v in lines[i][:4])
        nxt = texts[i + 1].split(' ')[0] if texts[i + 1] else ''
        if not nxt or not texts[i] or lh == 0:
            continue
        left, right = Fraction(cbx), Fraction(cbx) + Fraction(width)
        for sx_, sy, smw, smh, side in shapes:
            if sy < ly + lh and ly < sy + smh:
                if side == 'left':
                    left = max(left, sx_ + smw)
                else:
                    right = min(right, sx_)
        need = lw + (1 + len(nxt)) * Fraction(fs)
        if need <= right - left:
            return (f'line {i} {texts[i]!r} ({float(lw)} wide at y=[{float(ly)}, {float(ly + lh)}]) is followed by '
                    f'{nxt!r} on the next line although {float(need)} fits in the {float(right - left)} left between '
                    f'the floats there'), None
    return None


def render_inline_paragraphs(specs):
    """-> list of (spec, node wire | None, block, canonical lines)."""
    html = f'<style>{PAGE_CSS}</style>' + ''.join(inline_para_html(s) for s in specs)
    try:
        before, pages = ic.pipeline_trees(html, enc)
    except Exception as exc:  # noqa: BLE001
        if len(specs) == 1:
            before, _ = ic.pipeline_trees(html, enc, layout=False)
            return [(specs[0], before[0] if before else None, FailedBlock(specs[0]), f'err:{type(exc).__name__}')]
        return [entry for spec in specs for entry in render_inline_paragraphs([spec])]
    laid = ic.laid_out_paragraphs(pages)
    if len(before) != len(specs) or len(laid) != len(specs):
        raise RuntimeError(f'paragraph count: {len(specs)} specs, {len(before)} before, {len(laid)} after layout')
    out = []
    for spec, nodes, (block, lines) in zip(specs, before, laid):
        canon = [[snap(line.position_x), snap(line.position_y), snap(line.width), snap(line.height),
                  [ic.frag_wire(child, enc, snap) for child in line.children]] for line in lines]
        out.append((spec, nodes, block, canon))
    return out


def inline_line(spec, nodes, cbx, y, width):
    return sx.line('ipara', nodes, spec.get('ws', 'normal'), 'normal', 'normal', spec['fs'], spec['fs'], Fraction(cbx),
                   Fraction(width), Fraction(0), spec['all'], spec.get('last', 'auto'), Fraction(y))


# the clauses on nested inline boxes (judge / search)

def frag_x(f):
    return Fraction(f[2]) if f[0] == 't' else Fraction(f[1])


def frag_mw(f):
    if f[0] == 't':
        return Fraction(f[3])
    return Fraction(f[2]) + Fraction(f[3]) + Fraction(f[4])


def frag_text(f):
    return dec(f[1]) if f[0] == 't' else ''.join(frag_text(k) for k in f[5])


def extents_violation(frags, x0):
    """inline boxes' extents add up: children are placed one after the other from the content edge, a box is as
    wide as its children."""
    x = Fraction(x0)
    for f in frags:
        if frag_x(f) != x:
            return f'a box starts at x={float(frag_x(f))} but the previous one ends at {float(x)}'
        if f[0] == 'b':
            inner = extents_violation(f[5], Fraction(f[1]) + Fraction(f[3]))
            if inner:
                return inner
            if f[5] and Fraction(f[2]) != sum(frag_mw(k) for k in f[5]):
                return (f'an inline box is {float(Fraction(f[2]))} wide, its children add up to '
                        f'{float(sum(frag_mw(k) for k in f[5]))}')
        x += frag_mw(f)
    return None


def unflag(nodes):
    """The nodes without their `trailing_collapsible_space` flags ((f node) -> node), at every depth."""
    out = []
    for node in nodes:
        while node[0] == 'f':
            node = node[1]
        out.append(node if node[0] == 't' else [*node[:4], unflag(node[4]), *node[5:]])
    return out


def nodes_safe(nodes):
    """No start spacing; every box with end spacing ends with a text leaf that does not end with a space."""
    for node in unflag(nodes):
        if node[0] == 'b':
            _, left, right, _, kids = node
            if Fraction(left) != 0:
                return False
            if Fraction(right) != 0 and not (kids and kids[-1][0] == 't' and not dec(kids[-1][1]).endswith(' ')):
                return False
            if not nodes_safe(kids):
                return False
    return True


def frag_empty(f):
    """An inline box fragment with nothing in it (its content went to the next line)."""
    return f[0] == 'b' and all(frag_empty(k) for k in f[5])


def node_leaves(nodes):
    for node in unflag(nodes):
        if node[0] == 't':
            yield dec(node[1])
        else:
            yield from node_leaves(node[4])


def has_glue(nodes):
    """Two consecutive text leaves without white space at their boundary (a word continues in the next box)."""
    leaves = [t for t in node_leaves(nodes) if t]
    return any(a[-1] not in ' \n' and b[0] not in ' \n' for a, b in zip(leaves, leaves[1:]))


def no_spacing(nodes):
    return all(n[0] == 't' or (Fraction(n[1]) == 0 and Fraction(n[2]) == 0 and no_spacing(n[4])) for n in unflag(nodes))


def greedy_domain(nodes):
    """The sub-domain in which the unchanged code keeps breakable lines inside the block (see the findings
    inline-*): no start spacing, end spacing only on boxes ending with a text leaf, and - when a word continues in
    the next box - no spacing at all (an end spacing followed by a glued box is the same defect as
    inline-end-spacing-overflow: the spacing is not part of any overflow test)."""
    return nodes_safe(nodes) and (no_spacing(nodes) or not has_glue(nodes))


def boundary_opportunity(frags):
    """Some inline box fragment of the line has a break opportunity at the boundary between two of its children
    (`<span><i>rr </i>anin</span>`): the shape of finding waiting-box-boundary-opportunity-unused."""
    for f in frags:
        if f[0] != 'b':
            continue
        texts = [frag_text(k) for k in f[5]]
        texts = [t for t in texts if t]
        if any(a[-1] in ' \n' and b[0] not in ' \n' for a, b in zip(texts, texts[1:])):
            return True
        if boundary_opportunity(f[5]):
            return True
    return False


def closing_spacing(frags):
    """Sum of the end spacings of the boxes that end at the end of the line, and the last text fragment (empty
    fragments of boxes whose content starts on the next line are skipped)."""
    total, last_text = Fraction(0), None
    while frags:
        rest = [f for f in frags if not (frag_empty(f) and Fraction(f[4]) == 0 and Fraction(f[3]) == 0)]
        if not rest:
            break
        f = rest[-1]
        if f[0] == 't':
            last_text = dec(f[1])
            break
        total += Fraction(f[4])
        frags = f[5]
    return total, last_text


def forced_breaks(nodes, canon):
    """Per line: is it followed by a preserved line break (or is it the last line)?  The non-space characters of
    the lines are found again, in order, in the text of the tree."""
    full = ''.join(frag_text_node(n) for n in nodes)
    pos, ends = 0, []
    for line in canon:
        solid = False
        for c in ''.join(frag_text(f) for f in line[4]):
            if c in ' \n':
                continue
            solid = True
            while pos < len(full) and full[pos] != c:
                pos += 1
            pos += 1
        ends.append(pos if solid else None)
    out = []
    for i, end in enumerate(ends):
        if end is None:
            out.append(None)       # a line of preserved spaces only: where it sits in the text is not decided here
            continue
        nxt = end
        while nxt < len(full) and full[nxt] == ' ':
            nxt += 1
        out.append(i == len(ends) - 1 or nxt >= len(full) or full[nxt] == '\n')
    return out


def inline_violations(nodes, width, canon, ws='normal', place=None):
    """Clauses of C09 on the lines of a paragraph of nested inline boxes: every violation, in line order.
    `place` = (content-box x, text-align-all, text-align-last) adds the alignment clause (ltr).
    -> [(what, finding_id | None)]"""
    width = Fraction(width)
    if isinstance(canon, str):
        return [(f'layout raised {canon[4:]}', None)]
    out = []
    if place is not None and canon:
        cbx, align_all, align_last = Fraction(place[0]), place[1], place[2]
        for i, ((lx, ly, lw, lh, frags), forced) in enumerate(zip(canon, forced_breaks(nodes, canon))):
            lx, lw = Fraction(lx), Fraction(lw)
            if not frags or Fraction(lh) == 0 or forced is None:
                continue
            align = resolve_align({'all': align_all, 'last': align_last, 'rtl': False}, forced)
            free = width - lw
            want = cbx + (0 if free <= 0 else {'left': 0, 'right': free, 'center': free / 2, 'justify': 0}[align])
            if lx != want:
                out.append((f'line {i} starts at x={float(lx)}, text-align {align} '
                            f'({"last line or forced break" if forced else "not a last line"}) of a {float(lw)} wide line in '
                            f'[{float(cbx)}, {float(cbx + width)}] puts it at {float(want)}', None))
    y = None
    for i, (lx, ly, lw, lh, frags) in enumerate(canon):
        lx, ly, lw, lh = Fraction(lx), Fraction(ly), Fraction(lw), Fraction(lh)
        if y is not None and ly != y:
            out.append((f'line {i} starts at y={float(ly)}, previous line ends at {float(y)}', None))
        y = ly + lh
        what = extents_violation(frags, lx)
        if what:
            # a too wide inline box is the known finding inline-box-width-stale (excused only where the model of the
            # unchanged code shows the same on the same input, see `unexplained_all`)
            stale = 'children add up' in what
            out.append((f'line {i}: {what}', FINDING_STALE_WIDTH if stale else None))
        elif frags and lw != sum(frag_mw(f) for f in frags):
            out.append((f'line {i}: line width {float(lw)} is not the sum of its boxes', None))
    want = ''.join(''.join(frag_text_node(n) for n in nodes).split())
    got = ''.join(''.join(''.join(frag_text(f) for f in line[4]) for line in canon).split())
    if want != got:
        out.append((f'characters lost or duplicated: lines carry {got[:60]!r}, text is {want[:60]!r}', None))
        return out
    if ws not in WRAP:
        # nowrap / pre: a line ends only at a preserved line break
        full = ''.join(frag_text_node(n) for n in nodes)
        want_lines = [''.join(part.split()) for part in full.split('\n')]
        got_lines = [''.join(''.join(frag_text(f) for f in line[4]).split()) for line in canon]
        while want_lines and want_lines[-1] == '':
            want_lines.pop()
        while got_lines and got_lines[-1] == '':
            got_lines.pop()
        if got_lines != want_lines:
            out.append((f'white-space:{ws}: lines {got_lines[:8]!r} are not the text between preserved line breaks '
                        f'{want_lines[:8]!r}', None))
        return out
    if not greedy_domain(nodes) or ws not in COLLAPSE:
        return out                  # preserved spaces at the end of a line hang (pre-wrap)
    for i, (lx, ly, lw, lh, frags) in enumerate(canon):
        lw = Fraction(lw)
        text = ''.join(frag_text(f) for f in frags).strip(' ')
        if lw > width and ' ' in text:
            closing, last_text = closing_spacing(frags)
            if last_text is not None and ' ' not in last_text.strip(' ') and lw - closing <= width:
                # known finding inline-end-spacing-overflow: the last word is alone in its text box
                out.append((f'line {i} {text!r} is {float(lw)} wide in {float(width)}: the end spacing of the box is '
                            f'not reserved for an unbreakable last child', FINDING_END_SPACING))
            else:
                out.append((f'line {i} {text!r} is {float(lw)} wide, the block is {float(width)} wide, and the line '
                            f'could break at a space', FINDING_BOUNDARY if boundary_opportunity(frags) else None))
    return out


def inline_violation(nodes, width, canon, ws='normal'):
    """The first violation that belongs to no known-finding class, else the first one. -> (what, finding_id) | None"""
    found = inline_violations(nodes, width, canon, ws)
    for v in found:
        if v[1] is None:
            return v
    return found[0] if found else None


def unexplained_all(violations, model_violations):
    """Several violations on one input: one that belongs to no known-finding class is reported; one of a
    known-finding class is excused only when the model of the unchanged code shows the very same violation on the
    same input (same line, same numbers). -> what | None"""
    for what, finding in violations:
        if finding is None:
            return what
    if not violations:
        return None
    try:
        same = model_violations()
    except Exception:  # noqa: BLE001  (the model output is an error outcome)
        same = []
    for v in violations:
        if v not in same:
            return (f'{v[0]} (not explained by known finding {v[1]}: the model of the unchanged code does not show it '
                    f'on this input)')
    return None


def vertical_aligns(nodes):
    for node in nodes:
        va = node[1][2]
        yield va if isinstance(va, str) else 'length'
        if node[0] == 'b':
            yield from vertical_aligns(node[2])


def frag_text_node(node):
    if node[0] == 'f':
        return frag_text_node(node[1])
    return dec(node[1]) if node[0] == 't' else ''.join(frag_text_node(k) for k in node[4])


def inline_canon_from_wire(s):
    return sx.loads_line(s)[0]


# ----- text_align on real boxes carrying Fractions

def gen_tree(rng, depth, x0):
    """A line's children: list of node specs; positions are consistent running sums (not required by the code)."""
    kids = []
    x = x0
    for _ in range(rng.choice([1, 1, 2, 3, 4] if depth else [1, 2, 3])):
        r = rng.random()
        if r < 0.55 or depth == 0:
            words = ['a' * rng.randint(1, 3) for _ in range(rng.choice([1, 1, 2, 2, 3, 4, 6]))]
            text = words[0] + ''.join(rng.choice([' ', ' ', ' ', '  ', '\u00a0']) + w_ for w_ in words[1:])
            r2 = rng.random()
            if r2 < 0.15:
                text += ' '
            elif r2 < 0.3:
                text = ' ' + text
            w = Fraction(rng.randint(0, 200), rng.choice([1, 2, 4, 3]))
            kids.append(['t', x, w, enc(text).replace('\u00a0', '~')])
            x += w
        elif r < 0.8:
            sub, w = gen_tree(rng, depth - 1, x)
            kids.append(['i', x, w, rng.random() < 0.3, sub])
            x += w
        else:
            # any other box: an atomic inline-level box (in flow) or an out-of-flow box; when it is a ParentBox it
            # may hold text with spaces of its own (an inline-block holding 'cc dd'), which are not the line's
            in_flow = r < 0.9
            cls = rng.choice(ATOM_CLASSES_IN_FLOW if in_flow else ATOM_CLASSES_OUT_OF_FLOW)
            inner = []
            if cls != 'replaced' and rng.random() < 0.6:
                inner_kids, inner_w = gen_tree(rng, 0, x)
                inner = [['i', x, inner_w, False, inner_kids]]
            kids.append(['a', x, in_flow, inner, cls])
            if in_flow:
                x += rng.randint(0, 30)
    return kids, x - x0


def build_real(node, style_text, ws):
    from weasyprint.formatting_structure import boxes
    kind = node[0]
    if kind == 't':
        _, x, w, text = node
        text = dec(text).replace('~', '\u00a0')
        box = boxes.TextBox('span', style_text, None, text)
        box.position_x, box.position_y, box.width = x, 0, w
        box.justification_spacing = 0
        return box
    if kind == 'i':
        _, x, w, rtl, kids = node
        style = ic.make_style(direction='rtl' if rtl else 'ltr', white_space=ws)
        box = boxes.InlineBox('span', style, None, [build_real(k, style_text, ws) for k in kids])
        box.position_x, box.position_y, box.width = x, 0, w
        return box
    _, x, in_flow, inner, cls = node
    children = [build_real(k, style_text, ws) for k in inner]
    if cls == 'inline-block':
        box = boxes.InlineBlockBox('span', ic.make_style(display=('inline', 'flow-root')), None, children)
    elif cls == 'inline-flex':
        box = boxes.InlineFlexBox('span', ic.make_style(display=('inline', 'flex')), None, children)
    elif cls == 'inline-grid':
        box = boxes.InlineGridBox('span', ic.make_style(display=('inline', 'grid')), None, children)
    elif cls == 'replaced':
        box = boxes.InlineReplacedBox('img', ic.make_style(), None, None)
    elif cls == 'float':
        box = boxes.BlockBox('span', ic.make_style(float='left'), None, children)
    else:
        box = boxes.BlockBox('span', ic.make_style(position='absolute'), None, children)
    assert box.is_in_normal_flow() == in_flow
    box.position_x, box.position_y = x, 0
    return box


ATOM_CLASSES_IN_FLOW = ['inline-block', 'inline-block', 'inline-flex', 'inline-grid', 'replaced']
ATOM_CLASSES_OUT_OF_FLOW = ['float', 'absolute']


def expandable_spaces(text):
    """Echo of the node's text as the number of U+0020 / U+00A0 (what the model prints for a text node)."""
    return sum(1 for c in text if c in ' \u00a0')


def read_real(box):
    from weasyprint.formatting_structure import boxes
    if isinstance(box, boxes.TextBox):
        return ['t', box.position_x, box.width, expandable_spaces(box.text)]
    if isinstance(box, (boxes.LineBox, boxes.InlineBox)):
        return ['i', box.position_x, box.width, box.style['direction'] == 'rtl', [read_real(c) for c in box.children]]
    return ['a', box.position_x, box.is_in_normal_flow(), [read_real(c) for c in getattr(box, 'children', ())]]


def real_align(spec):
    from weasyprint.formatting_structure import boxes
    from weasyprint.layout.inline import text_align
    style_text = ic.make_style(white_space=spec['ws'])
    style = ic.make_style(text_align_all=spec['all'], text_align_last=spec['last'], white_space=spec['ws'],
                          direction='rtl' if spec['rtl'] else 'ltr')

    def call():
        line = boxes.LineBox('p', style, None, [build_real(k, style_text, spec['ws']) for k in spec['kids']])
        line.position_x, line.position_y, line.width = spec['x'], 0, spec['width']
        offset = text_align(ic.context(), line, spec['avail'], spec['lastline'])
        return sx.dumps([Fraction(offset), read_real(line)])
    return docs.outcome(call)


def wire_kid(k):
    """the model's view of a node: the class of an atom is not on the wire (the model has one case for all of them)"""
    if k[0] == 'i':
        return ['i', k[1], k[2], k[3], [wire_kid(x) for x in k[4]]]
    if k[0] == 'a':
        return ['a', k[1], k[2], [wire_kid(x) for x in k[3]]]
    return k


def align_line(spec):
    tree = ['i', spec['x'], spec['width'], spec['rtl'], [wire_kid(k) for k in spec['kids']]]
    return sx.line('align', spec['all'], spec['last'], spec['ws'], spec['rtl'], spec['lastline'], spec['width'],
                   spec['avail'], tree)


# ----- rendered paragraphs

PAGE_CSS = ('@page{size:4000px 4000000px;margin:0}html,body{margin:0;padding:0}'
            'body{font-family:weasyprint;font-size:10px;line-height:normal}p{margin:0;padding:0}')


def html_escape(text):
    return text.replace('&', '&amp;').replace('<', '&lt;')


def gen_para_spec(rng, doc_level_words=40, canon=False):
    ws, wb, ow = gen_keywords(rng)
    fs = Fraction(rng.randint(1, 40)) if rng.random() < 0.85 else Fraction(rng.randint(4, 160), 4)
    r = rng.random()
    if r < 0.5:
        width = Fraction(rng.randint(0, 60 * 4), 4) * fs
    elif r < 0.85:
        width = Fraction(rng.randint(0, 14 * 4), 4) * fs
    else:
        width = Fraction(rng.randint(0, 2400 * 4), 4)
    r = rng.random()
    if r < 0.5:
        lh = 'normal'
    elif r < 0.8:
        lh = ('px', Fraction(rng.randint(0, 240), 4))
    else:
        lh = ('num', Fraction(rng.randint(0, 12), 4))
    r = rng.random()
    indent = Fraction(0) if r < 0.6 else Fraction(rng.randint(-40, 160), 4)
    text = gen_paragraph(rng, ws, max_words=doc_level_words, edges=True, canon=canon)
    if rng.random() < 0.04 and not canon:
        text = gen_adversarial_text(rng)
    rtl = rng.random() < 0.25
    if rtl:
        # Under an rtl base direction Pango makes trailing spaces a separate bidi run, which changes WRAP_CHAR
        # results (step 5); the abstract Pango is ltr, so rtl paragraphs keep word-break / overflow-wrap normal.
        wb = ow = 'normal'
    return {
        'text': text, 'ws': ws, 'wb': wb, 'ow': ow, 'fs': fs, 'width': width, 'lh': lh, 'indent': indent,
        'all': rng.choice(ALIGN_ALL), 'last': rng.choice(ALIGN_LAST + ['auto', 'auto']),
        'rtl': rtl, 'ml': Fraction(rng.randint(0, 80), 4)}


def para_html(spec):
    lh = spec['lh']
    lh_css = 'normal' if lh == 'normal' else (f'{float(lh[1])}px' if lh[0] == 'px' else f'{float(lh[1])}')
    css = (f'white-space:{spec["ws"]};word-break:{spec["wb"]};overflow-wrap:{spec["ow"]};'
           f'font-size:{float(spec["fs"])}px;width:{float(spec["width"])}px;line-height:{lh_css};'
           f'text-indent:{float(spec["indent"])}px;text-align-all:{spec["all"]};text-align-last:{spec["last"]};'
           f'direction:{"rtl" if spec["rtl"] else "ltr"};margin-left:{float(spec["ml"])}px')
    return f'<p style="{css}">{html_escape(spec["text"])}</p>'


def used_line_height(spec):
    lh = spec['lh']
    if lh == 'normal':
        return spec['fs']          # test font: normal line-height = font-size (Pango line height)
    return lh[1] if lh[0] == 'px' else lh[1] * spec['fs']


def real_lines(lines):
    """Canonical form of laid-out line boxes: ((x y w h child) ...), child = (text x w) | none."""
    from weasyprint.formatting_structure import boxes
    out, rounding = [], 0
    for line in lines:
        nums = [line.position_x, line.position_y, line.width, line.height]
        kids = list(line.children)
        if len(kids) > 1 or (kids and not isinstance(kids[0], boxes.TextBox)):
            return None, 0
        child = 'none'
        if kids:
            tb = kids[0]
            child = [enc(tb.text), snap(tb.position_x), snap(tb.width)]
            rounding += sum(1 for v in (tb.position_x, tb.width) if snap(v) != Fraction(v))
        rounding += sum(1 for v in nums if snap(v) != Fraction(v))
        out.append([snap(v) for v in nums] + [child])
    return out, rounding


def para_line(spec, text, cbx, y, width):
    return sx.line('para', enc(text), spec['ws'], spec['wb'], spec['ow'], spec['fs'], used_line_height(spec),
                   Fraction(cbx), Fraction(width), spec['indent'], spec['all'], spec['last'], spec['rtl'], Fraction(y))


class FailedBlock:
    """Stands for the block of a paragraph whose layout raised: alone in its document, at the top."""

    def __init__(self, spec):
        self._x, self.width = spec['ml'], spec['width']

    def content_box_x(self):
        return self._x

    def content_box_y(self):
        return Fraction(0)


def render_paragraphs(specs):
    """-> list of (spec, text before layout | None, block, canonical lines | None | 'err:…', float-rounded count).
    When the layout of the batch raises, every paragraph is rendered alone; the one that raises is reported with
    the exception as its outcome."""
    html = f'<style>{PAGE_CSS}</style>' + ''.join(para_html(s) for s in specs)
    try:
        before, pages = ic.pipeline(html)
    except Exception as exc:  # noqa: BLE001
        if len(specs) == 1:
            before, _ = ic.pipeline(html, layout=False)
            texts = before[0] if before else []
            text = texts[0] if len(texts) == 1 else (None if texts else '')
            return [(specs[0], text, FailedBlock(specs[0]), f'err:{type(exc).__name__}', 0)]
        return [entry for spec in specs for entry in render_paragraphs([spec])]
    laid = ic.laid_out_paragraphs(pages)
    if len(before) != len(specs) or len(laid) != len(specs):
        raise RuntimeError(f'paragraph count: {len(specs)} specs, {len(before)} before, {len(laid)} after layout')
    out = []
    for spec, texts, (block, lines) in zip(specs, before, laid):
        canon, rounding = real_lines(lines)
        text = texts[0] if len(texts) == 1 else (None if texts else '')
        out.append((spec, text, block, canon, rounding))
    return out


# ---------------------------------------------------------------------------------------------
# the property's clauses stated directly on an implementation result (judge / search only)

def canonical(text):
    """Texts on which the greedy clauses are stated: words separated by single spaces or newlines (what
    white-space processing leaves in collapsing modes).  Runs of preserved spaces are excluded: how many of them
    hang at a line end is Pango's business (it discounts exactly one), not a clause of the property."""
    return not (text.startswith(' ') or '  ' in text or ' \n' in text or '\n ' in text)


def break_opportunities(text):
    """Offsets where css-text allows a soft wrap in `text` (after a run of spaces)."""
    return [i for i in range(1, len(text)) if text[i - 1] == ' ' and text[i] not in ' \n']


def first_fit(para, fs, width, wraps, can_char, hyphen_quirk=False):
    """Reference first-fit breaker knowing only the glyph advance, on a canonical paragraph (no newline).

    -> offset where the next line starts (len(para) = everything on this line).
    `hyphen_quirk`: the known finding (one character less under word-break: break-all).
    """
    if not wraps or not para:
        return len(para)
    opps = break_opportunities(para) + [len(para)]
    fitting = [o for o in opps if len(para[:o].rstrip(' ')) * fs <= width]
    if fitting:
        return fitting[-1]
    if can_char and fs > 0:
        k = int(width / fs) if width > 0 else 0
        if hyphen_quirk:
            k -= 1
        return max(1, k)
    return opps[0]


def expected_lines(text, ws, fs, widths, can_char, hyphen_quirk=False):
    """Lines of a canonical text: [(content, ends_with_forced_break)], `widths(i)` = available width of line i."""
    collapse = ws in COLLAPSE
    wraps = ws in WRAP
    out = []
    if text == '':
        return out
    paragraphs = text.split('\n')
    if paragraphs[-1] == '' and len(paragraphs) > 1:
        paragraphs.pop()                      # nothing follows the last newline
        trailing_newline = True
    else:
        trailing_newline = False
    for pi, para in enumerate(paragraphs):
        forced_after = pi < len(paragraphs) - 1 or trailing_newline
        if para == '':
            out.append(('', forced_after))
            continue
        pos = 0
        while pos < len(para):
            if collapse:
                while pos < len(para) and para[pos] == ' ':
                    pos += 1
                if pos >= len(para):
                    break
            rest = para[pos:]
            nxt = first_fit(rest, fs, widths(len(out)), wraps, can_char, hyphen_quirk)
            out.append((rest[:nxt], forced_after and pos + nxt >= len(para)))
            pos += nxt
    return out


def sfl_violation(meta, impl):
    """Clauses of C09 on one `split_first_line` result. -> (what, finding_id) | None"""
    text, ws, wb, ow, fs, width, ils, minimum = (
        meta['text'], meta['ws'], meta['wb'], meta['ow'], Fraction(meta['fs']), meta['width'], meta['ils'],
        meta['minimum'])
    if impl.startswith('err:'):
        return f'split_first_line raised {impl[4:]}', None
    length, resume, w, ltext = sx.loads_line(impl)[0]
    length, w, ltext = int(length), Fraction(w), dec(ltext)
    resume = None if resume == 'none' else int(resume)
    if isinstance(width, str):
        width = None if width == 'none' else (math.inf if width == 'inf' else Fraction(width))
    # content: the line is a prefix of the text, nothing but spaces / one newline is dropped, progress is made
    if ltext[:length] != text[:length] or length > len(text):
        return f'line text {ltext[:length]!r} is not the start of the text', None
    if resume is not None:
        if resume <= 0 or resume > len(text):
            return f'resume_index {resume} does not advance inside the text', None
        between = text[length:resume]
        if between.strip(' ') not in ('', '\n'):
            return f'characters {between!r} are dropped between two lines', None
        if ws in COLLAPSE and ltext.endswith(' '):
            return f'collapsible space kept at the end of the broken line {ltext!r}', None
    elif length != len(text) and '\n' not in text and text[length:].strip(' '):
        return f'the text after {text[:length]!r} is lost (no resume_index)', None
    if w != len(ltext) * fs and '\n' not in ltext:
        return f'width {float(w)} is not the advance of {ltext!r} at font-size {float(fs)}', None
    wraps = ws in WRAP
    can_char = wb == 'break-all' or (ils and (ow == 'anywhere' or (ow == 'break-word' and not minimum)))
    if resume is not None and '\n' not in text[length:resume] and not wraps:
        return f'white-space:{ws} broke the line at a space (offset {resume})', None
    if not canonical(text) or fs <= 0:
        return None
    # greedy: exactly the first-fit line
    avail = Fraction(10 ** 12) if (width is None or width == math.inf) else width
    para = text.split('\n')[0]
    want = first_fit(para, fs, avail, wraps, can_char)
    if want == len(para):
        want_resume = len(para) + 1 if '\n' in text else None
    else:
        want_resume = want
    got_content = text[:length].rstrip(' ')
    want_content = para[:want].rstrip(' ')
    if want_resume == len(text) and resume is None:
        resume = want_resume        # nothing follows: "no next line" and "next line at the end" are the same
    if (got_content, resume) != (want_content, want_resume):
        finding = None
        if wb == 'break-all' and ow == 'normal':
            alt = first_fit(para, fs, avail, wraps, can_char, hyphen_quirk=True)
            if (got_content, resume) == (para[:alt].rstrip(' '), alt if alt != len(para) else want_resume):
                finding = FINDING_HYPHEN
        return (f'first line is {got_content!r} (next line at {resume}), first-fit in {float(avail)} at font-size '
                f'{float(fs)} gives {want_content!r} (next line at {want_resume})'), finding
    return None


def resolve_align(spec, last):
    align = spec['all']
    if last and spec['last'] != 'auto':
        align = spec['last']
    if align in ('left', 'right'):
        return align
    if align == 'start':
        return 'right' if spec['rtl'] else 'left'
    if align == 'end':
        return 'left' if spec['rtl'] else 'right'
    return align


def para_violation(spec, text, cbx, y0, width, canon):
    """Clauses of C09 on the lines of one rendered paragraph. -> (what, finding_id) | None"""
    fs = spec['fs']
    lh = used_line_height(spec)
    cbx, width = Fraction(cbx), Fraction(width)
    if isinstance(canon, str):
        return f'layout raised {canon[4:]}', None
    if canon is None:
        return 'line box children are not a single text box', None
    texts = [dec(c[0]) if c != 'none' else '' for *_, c in canon]
    # stacking: no gap, no overlap
    y = Fraction(y0)
    for i, (lx, ly, lw, lhh, child) in enumerate(canon):
        if ly != y:
            return f'line {i} starts at y={float(ly)}, previous line ends at {float(y)} (gap or overlap)', None
        y += lhh
    # conservation of the non-space characters
    want = ''.join(text.split())
    got = ''.join(''.join(texts).split())
    if want != got:
        return f'characters lost or duplicated: lines carry {got[:80]!r}, text is {want[:80]!r}', None
    if not canonical(text) or fs <= 0:
        return None
    indent = spec['indent']
    if indent != 0 and spec['rtl']:
        return None                 # text-indent of rtl blocks is a declared TODO of the code (issue 679)
    can_char = spec['wb'] == 'break-all' or spec['ow'] in ('anywhere', 'break-word')

    def widths(i):
        return width - (indent if i == 0 else 0)
    want_lines = expected_lines(text, spec['ws'], fs, widths, can_char)
    got_lines = list(texts)
    heights = [c[3] for c in canon]
    if got_lines and canon[-1][4] == 'none' and heights[-1] == 0 and text.endswith(' '):
        got_lines.pop()             # phantom line box left by a trailing collapsible space
    if [t.rstrip(' ') for t in got_lines] != [t.rstrip(' ') for t, _ in want_lines]:
        finding = None
        if spec['wb'] == 'break-all' and spec['ow'] == 'normal':
            alt = expected_lines(text, spec['ws'], fs, widths, can_char, hyphen_quirk=True)
            if [t.rstrip(' ') for t in got_lines] == [t.rstrip(' ') for t, _ in alt]:
                finding = FINDING_HYPHEN
        return (f'lines {got_lines[:12]!r} differ from the first-fit lines {[t for t, _ in want_lines][:12]!r} '
                f'(width {float(width)}, font-size {float(fs)}, text-indent {float(indent)})'), finding
    # geometry of each line: height, extents, alignment
    collapse = spec['ws'] in COLLAPSE
    for i, ((lx, ly, lw, lhh, child), (content, forced)) in enumerate(zip(canon, want_lines)):
        if lhh != lh:
            return f'line {i} is {float(lhh)} high, line-height is {float(lh)}', None
        ind = indent if i == 0 else 0
        shown = content.rstrip(' ') if collapse else content
        natural = len(shown) * fs
        cw = Fraction(0) if child == 'none' else child[2]
        cx = lx + (ind if not spec['rtl'] else 0) if child == 'none' else child[1]
        if child != 'none' and lw != ind + cw:
            return f'line {i}: line width {float(lw)} is not text-indent {float(ind)} + text width {float(cw)}', None
        last = i == len(want_lines) - 1 or forced
        align = resolve_align(spec, last)
        free = width - (ind + natural)
        if free <= 0:
            want_w, want_x = natural, (cbx if not spec['rtl'] else cbx + width - (ind + natural))
        elif align == 'justify':
            if collapse and ' ' in shown:
                want_w, want_x = natural + free, cbx
            else:
                want_w, want_x = natural, (cbx if not spec['rtl'] else cbx + free)
        else:
            want_w = natural
            want_x = cbx + {'left': 0, 'right': free, 'center': free / 2}[align]
        if cw != want_w:
            return f'line {i} ({shown!r}): text width {float(cw)}, expected {float(want_w)}', None
        if lx != want_x:
            return (f'line {i} ({shown!r}) starts at x={float(lx)}, text-align {align} in '
                    f'[{float(cbx)}, {float(cbx + width)}] puts it at {float(want_x)}'), None
        if child != 'none' and not spec['rtl'] and cx != lx + ind:
            return f'line {i}: text starts at {float(cx)}, line at {float(lx)} + indent {float(ind)}', None
    return None


def align_violation(spec, impl):
    if impl.startswith('err:'):
        return f'text_align raised {impl[4:]}'
    parsed = sx.loads_line(impl)[0]
    offset = Fraction(parsed[0])
    tree = parsed[1]
    new_width = Fraction(tree[2])
    width, avail = Fraction(spec['width']), Fraction(spec['avail'])
    if width >= avail:
        if offset != 0:
            return f'offset {offset} for a line that fills the available width'
        return None
    align = resolve_align(spec, spec['lastline'])
    # text_align returns the offset from the start edge (the caller mirrors it for rtl)
    if spec['rtl'] and align in ('left', 'right'):
        align = 'left' if align == 'right' else 'right'
    free = avail - width
    spaces = count_spec_spaces(spec['kids'])
    justified = align == 'justify' and spec['ws'] in COLLAPSE and spaces > 0
    want = {'left': 0, 'right': free, 'center': free / 2, 'justify': 0}[align]
    if offset != want:
        return f'offset {offset}, text-align {align} of a {width} wide line in {avail} gives {want}'
    if justified and new_width != avail:
        return f'justified line is {new_width} wide, available {avail}'
    if not justified and new_width != width:
        return f'line width changed from {width} to {new_width} without justification'
    return None


def atom_spaces(kids):
    """Spaces inside atomic / out-of-flow boxes (never expandable spaces of the line)."""
    total = 0
    for k in kids:
        if k[0] == 'i':
            total += atom_spaces(k[4])
        elif k[0] == 'a':
            total += count_spec_spaces(k[3]) + atom_spaces(k[3])
    return total


def count_spec_spaces(kids):
    total = 0
    for k in kids:
        if k[0] == 't':
            total += expandable_spaces(dec(k[3]).replace('~', '\u00a0'))
        elif k[0] == 'i':
            total += count_spec_spaces(k[4])
    return total


# ---------------------------------------------------------------------------------------------

class C09(PropCheck):
    id = 'C09'
    extractors = (line_break_tables.generate,)
    modules = ('WpModel.Props.C09', 'WpModel.Witness.C09')
    trusted_base = (
        'ASSUMED COMPONENT: Pango/HarfBuzz/fontconfig. lean/WpModel/Model/Pango.lean is an abstract fixed-pitch Pango '
        '(greedy WRAP_WORD / WRAP_CHAR, one trailing space discounted, automatic hyphen charged inside words, log attrs); '
        'it agrees with the real Pango only on what the correspondence sections pango-first-line / split-first-line run',
        'ASSUMED COMPONENT: pyphen. The dictionary answer (first parts of each word for the element\'s own left / right '
        'limits) is an input of the model of step 4, computed by calling pyphen directly, never through '
        'context.dictionaries',
        'modelled, not verified: split_first_line step 4 (hyphens:auto), split_inline_level / split_inline_box / '
        '_break_waiting_children / can_break_inside / skip_first_whitespace / remove_last_whitespace / '
        'is_phantom_linebox on text boxes and inline boxes (ltr, no float, no atomic inline, one font)',
        'modelled, not verified: split_first_line steps 1-3 and 5, first_line_metrics, create_layout, split_text_box, '
        'skip_first_whitespace / remove_last_whitespace (text part), text_align, justify_line, add_word_spacing, and '
        'iter_line_boxes / get_next_linebox for a line box holding one text box without floats',
        'texts are ASCII letters, U+0020, U+000A (byte offsets = character offsets); fixed-pitch test font '
        '(advance = font-size, line height = font-size); font sizes multiples of 1/4 px',
        'float comparisons of the implementation agree with the rational ones on dyadic inputs (incl. max_x *= 1 + 1e-9)',
        'modelled, not verified (round 2): strut_layout, the half-leading assignments of split_text_box / '
        'split_inline_box, line_box_verticality / aligned_subtree_verticality / inline_box_verticality / '
        'translate_subtree (Model/LineVertical; Pango text height, baseline and the ex ratio of character_ratio are '
        'inputs read from the real layout, results compared after snapping to 2^-20 px); inline_line_widths / '
        'inline_min_content_width / inline_max_content_width / trailing_whitespace_size / adjust for text and inline '
        'boxes with px spacing (Model/InlinePreferred); get_next_linebox with excluded shapes for a line box holding one '
        'text box, ltr (Model/LineFloats, on C11\'s avoid_collisions model imported unchanged)',
        'modelled, not verified (round 3): split_inline_box / _break_waiting_children / can_break_inside under every '
        'white-space value (no opportunity between children under pre / nowrap, preserved line breaks inside nested '
        'boxes); get_next_linebox with excluded shapes for nested inline boxes (Model/LineFloatsInline = '
        'inline_min_content_width with the resume skip_stack + avoid_collisions + split_inline_box); '
        'count_expandable_spaces / add_word_spacing on atomic and out-of-flow boxes that hold text of their own',
        'modelled, not verified (round 4): build.process_whitespace on trees of text and inline boxes (the TextBox '
        'branch is C08\'s Bx.processText, imported unchanged) run once per element, and the first loop of '
        'build.inline_in_block (emptied text boxes removed, trailing_collapsible_space) — Model/InlineSource; the '
        'last_letter is True / trailing_collapsible_space path of split_inline_box (Node.flagged, Last.collapsed); '
        'the source-nodes / source-doc sections feed the model with the source text, not with the built tree',
    )
    assumptions = (
        'no soft hyphen in the texts; dictionary hyphenation only in the hyphenation section (lang=en)',
        'document level: text boxes and nested inline boxes under every white-space value (boundaries between boxes at '
        'spaces, preserved newlines or inside a word), vertical-align of every kind in the line-vertical section only, '
        'floats only before the paragraph (one text box: float-lines; nested inline boxes: float-inline-lines), no '
        'float and no atomic inline inside a rendered line (atomic / out-of-flow boxes with children only in the '
        'text-align section, on real box classes)',
    )

    # ----- correspondence

    def correspondence(self, run):
        docs.quiet()
        ic.env()
        self._sec_regressions(run)
        self._sec_span_ws(run)
        self._sec_pango(run)
        self._sec_sfl(run)
        self._sec_stb(run)
        self._sec_whitespace(run)
        self._sec_align(run)
        self._sec_para(run)
        self._sec_inline(run)
        self._sec_hyphen(run)
        self._sec_vertical(run)
        self._sec_preferred(run)
        self._sec_floats(run)
        self._sec_float_inline(run)
        self._sec_tall(run)
        self._sec_source(run)

    def _sec_regressions(self, run):
        sec = run.section(
            'regressions',
            'corpus first: the inputs of the repaired findings (negative-width-unbroken, '
            'vertical-align-top-bottom-subtree, preserved-line-break-flag-stale-after-rebreak, '
            'nowrap-breaks-after-collapsed-space), deterministic, compared with the model through the protocol of the '
            'section named in meta["as"] and judged at full strength (a fixed: entry suppresses nothing); '
            'non-trivial = every case')
        spec = regression_negative_width_spec()
        for spec, text, block, canon, _ in render_paragraphs([spec]):
            impl = canon if isinstance(canon, str) else sx.dumps(canon)
            cbx, y0, width = block.content_box_x(), block.content_box_y(), block.width
            sec.add(para_line(spec, text, cbx, y0, width), impl,
                    meta={'as': 'paragraph-doc', 'spec': spec_json(spec), 'text': text, 'cbx': str(Fraction(cbx)),
                          'y': str(Fraction(y0)), 'width': str(Fraction(width)), 'html': para_html(spec)},
                    nontrivial=True, tags=['negative-width-unbroken'])
        for ow, wb in (('anywhere', 'normal'), ('break-word', 'normal'), ('normal', 'break-all')):
            args = ('aa b cc', 'normal', wb, ow, Fraction(10), Fraction(-10), True, False)
            impl = real_sfl(*args)
            sec.add(sx.line('sfl', True, enc(args[0]), *args[1:5], wire_width(args[5]), *args[6:]), impl,
                    meta={'as': 'split-first-line', 'text': args[0], 'ws': 'normal', 'wb': wb, 'ow': ow, 'fs': '10',
                          'width': '-10', 'ils': True, 'minimum': False},
                    nontrivial=True, tags=['negative-width-unbroken'])
        for name in REGRESSION_INLINE:
            body = corpus_body(name)
            before, pages = ic.pipeline_trees(f'<style>{PAGE_CSS}</style>' + body, enc)
            (block, lines), = ic.laid_out_paragraphs(pages)
            canon = [[snap(line.position_x), snap(line.position_y), snap(line.width), snap(line.height),
                      [ic.frag_wire(child, enc, snap) for child in line.children]] for line in lines]
            style = block.style
            spec = {'ws': style['white_space'], 'fs': Fraction(style['font_size']), 'all': style['text_align_all'],
                    'last': style['text_align_last']}
            cbx, y0, width = block.content_box_x(), block.content_box_y(), block.width
            sec.add(inline_line(spec, before[0], cbx, y0, width), sx.dumps(canon),
                    meta={'as': 'inline-doc', 'nodes': sx.dumps(before[0]), 'width': str(Fraction(width)), 'html': body,
                          'inline': True, 'ws': spec['ws'], 'place': [str(Fraction(cbx)), spec['all'], spec['last']]},
                    nontrivial=True, tags=[name.replace('_', '-')])
        for html, index, proto, impl in render_vertical_lines(REGRESSION_VERTICAL):
            sec.add(proto, impl, meta={'as': 'line-vertical', 'html': html, 'line': index, 'vertical': True},
                    nontrivial=True, tags=['vertical-align-top-bottom-subtree'])

    def _sec_span_ws(self, run):
        sec = run.section(
            'span-white-space',
            'a fixed family, run first: paragraphs in which single words are wrapped in inline elements of another '
            'white-space (nowrap / pre spans in a normal or pre-line block, normal spans in a nowrap block), the spaces '
            'staying outside the spans: the break opportunity between two children belongs to the box that holds the '
            'boundary, so the lines (x, y, width, height, joined text) are those of the plain paragraph - compared with '
            'the model of iter_line_boxes on the plain text; non-trivial = at least two lines')
        specs = list(span_ws_family())
        for i in range(0, len(specs), 14):
            for spec, block, canon in render_span_ws(specs[i:i + 14]):
                cbx, y0, width = block.content_box_x(), block.content_box_y(), block.width
                sec.add(para_line(spec, spec['text'], cbx, y0, width), sx.dumps(canon),
                        meta={'as': 'paragraph-doc', 'span_ws': True, 'spec': spec_json(spec), 'text': spec['text'],
                              'cbx': str(Fraction(cbx)), 'y': str(Fraction(y0)), 'width': str(Fraction(width)),
                              'html': span_ws_html(spec)},
                        nontrivial=len(canon) >= 2, tags=[f'span-{spec["span_ws"]}-in-{spec["ws"]}'])

    def _sec_pango(self, run):
        sec = run.section(
            'pango-first-line',
            'the assumed component: real Pango first line (length, next start, width) under WRAP_WORD and WRAP_CHAR, '
            'hyphens on/off; non-trivial = the text does not fit on one line')
        rng = run.rng
        for i in range(run.n(6000, 60000)):
            adversarial = rng.random() < 0.5
            text = gen_adversarial_text(rng) if adversarial else gen_paragraph(rng, 'pre-wrap', max_words=30)
            fs = gen_font_size(rng)
            r = rng.random()
            if r < 0.08:
                units = None
            elif r < 0.12:
                units = 0
            else:
                units = int(Fraction(rng.randint(0, 30 * 4), 4) * fs * 1024) + rng.choice([0, 0, 0, 1, -1, 512])
                units = max(units, 0)
            wrap_char = rng.random() < 0.4
            hyph = rng.random() < 0.6
            impl = docs.outcome(lambda: real_pango(text, units, wrap_char, hyph, fs))
            width = 'none' if units is None else Fraction(units, 1024)
            sec.add(sx.line('pango', enc(text), width, wrap_char, hyph, fs), impl,
                    meta={'text': text, 'units': units, 'wrap_char': wrap_char, 'hyph': hyph, 'fs': str(fs)},
                    nontrivial=units is not None and len(text.split('\n')[0]) * fs * 1024 > units,
                    tags=['char' if wrap_char else 'word', 'adversarial' if adversarial else 'paragraph'])

    def _sec_sfl(self, run):
        from vlib import lean
        sec = run.section(
            'split-first-line',
            'real split_first_line (real Pango, test font) vs model on (length, resume_index, width, layout.text): '
            'paragraphs of 1..400 words of 1..30 letters, widths 0..60em, font sizes 1..40, every white-space / '
            'word-break / overflow-wrap, plus an adversarial stream; non-trivial = a line break is produced; the '
            'branch histogram is measured by the model (Model/LineBreakTrace)')
        rng = run.rng
        cases = []
        for i in range(run.n(18000, 400000)):
            adversarial = rng.random() < 0.3
            ws, wb, ow = gen_keywords(rng)
            if adversarial:
                ws = rng.choice(WS)
                text = gen_adversarial_text(rng)
            else:
                text = gen_paragraph(rng, ws)
            fs = gen_font_size(rng)
            width = gen_width(rng, fs, adversarial)
            ils = rng.random() < 0.8
            minimum = rng.random() < 0.2
            hyphens = rng.choice(['manual', 'manual', 'none', 'auto'])
            impl = real_sfl(text, ws, wb, ow, fs, width, ils, minimum, hyphens)
            meta = {'text': text, 'ws': ws, 'wb': wb, 'ow': ow, 'fs': str(fs), 'width': str(wire_width(width)),
                    'ils': ils, 'minimum': minimum}
            broke = not impl.startswith('err:') and ' none ' not in impl
            tags = [ws, 'adversarial' if adversarial else 'paragraph', 'break' if broke else 'fits']
            if wb != 'normal' or ow != 'normal':
                tags.append('char-breaking-allowed')
            if impl.startswith('err:'):
                tags.append(impl)
            args = (enc(text), ws, wb, ow, fs, wire_width(width), ils, minimum)
            cases.append((args, impl, meta, broke, tags))
        # which branches of the model each call takes (measurement only)
        seen = set()
        for start in range(0, len(cases), 20000):
            chunk = cases[start:start + 20000]
            branches = lean.run_driver(self.driver, [sx.line('sfl-branches', *c[0]) for c in chunk])
            for (args, impl, meta, broke, tags), line in zip(chunk, branches):
                names = line.split()
                seen.update(names)
                sec.add(sx.line('sfl', True, *args), impl, meta=meta, nontrivial=broke, tags=tags + names)
        every = lean.run_driver(self.driver, ['sfl-all-branches'])[0].split()
        run.extra['split_first_line_branches_never_hit'] = [b for b in every if b not in seen]

    def _sec_stb(self, run):
        sec = run.section(
            'split-text-box',
            'real split_text_box on a real TextBox (skip offsets, is_line_start) vs model on (new text, width, '
            'resume, preserved_line_break) incl. its assertions; non-trivial = skip > 0 or a break is produced')
        rng = run.rng
        for i in range(run.n(8000, 120000)):
            adversarial = rng.random() < 0.35
            ws, wb, ow = gen_keywords(rng)
            if adversarial:
                ws = rng.choice(WS)
                text = gen_adversarial_text(rng)
            else:
                text = gen_paragraph(rng, ws, max_words=60)
            fs = gen_font_size(rng) if rng.random() < 0.97 else Fraction(0)
            width = gen_width(rng, fs or Fraction(10), adversarial)
            r = rng.random()
            skip = 0 if r < 0.3 else (len(text) if r < 0.35 else rng.randint(0, len(text)))
            ils = rng.random() < 0.7
            impl = real_stb(text, ws, wb, ow, fs, width, skip, ils)
            meta = {'text': text, 'ws': ws, 'wb': wb, 'ow': ow, 'fs': str(fs), 'width': str(wire_width(width)),
                    'skip': skip, 'ils': ils}
            tags = [ws]
            if impl.startswith('err:'):
                tags.append(impl)
            elif impl.endswith('true)'):
                tags.append('preserved-line-break')
            sec.add(sx.line('stb', enc(text), ws, wb, ow, fs, wire_width(width), skip, ils), impl, meta=meta,
                    nontrivial=skip > 0 or ' none ' not in impl, tags=tags)

    def _sec_whitespace(self, run):
        sec = run.section(
            'skip-first-whitespace',
            'real skip_first_whitespace on LineBox[TextBox] at every kind of offset vs model; non-trivial = the '
            'text has a space at the offset')
        rng = run.rng
        for i in range(run.n(3000, 30000)):
            ws = rng.choice(WS)
            text = gen_adversarial_text(rng) if rng.random() < 0.6 else gen_paragraph(rng, ws, max_words=8)
            r = rng.random()
            index = 0 if r < 0.25 else (len(text) if r < 0.35 else rng.randint(0, len(text)))
            impl = real_sfw(text, ws, index)
            sec.add(sx.line('sfw', enc(text), ws, index), impl, meta={'text': text, 'ws': ws, 'index': index},
                    nontrivial=index < len(text) and text[index] == ' ', tags=[ws, impl if impl == 'continue' else 'index'])
        sec2 = run.section(
            'remove-last-whitespace',
            'real split_text_box + remove_last_whitespace on the resulting line vs model (text, width, removed width); '
            'non-trivial = something is removed')
        for i in range(run.n(3000, 30000)):
            ws, wb, ow = gen_keywords(rng)
            adversarial = rng.random() < 0.5
            if adversarial:
                ws = rng.choice(WS)
                text = gen_adversarial_text(rng)
            else:
                text = gen_paragraph(rng, ws, max_words=12)
            fs = gen_font_size(rng)
            width = gen_width(rng, fs, adversarial)
            skip = 0 if rng.random() < 0.5 else rng.randint(0, len(text))
            impl = real_rlw(text, ws, wb, ow, fs, width, skip)
            sec2.add(sx.line('rlw', enc(text), ws, wb, ow, fs, wire_width(width), skip), impl,
                     meta={'text': text, 'ws': ws, 'wb': wb, 'ow': ow, 'fs': str(fs), 'width': str(wire_width(width)),
                           'skip': skip},
                     nontrivial=not impl.endswith(' 0)') and impl != 'none', tags=[ws])

    def _sec_align(self, run):
        sec = run.section(
            'text-align',
            'real text_align / justify_line / add_word_spacing on real LineBox / InlineBox / TextBox trees carrying '
            'Fractions, all text-align-all x text-align-last x direction x white-space; non-trivial = the line is '
            'narrower than the available width')
        rng = run.rng
        for i in range(run.n(6000, 80000)):
            kids, total = gen_tree(rng, 2, Fraction(rng.randint(0, 40), 4))
            width = total if rng.random() < 0.7 else Fraction(rng.randint(0, 400), rng.choice([1, 2, 3, 4]))
            r = rng.random()
            if r < 0.15:
                avail = width
            elif r < 0.3:
                avail = width - Fraction(rng.randint(0, 40), 4)
            else:
                avail = width + Fraction(rng.randint(1, 400), rng.choice([1, 2, 3, 4, 7]))
            spec = {'all': rng.choice(ALIGN_ALL), 'last': rng.choice(ALIGN_LAST), 'ws': rng.choice(WS),
                    'rtl': rng.random() < 0.4, 'lastline': rng.random() < 0.4, 'x': Fraction(rng.randint(0, 80), 4),
                    'width': width, 'avail': avail, 'kids': kids}
            impl = real_align(spec)
            align = spec['last'] if spec['lastline'] and spec['last'] != 'auto' else spec['all']
            sec.add(align_line(spec), impl, meta={'spec': spec_json(spec)}, nontrivial=width < avail,
                    tags=[align, 'rtl' if spec['rtl'] else 'ltr'] +
                    (['atom-holding-spaces'] if atom_spaces(kids) else []))

    def _sec_para(self, run):
        sec = run.section(
            'paragraph-doc',
            'rendered paragraphs (internal pipeline: text box before layout, LineBox/TextBox after): per line x, y, '
            'width, height, text, text x, text width vs model iter_line_boxes; every white-space / word-break / '
            'overflow-wrap / text-align(-last) / direction, text-indent, line-height; non-trivial = at least two lines')
        rng = run.rng
        n_docs = run.n(60, 1500)
        per_doc = 14
        rounding = skipped = 0
        for _ in range(n_docs):
            specs = [gen_para_spec(rng) for _ in range(per_doc)]
            for spec, text, block, canon, r in render_paragraphs(specs):
                rounding += r
                if text is None or canon is None:
                    skipped += 1
                    continue
                impl = canon if isinstance(canon, str) else sx.dumps(canon)
                cbx, y0, width = block.content_box_x(), block.content_box_y(), block.width
                align = spec['all']
                tags = [spec['ws'], f'align-{align}', 'rtl' if spec['rtl'] else 'ltr',
                        impl if isinstance(canon, str) else f'lines{min(len(canon), 6)}']
                if spec['indent']:
                    tags.append('indent')
                sec.add(para_line(spec, text, cbx, y0, width), impl,
                        meta={'spec': spec_json(spec), 'text': text, 'cbx': str(Fraction(cbx)), 'y': str(Fraction(y0)),
                              'width': str(Fraction(width)), 'html': para_html(spec)},
                        nontrivial=not isinstance(canon, str) and len(canon) >= 2, tags=tags)
        run.extra['float_rounding'] = rounding
        run.extra['paragraphs_skipped'] = skipped

    def _sec_floats(self, run):
        sec = run.section(
            'float-lines',
            'rendered paragraphs after 1-3 left / right floats: per line x, y, width, height, text vs the model of '
            'get_next_linebox with excluded shapes (min-content width of the first line, avoid_collisions twice, '
            'text_align in the width left); non-trivial = some line is beside a float')
        rng = run.rng
        for _ in range(run.n(300, 5000)):
            spec, html = gen_float_doc(rng)
            rendered = render_float_doc(spec, html)
            if rendered is None:
                continue
            proto, impl, shapes, geometry = rendered
            beside, tags = False, []
            if geometry is not None:
                bottom = None
                for lx, ly, lw, lh, child in canon_from_wire(impl):
                    lx, ly, lw, lh = Fraction(lx), Fraction(ly), Fraction(lw), Fraction(lh)
                    next_to = [s for s in shapes if s[1] < ly + lh and ly < s[1] + s[3]]
                    beside = beside or bool(next_to)
                    if bottom is not None and ly > bottom:
                        tags.append('line-moved-down')
                    if child == 'none':
                        tags.append('phantom-line' if lh == 0 else 'empty-line')
                    elif next_to and lx > geometry[0]:
                        tags.append('starts-after-left-float')
                    if next_to and lw > geometry[2] - sum(s[2] for s in next_to):
                        tags.append('wider-than-gap')
                    bottom = ly + lh
            else:
                tags.append('layout-error')
            if spec['indent'] != 0:
                tags.append('text-indent')
            sec.add(proto, impl, meta={'html': html, 'float': True, 'spec': spec_json(spec)}, nontrivial=beside,
                    tags=[spec['ws'], f'floats{len(shapes)}', 'beside' if beside else 'below'] + sorted(set(tags)))
        expected = ['beside', 'below', 'line-moved-down', 'empty-line', 'phantom-line', 'starts-after-left-float',
                    'wider-than-gap', 'text-indent', 'layout-error']
        run.extra['float_lines_cases_never_hit'] = [t for t in expected if not sec.tags.get(t)]

    def _sec_tall(self, run):
        sec = run.section(
            'float-tall-lines',
            'a fixed family: a block of line-height 10px whose text is in a span of line-height 30px, after two floats '
            'of different widths at different heights: every line is higher than the strut it is first placed with, so '
            'get_next_linebox lays it out again where avoid_collisions moves the real line, in the width available '
            'there (Model/LineFloatsInline.tallLoop, the `while True` loop); per line and per box x, y, width, text; '
            'non-trivial = some line is beside a float')
        for spec in tall_family():
            rendered = render_tall_doc(spec)
            if rendered is None:
                continue
            proto, impl, shapes, geometry, nodes = rendered
            beside = False
            if geometry is not None:
                for lx, ly, lw, lh, frags in sx.loads_line(impl)[0]:
                    ly, lh = Fraction(ly), Fraction(lh)
                    beside = beside or any(s_[1] < ly + lh and ly < s_[1] + s_[3] for s_ in shapes)
            sec.add(proto, impl, meta={'html': tall_html(spec), 'float_tall': True, 'spec': float_inline_json(spec)},
                    nontrivial=beside, tags=[spec['side'], f'align-{spec["all"]}'])

    def _sec_source(self, run):
        sec_nodes = run.section(
            'source-nodes',
            'from the source to the line box: the real children of the line box of built paragraphs (texts after '
            'process_whitespace, emptied text boxes removed, trailing_collapsible_space flags, leading collapsed space '
            'dropped) vs the model of process_whitespace / inline_in_block fed with the source text (raw texts with '
            'runs of spaces, newlines, white-space-only elements, nesting), every white-space value; non-trivial = a '
            'box carries trailing_collapsible_space or a text box was emptied')
        sec_doc = run.section(
            'source-doc',
            'the same paragraphs rendered: per line and per box x, width, text vs the model fed with the source '
            '(white-space processing + collapsed-space break opportunities + split_inline_box); non-trivial = at '
            'least two lines')
        rng = run.rng
        for _ in range(run.n(60, 900)):
            specs = [gen_source_spec(rng) for _ in range(12)]
            for spec, nodes, block, canon in render_source_paragraphs(specs):
                if nodes is None:
                    continue          # no line box at all (nothing but collapsed white space)
                src = src_wire(spec['src'])
                impl_nodes = sx.dumps(nodes)
                flagged = '(f ' in impl_nodes
                html = source_para_html(spec)
                sec_nodes.add(sx.line('snodes', src, spec['ws']), impl_nodes,
                              meta={'html': html, 'inline': True, 'ws': spec['ws'], 'source': True},
                              nontrivial=flagged or impl_nodes.count('(t ') < sx.dumps(src).count('(t '),
                              tags=[spec['ws']] + (['trailing-collapsible-space'] if flagged else []))
                cbx, y0, width = block.content_box_x(), block.content_box_y(), block.width
                failed = isinstance(canon, str)
                sec_doc.add(sx.line('spara', src, spec['ws'], 'normal', 'normal', spec['fs'], spec['fs'], Fraction(cbx),
                                    Fraction(width), Fraction(0), spec['all'], spec['last'], Fraction(y0)),
                            canon if failed else sx.dumps(canon),
                            meta={'nodes': impl_nodes, 'width': str(Fraction(width)), 'html': html, 'inline': True,
                                  'ws': spec['ws'], 'place': [str(Fraction(cbx)), spec['all'], spec['last']]},
                            nontrivial=not failed and len(canon) >= 2,
                            tags=[spec['ws'], canon if failed else f'lines{min(len(canon), 6)}'] +
                            (['trailing-collapsible-space'] if flagged else []))

    def _sec_float_inline(self, run):
        sec = run.section(
            'float-inline-lines',
            'rendered paragraphs of nested inline boxes (every white-space value, glued boundaries, spacing) after 1-3 '
            'left / right floats: per line and per box x, y, width, text vs the model of get_next_linebox with excluded '
            'shapes composed of inline_min_content_width(skip_stack, first_line) + avoid_collisions + split_inline_box '
            '(Model/LineFloatsInline); non-trivial = some line is beside a float')
        rng = run.rng
        for _ in range(run.n(250, 4000)):
            spec, html = gen_float_inline_doc(rng)
            rendered = render_float_inline_doc(spec, html)
            if rendered is None:
                continue
            proto, impl, shapes, geometry, nodes = rendered
            beside, tags = False, []
            if geometry is not None:
                lines = sx.loads_line(impl)[0]
                for lx, ly, lw, lh, frags in lines:
                    ly, lh = Fraction(ly), Fraction(lh)
                    if any(s[1] < ly + lh and ly < s[1] + s[3] for s in shapes):
                        beside = True
                tags.append(f'lines{min(len(lines), 6)}')
                # a line beside a float that resumes inside a nested inline box: the resume position goes down
                # through inline_line_widths
                if len(lines) > 1 and any(n[0] == 'b' for n in sx.loads_line(sx.dumps(nodes))[0]):
                    tags.append('resumes-in-nested-box')
            else:
                tags.append('layout-error')
            if spec['indent'] != 0:
                tags.append('text-indent')
            sec.add(proto, impl, meta={'html': html, 'float_inline': True, 'spec': float_inline_json(spec),
                                       'inline_html': inline_para_html(dict(spec, ml=Fraction(0)))},
                    nontrivial=beside, tags=[spec['ws'], 'beside' if beside else 'below'] + tags)

    def _sec_preferred(self, run):
        from weasyprint.layout.preferred import (
            inline_max_content_width, inline_min_content_width, trailing_whitespace_size)
        sec = run.section(
            'preferred-widths',
            'real inline_min_content_width (outer, skip_stack, first_line, is_line_start) / inline_max_content_width / '
            'trailing_whitespace_size on the real line boxes of built (not laid out) paragraphs of text and nested '
            'spans, every white-space / word-break / overflow-wrap, text-indent; non-trivial = more than one word')
        rng = run.rng
        for _ in range(run.n(60, 900)):
            batch = [gen_preferred_html(rng) for _ in range(10)]
            context, lines = ic.pipeline_lineboxes(f'<style>{PAGE_CSS}</style>' + ''.join(h for h, _ in batch), enc)
            for (html, (ws, wb, ow, fs, indent)), (line, nodes) in zip(batch, lines):
                if line is None:
                    continue
                words = len(''.join(frag_text_node(sx.loads_line(sx.dumps(nodes))[0][i]) for i in range(len(nodes))).split())
                style_args = (ws, wb, ow, fs)
                for _ in range(3):
                    outer, first_line, ils = rng.random() < 0.7, rng.random() < 0.4, rng.random() < 0.5
                    skip, skip_wire = gen_skip(rng, sx.loads_line(sx.dumps(nodes))[0])
                    impl = docs.outcome(lambda: sx.dumps(Fraction(inline_min_content_width(
                        context, line, outer, skip, first_line, ils))))
                    sec.add(sx.line('pmin', nodes, *style_args, indent, outer, first_line, ils, skip_wire), impl,
                            meta={'html': html, 'call': 'min', 'outer': outer, 'first_line': first_line, 'ils': ils,
                                  'skip': str(skip)},
                            nontrivial=words > 1, tags=['min', ws, 'first-line' if first_line else 'all-lines',
                                                        'skip' if skip else 'start'])
                outer, ils = rng.random() < 0.7, rng.random() < 0.5
                impl = docs.outcome(lambda: sx.dumps(Fraction(inline_max_content_width(context, line, outer, ils))))
                sec.add(sx.line('pmax', nodes, *style_args, indent, outer, ils), impl,
                        meta={'html': html, 'call': 'max', 'outer': outer, 'ils': ils}, nontrivial=words > 1,
                        tags=['max', ws])
                impl = docs.outcome(lambda: sx.dumps(Fraction(trailing_whitespace_size(context, line))))
                sec.add(sx.line('ptws', nodes, *style_args), impl, meta={'html': html, 'call': 'tws'},
                        nontrivial=impl != '0', tags=['trailing-whitespace', ws])

    def _sec_vertical(self, run):
        sec = run.section(
            'line-vertical',
            'rendered lines of nested spans with every font-size / line-height / vertical-align (keywords, lengths, '
            'percentages, sub, super) / vertical padding and border: position_y, height, margins, baseline of every '
            'box and of the line vs the model of strut_layout / line_box_verticality / inline_box_verticality / '
            'translate_subtree; non-trivial = at least one inline box')
        rng = run.rng
        for _ in range(run.n(50, 900)):
            paragraphs = [gen_vertical_html(rng) for _ in range(8)]
            for html, index, proto, impl in render_vertical_lines(paragraphs):
                if impl.startswith('err:'):
                    sec.add(proto, impl, meta={'html': html, 'line': index, 'vertical': True}, tags=[impl])
                    continue
                parsed = sx.loads_line(proto)
                nodes = parsed[2]
                aligns = sorted({a for a in vertical_aligns(nodes)})
                sec.add(proto, impl, meta={'html': html, 'line': index, 'vertical': True},
                        nontrivial=any(n[0] == 'b' for n in nodes),
                        tags=[f'va-{a}' for a in aligns] + ['top-bottom-nested' if top_bottom_nested(nodes) else 'plain'])

    def _sec_hyphen(self, run):
        sec = run.section(
            'hyphenation',
            'real split_first_line with hyphens:auto, lang=en (real pyphen through the shared context.dictionaries '
            'cache) and every hyphenate-limit-chars / hyphenate-limit-zone / hyphenate-character vs the model of step 4 '
            'fed with pyphen\'s own answer for the element\'s limits; non-trivial = the line ends with a hyphen')
        rng = run.rng
        # the calls share one context, i.e. one `context.dictionaries` cache, like the paragraphs of a document;
        # the cases that created a cache entry are kept so that a replay can rebuild the cache first
        self._hyphen_creators = []
        cache = ic.context().dictionaries
        for i in range(run.n(5000, 80000)):
            case = gen_hyphen_case(rng)
            known = len(cache)
            n_creators = len(self._hyphen_creators)
            impl = real_sfl_hyphen(case)
            if len(cache) != known:
                self._hyphen_creators.append(hyphen_json(case))
            hyphenated = not impl.startswith('err:') and dec(sx.loads_line(impl)[0][3]).endswith(case['hchar'])
            sec.add(hyphen_line(case), impl, meta={'hyphen': hyphen_json(case), 'n_creators': n_creators},
                    nontrivial=hyphenated,
                    tags=['hyphenated' if hyphenated else 'plain', case['ws'], 'limits-%d-%d-%d' % tuple(case['limits'])])

    def _sec_inline(self, run):
        sec = run.section(
            'inline-doc',
            'rendered paragraphs of nested inline boxes (text, spans with margin / border / padding on both sides, '
            'depth <= 3): per line and per box x, width, used left/right spacing, text vs the model of '
            'split_inline_box / _break_waiting_children / skip_first_whitespace / remove_last_whitespace; '
            'non-trivial = at least two lines')
        rng = run.rng
        n_docs = run.n(45, 700)
        per_doc = 12
        skipped = 0
        for _ in range(n_docs):
            specs = [gen_inline_spec(rng, safe=rng.random() < 0.6) for _ in range(per_doc)]
            for spec, nodes, block, canon in render_inline_paragraphs(specs):
                if nodes is None:
                    skipped += 1
                    continue
                cbx, y0, width = block.content_box_x(), block.content_box_y(), block.width
                failed = isinstance(canon, str)
                sec.add(inline_line(spec, nodes, cbx, y0, width), canon if failed else sx.dumps(canon),
                        meta={'nodes': sx.dumps(nodes), 'width': str(Fraction(width)), 'html': inline_para_html(spec),
                              'inline': True, 'ws': spec['ws'],
                              'place': [str(Fraction(cbx)), spec['all'], spec.get('last', 'auto')]},
                        nontrivial=not failed and len(canon) >= 2,
                        tags=['safe' if nodes_safe(nodes) else 'general', canon if failed else f'lines{min(len(canon), 6)}',
                              f'align-{spec["all"]}', spec['ws']] + (['glued'] if has_glue(nodes) else []) +
                        (['greedy-judged'] if greedy_domain(nodes) else []))
        run.extra['inline_paragraphs_skipped'] = skipped

    # ----- judge / search / replay

    def judge(self, d):
        meta = d.get('meta') or {}
        if d['section'] in ('regressions', 'span-white-space') and meta.get('as'):
            d = dict(d, section=meta['as'])
        if d['section'] == 'split-first-line':
            v = sfl_violation(meta, d['impl'])
            return v[0] if v and v[1] is None else None
        if d['section'] == 'split-text-box':
            if d['impl'].startswith('err:') and d['impl'] != d['model']:
                return f'split_text_box raised {d["impl"][4:]} on {meta}'
            return None
        if d['section'] == 'text-align':
            return align_violation(spec_unjson(meta['spec']), d['impl'])
        if d['section'] == 'float-lines':
            if d['impl'].startswith('err:'):
                return f'layout raised {d["impl"][4:]} on {meta.get("html")}'
            parsed = sx.loads_line(d['line'])
            shapes = [[Fraction(a), Fraction(b), Fraction(c), Fraction(e), side] for a, b, c, e, side in parsed[1]]
            geometry = (Fraction(parsed[8]), Fraction(parsed[13]), Fraction(parsed[9]))
            v = float_violation(shapes, geometry, canon_from_wire(d['impl']), parsed[3], parsed[10], parsed[11:13])
            return unexplained(v, lambda: float_violation(shapes, geometry, canon_from_wire(d['model']), parsed[3],
                                                          parsed[10], parsed[11:13]))
        if d['section'] == 'float-tall-lines':
            if d['impl'].startswith('err:'):
                return f'layout raised {d["impl"][4:]} on {meta.get("html")}'
            parsed = sx.loads_line(d['line'])
            shapes = [[Fraction(a), Fraction(b), Fraction(c), Fraction(e), side] for a, b, c, e, side in parsed[1]]
            geometry = (Fraction(parsed[9]), Fraction(parsed[14]), Fraction(parsed[10]))
            fs = Fraction(parsed[6])
            return (beyond_model(float_inline_violation(shapes, geometry, d['impl'], meta['spec']),
                                 lambda: float_inline_violation(shapes, geometry, d['model'], meta['spec'])) or
                    beyond_model(underfilled_violation(shapes, geometry, d['impl'], fs),
                                 lambda: underfilled_violation(shapes, geometry, d['model'], fs)))
        if d['section'] == 'float-inline-lines':
            if d['impl'].startswith('err:'):
                return f'layout raised {d["impl"][4:]} on {meta.get("html")}'
            parsed = sx.loads_line(d['line'])
            shapes = [[Fraction(a), Fraction(b), Fraction(c), Fraction(e), side] for a, b, c, e, side in parsed[1]]
            geometry = (Fraction(parsed[8]), Fraction(parsed[13]), Fraction(parsed[9]))
            spec = meta['spec']
            return beyond_model(float_inline_violation(shapes, geometry, d['impl'], spec),
                                lambda: float_inline_violation(shapes, geometry, d['model'], spec))
        if d['section'] == 'line-vertical':
            if d['impl'].startswith('err:'):
                return f'layout raised {d["impl"][4:]} on {meta.get("html")}'
            parsed = sx.loads_line(d['line'])
            v = vertical_violation(parsed[1], parsed[2], d['impl'])
            return unexplained(v, lambda: vertical_violation(parsed[1], parsed[2], d['model']))
        if d['section'] == 'hyphenation':
            what = hyphen_violation(hyphen_unjson(meta['hyphen']), d['impl'])
            if what:
                # the calls laid out before this one in the same context (they filled context.dictionaries)
                meta['priors'] = list(getattr(self, '_hyphen_creators', [])[:meta.get('n_creators', 0)])
                what += f' (after {len(meta["priors"])} earlier calls in the same layout context)'
            return what
        if d['section'] == 'source-nodes':
            # the clauses proved as processed_text_no_newline / processed_text_no_double_space, on the real tree
            ws = meta.get('ws', 'normal')
            texts = [dec(a) for a in d['impl'].replace('(', ' ').replace(')', ' ').split() if a.startswith('t:')]
            if ws in ('normal', 'nowrap') and any('\n' in t for t in texts):
                return (f'white-space:{ws}: a line break of the source survives white-space processing as a preserved '
                        f'line break in {[t for t in texts if chr(10) in t][:3]!r}')
            if ws in COLLAPSE and any('  ' in t for t in texts):
                return f'white-space:{ws}: two consecutive spaces survive white-space processing in {texts[:4]!r}'
            return None
        if d['section'] in ('inline-doc', 'source-doc'):
            if d['impl'].startswith('err:'):
                return f'layout raised {d["impl"][4:]}'
            place = meta.get('place')
            vs = inline_violations(sx.loads_line(meta['nodes'])[0], Fraction(meta['width']),
                                   inline_canon_from_wire(d['impl']), meta.get('ws', 'normal'), place)
            return unexplained_all(vs, lambda: inline_violations(
                sx.loads_line(meta['nodes'])[0], Fraction(meta['width']), inline_canon_from_wire(d['model']),
                meta.get('ws', 'normal'), place))
        if d['section'] == 'paragraph-doc':
            spec = spec_unjson(meta['spec'])
            if d['impl'].startswith('err:'):
                return f'layout raised {d["impl"][4:]}'
            canon = canon_from_wire(d['impl'])
            v = para_violation(spec, meta['text'], Fraction(meta['cbx']), Fraction(meta['y']), Fraction(meta['width']),
                               canon)
            return v[0] if v and v[1] is None else None
        return None

    def search(self, run, failures):
        """Rendered paragraphs (and direct calls) judged by the reference first-fit breaker."""
        docs.quiet()
        rng = run.rng
        found, seen = [], set()
        deadline = time.time() + (240 if run.thorough else 45)
        # inputs of the disagreements first, at document level
        specs = []
        for f in failures:
            if f['kind'] != 'correspondence' or not isinstance(f['detail'].get('meta'), dict):
                continue
            meta = f['detail']['meta']
            if 'spec' in meta and 'text' in meta:
                specs.append(spec_unjson(meta['spec']))
            elif 'text' in meta and 'ws' in meta and meta.get('width') not in (None, 'none', 'inf'):
                text = meta['text'][meta.get('skip', 0):]
                try:
                    width = Fraction(meta['width'])
                except (ValueError, ZeroDivisionError):
                    continue
                if width < 0 or width > 4000 or Fraction(meta['fs']) <= 0 or not text.strip(' \n'):
                    continue
                specs.append({'text': text, 'ws': meta['ws'], 'wb': meta['wb'], 'ow': meta['ow'],
                              'fs': Fraction(meta['fs']), 'width': width, 'lh': 'normal', 'indent': Fraction(0),
                              'all': 'start', 'last': 'auto', 'rtl': False, 'ml': Fraction(0)})
            if len(specs) >= 60:
                break

        def try_specs(batch):
            try:
                rendered = render_paragraphs(batch)
            except Exception as exc:  # noqa: BLE001
                run.search_stats['evaluations'] += 1
                return [{'what': f'render raised {type(exc).__name__}: {exc}',
                         'input': {'html': ''.join(para_html(s) for s in batch)}, 'signature': 'render-error'}]
            out = []
            for spec, text, block, canon, _ in rendered:
                run.search_stats['evaluations'] += 1
                if text is None:
                    continue
                v = para_violation(spec, text, block.content_box_x(), block.content_box_y(), block.width, canon)
                if v:
                    out.append({'what': v[0], 'finding_id': v[1],
                                'input': {'html': para_html(spec), 'spec': spec_json(spec), 'text': text},
                                'signature': f'doc:{spec["ws"]}/{spec["wb"]}/{spec["ow"]}/{v[0][:40]}'})
            return out

        for i in range(0, len(specs), 10):
            for v in try_specs(specs[i:i + 10]):
                if v['signature'] not in seen:
                    seen.add(v['signature'])
                    found.append(v)
        def try_inline(batch):
            out = []
            try:
                rendered = render_inline_paragraphs(batch)
            except Exception as exc:  # noqa: BLE001
                return [{'what': f'render raised {type(exc).__name__}: {exc}',
                         'input': {'html': ''.join(inline_para_html(s) for s in batch), 'inline': True},
                         'signature': 'inline-render-error'}]
            for spec, nodes, block, canon in rendered:
                run.search_stats['evaluations'] += 1
                if nodes is None:
                    continue
                if not isinstance(canon, str):
                    canon = sx.loads_line(sx.dumps(canon))[0]
                place = (Fraction(block.content_box_x()), spec['all'], spec.get('last', 'auto'))
                vs = inline_violations(sx.loads_line(sx.dumps(nodes))[0], Fraction(block.width), canon,
                                       spec.get('ws', 'normal'), place)
                v = None
                if vs:
                    # a known-finding class is excused only when the model of the unchanged code shows the same
                    proto = inline_line(spec, nodes, block.content_box_x(), block.content_box_y(), block.width)
                    what = unexplained_all(vs, lambda: inline_violations(
                        sx.loads_line(sx.dumps(nodes))[0], Fraction(block.width),
                        inline_canon_from_wire(self.model_output(proto)), spec.get('ws', 'normal'), place))
                    v = (what, None) if what else vs[0]
                if v:
                    out.append({'what': v[0], 'finding_id': v[1],
                                'input': {'html': inline_para_html(spec), 'inline': True, 'nodes': sx.dumps(nodes),
                                          'ws': spec.get('ws', 'normal')},
                                'signature': f'inline:{v[0][:40]}'})
            return out

        # nested inline boxes: the disagreeing paragraphs themselves, in the neighbouring widths
        inline_seeds = []
        for f in failures:
            meta = f['detail'].get('meta') if f['kind'] == 'correspondence' else None
            if isinstance(meta, dict) and (meta.get('inline') or meta.get('inline_html')):
                inline_seeds.append(meta.get('inline_html') or meta['html'])
        inline_broken = bool(inline_seeds) or any(
            f['kind'] == 'correspondence' and f.get('name') in ('inline-doc', 'float-inline-lines', 'preferred-widths',
                                                                'source-nodes', 'source-doc')
            for f in failures)
        for html in inline_seeds[:12]:
            if time.time() > deadline or len([v for v in found if not v.get('finding_id')]) >= 3:
                break
            for variant in inline_width_variants(html):
                run.search_stats['evaluations'] += 1
                try:
                    vs, model_violations = inline_replay({'html': variant}, self.model_output)
                except Exception:  # noqa: BLE001
                    continue
                what = unexplained_all(vs, model_violations)
                if what:
                    sig = f'inline:{what[:40]}'
                    if sig not in seen:
                        seen.add(sig)
                        found.append({'what': what, 'input': {'html': variant, 'inline': True}, 'signature': sig})
                    break

        # function level on the disagreeing inputs, then fresh batches
        while time.time() < deadline and len([v for v in found if not v.get('finding_id')]) < 3:
            for _ in range(5 if inline_broken else 1):
                for v in try_inline([gen_inline_spec(rng, safe=True) for _ in range(12)]):
                    if v['signature'] not in seen:
                        seen.add(v['signature'])
                        found.append(v)
            batch = [gen_para_spec(rng, canon=True) for _ in range(12)]
            for v in try_specs(batch):
                if v['signature'] not in seen:
                    seen.add(v['signature'])
                    found.append(v)
            for _ in range(300):
                ws, wb, ow = gen_keywords(rng)
                text = gen_paragraph(rng, ws, max_words=40, canon=True)
                fs = gen_font_size(rng)
                width = gen_width(rng, fs)
                meta = {'text': text, 'ws': ws, 'wb': wb, 'ow': ow, 'fs': str(fs), 'width': str(wire_width(width)),
                        'ils': True, 'minimum': False}
                run.search_stats['evaluations'] += 1
                v = sfl_violation(meta, real_sfl(text, ws, wb, ow, fs, width, True, False))
                if v:
                    sig = f'sfl:{ws}/{wb}/{ow}/{v[0][:30]}'
                    if sig not in seen:
                        seen.add(sig)
                        found.append({'what': v[0], 'finding_id': v[1], 'input': {'meta': meta}, 'signature': sig})
        found.sort(key=lambda v: (v.get('finding_id') is not None, len(str(v['input']))))
        return found[:6]

    def model_output(self, proto):
        from vlib import lean
        return lean.run_driver(self.driver, [proto])[0]

    def finding_replays(self):
        return {FINDING_HYPHEN: finding_break_all_hyphen,
                FINDING_START_SPACING: finding_start_spacing, FINDING_END_SPACING: finding_end_spacing,
                FINDING_END_RESERVED: finding_end_reserved, FINDING_STALE_WIDTH: finding_stale_width,
                FINDING_FLOAT_INDENT: finding_float_indent, FINDING_BOUNDARY: finding_boundary,
                FINDING_SOFT_HYPHEN: finding_soft_hyphen, FINDING_FLOAT_BAND: finding_float_band}

    def replay(self, data):
        inp = data.get('input', {})
        docs.quiet()
        if 'spec' in inp:
            spec = spec_unjson(inp['spec'])
            (spec, text, block, canon, _), = render_paragraphs([spec])
            if text is None:
                return None
            v = para_violation(spec, text, block.content_box_x(), block.content_box_y(), block.width, canon)
            return v[0] if v else None
        meta = inp.get('meta') or {}
        section = inp.get('section')
        if meta.get('span_ws'):
            spec = spec_unjson(meta['spec'])
            (spec, block, canon), = render_span_ws([spec])
            canon = canon_from_wire(sx.dumps(canon))
            v = para_violation(spec, spec['text'], block.content_box_x(), block.content_box_y(), block.width, canon)
            return v[0] if v else None
        if meta.get('float_tall'):
            spec = dict(float_inline_unjson(meta['spec']), strut=Fraction(10), lineh=Fraction(30))
            rendered = render_float_inline_doc(spec, meta['html'])
            if rendered is None or rendered[3] is None:
                return None
            _, impl, shapes, geometry, nodes = rendered
            proto = sx.line('ftpara', shapes, nodes, spec['ws'], 'normal', 'normal', spec['fs'], spec['strut'],
                            spec['lineh'], geometry[0], geometry[2], spec['indent'], spec['all'], spec['last'], geometry[1])
            return (beyond_model(float_inline_violation(shapes, geometry, impl, spec),
                                 lambda: float_inline_violation(shapes, geometry, self.model_output(proto), spec)) or
                    beyond_model(underfilled_violation(shapes, geometry, impl, spec['fs']),
                                 lambda: underfilled_violation(shapes, geometry, self.model_output(proto), spec['fs'])))
        if meta.get('float_inline'):
            spec = float_inline_unjson(meta['spec'])
            rendered = render_float_inline_doc(spec, meta['html'])
            if rendered is None:
                return None
            proto, impl, shapes, geometry, _ = rendered
            return beyond_model(float_inline_violation(shapes, geometry, impl, spec),
                                lambda: float_inline_violation(shapes, geometry, self.model_output(proto), spec))
        if meta.get('float'):
            rendered = render_float_doc(spec_unjson(meta['spec']), meta['html'])
            if rendered is None:
                return None
            proto, impl, shapes, geometry = rendered
            v = float_violation(shapes, geometry, impl if impl.startswith('err:') else canon_from_wire(impl),
                                meta['spec']['ws'], meta['spec']['indent'], (meta['spec']['all'], meta['spec']['last']))
            return unexplained(v, lambda: float_violation(
                shapes, geometry, canon_from_wire(self.model_output(proto)), meta['spec']['ws'],
                meta['spec']['indent'], (meta['spec']['all'], meta['spec']['last'])))
        if meta.get('vertical') or inp.get('vertical'):
            source = meta if meta.get('vertical') else inp
            for html, index, proto, impl in render_vertical_lines([source['html']]):
                if index == source.get('line', index):
                    parsed = sx.loads_line(proto)
                    v = vertical_violation(parsed[1], parsed[2], impl)
                    what = unexplained(v, lambda: vertical_violation(parsed[1], parsed[2], self.model_output(proto)))
                    if what:
                        return what
            return None
        if 'hyphen' in meta:
            for prior in meta.get('priors', []):
                real_sfl_hyphen(hyphen_unjson(prior))
            case = hyphen_unjson(meta['hyphen'])
            return hyphen_violation(case, real_sfl_hyphen(case))
        if meta.get('inline') or inp.get('inline'):
            vs, model_violations = inline_replay(meta if meta.get('inline') else inp, self.model_output)
            return unexplained_all(vs, model_violations)
        if section == 'text-align' or ('spec' in meta and 'text' not in meta):
            spec = spec_unjson(meta['spec'])
            return align_violation(spec, real_align(spec))
        if 'spec' in meta:
            return self.replay({'input': {'spec': meta['spec']}})
        if 'text' in meta and 'ws' in meta and 'skip' in meta and 'ils' in meta:
            width = meta['width']
            width = None if width == 'none' else (math.inf if width == 'inf' else Fraction(width))
            impl = real_stb(meta['text'], meta['ws'], meta['wb'], meta['ow'], Fraction(meta['fs']), width,
                            meta['skip'], meta['ils'])
            return f'split_text_box raised {impl[4:]}' if impl.startswith('err:') and impl != inp.get('model') else None
        if 'text' in meta and 'ws' in meta and 'skip' not in meta and 'wb' in meta:
            width = meta['width']
            width = None if width == 'none' else (math.inf if width == 'inf' else Fraction(width))
            impl = real_sfl(meta['text'], meta['ws'], meta['wb'], meta['ow'], Fraction(meta['fs']), width,
                            meta.get('ils', True), meta.get('minimum', False))
            v = sfl_violation(meta, impl)
            return v[0] if v else None
        return None


def finding_break_all_hyphen():
    """`word-break: break-all` in 25px at font-size 10px: the first line holds 'a' although 'aa' fits."""
    spec = {'text': 'aaaaaaa', 'ws': 'normal', 'wb': 'break-all', 'ow': 'normal', 'fs': Fraction(10),
            'width': Fraction(25), 'lh': 'normal', 'indent': Fraction(0), 'all': 'start', 'last': 'auto',
            'rtl': False, 'ml': Fraction(0)}
    (_, text, block, canon, _), = render_paragraphs([spec])
    return isinstance(canon, list) and len(canon) > 0 and canon[0][4] != 'none' and dec(canon[0][4][0]) == 'a'


def regression_negative_width_spec():
    """Repaired finding negative-width-unbroken (fix 3c674e2): `overflow-wrap: anywhere`, width 30px, text-indent 40px,
    'aa b cc' stayed on one line; a regression case of the `regressions` section, judged at full strength."""
    return {'text': 'aa b cc', 'ws': 'normal', 'wb': 'normal', 'ow': 'anywhere', 'fs': Fraction(10),
            'width': Fraction(30), 'lh': 'normal', 'indent': Fraction(40), 'all': 'start', 'last': 'auto',
            'rtl': False, 'ml': Fraction(0)}


def _inline_lines(width, body):
    html = f'<style>{PAGE_CSS}</style><p style="width:{width}px">{body}</p>'
    _, pages = ic.pipeline_trees(html, enc)
    (_, lines), = ic.laid_out_paragraphs(pages)
    return [(Fraction(line.width), ''.join(b.text for b in line.descendants() if hasattr(b, 'text'))) for line in lines]


def finding_start_spacing():
    """A span with padding-left:30px in a 90px block: the first line 'aaa bbb' is 100px wide."""
    lines = _inline_lines(90, '<span style="padding-left:30px">aaa bbb ccc</span>')
    return bool(lines) and lines[0][0] > 90 and ' ' in lines[0][1].strip()


def finding_end_spacing():
    """padding-right:30px on a span whose last child is the single word 'cc': one line of 110px in 80px."""
    lines = _inline_lines(80, '<span style="padding-right:30px">aa <b>bb </b>cc</span>')
    return bool(lines) and lines[0][0] > 80 and ' ' in lines[0][1].strip()


def finding_end_reserved():
    """padding-right:30px, 85px block, 'xxxx x x': the first line holds 'xxxx' although 'xxxx x' (60px) fits."""
    lines = _inline_lines(85, '<span style="padding-right:30px">xxxx x x</span>')
    return len(lines) >= 2 and lines[0][1].strip() == 'xxxx'


def finding_boundary():
    """<span><i>rr </i>anin</span>sss in 75px: one line of 100px, the opportunity after 'rr ' (a boundary between two
    children of the waiting span) is not used; the same text in one text box breaks after 'rr'."""
    lines = _inline_lines(75, '<span><i>rr </i>anin</span>sss')
    return len(lines) == 1 and lines[0][0] > 75 and ' ' in lines[0][1].strip()


def finding_stale_width():
    """<span>aaa bbb<span style="padding-left:10px"> ccc</span></span> in 70px: the outer span of the first line is
    70px wide and holds only 'aaa' (30px)."""
    html = (f'<style>{PAGE_CSS}</style><p style="width:70px"><span>aaa bbb<span style="padding-left:10px"> ccc</span>'
            '</span></p>')
    _, pages = ic.pipeline_trees(html, enc)
    (_, lines), = ic.laid_out_paragraphs(pages)
    span = lines[0].children[0]
    return Fraction(span.width) != sum(Fraction(c.margin_width()) for c in span.children)


# corpus inputs of repaired findings on nested inline boxes (fixes 889a2ec, fd6f32a)
REGRESSION_INLINE = ['preserved_line_break_flag_stale_after_rebreak', 'nowrap_breaks_after_collapsed_space']

REGRESSION_VERTICAL = [
    # repaired finding vertical-align-top-bottom-subtree (fix 5152049): 'dd' was left above the line box
    '<p style="font-size:10px;width:400px">aa <span style="vertical-align:top"><b style="font-size:20px">dd</b></span></p>',
    # the other half of the same repair: a bottom box nested in a top box was moved twice
    '<p style="font-size:10px;width:400px"><span style="vertical-align:top;line-height:30px">'
    '<i style="vertical-align:bottom">x</i></span> aa</p>',
    '<p style="font-size:10px;width:400px">aa <span style="vertical-align:bottom"><b style="font-size:20px">dd '
    '<i style="vertical-align:top;font-size:5px">e</i></b></span></p>',
]


def corpus_body(name):
    import json
    from vlib import paths
    return json.loads((paths.CORPUS / 'C09' / f'{name}.json').read_text())['body']


def finding_float_indent():
    """width 40px, a right float 14px wide and 40px high, text-indent -5px, 'aa bbb': the second line 'bbb' (30px) is
    put in the 26px gap beside the float because its min-content width is taken as 30 - 5."""
    html = corpus_body('float_gap_text_indent_later_lines')
    spec = {'ws': 'normal', 'wb': 'normal', 'ow': 'normal', 'fs': Fraction(10), 'lh': ('px', Fraction(10)), 'indent': Fraction(-5),
            'all': 'start', 'last': 'auto'}
    rendered = render_float_doc(spec, html)
    if rendered is None or rendered[3] is None:
        return False
    _, impl, shapes, geometry = rendered
    v = float_violation(shapes, geometry, canon_from_wire(impl), 'normal', -5)
    return bool(v) and v[1] == FINDING_FLOAT_INDENT and 'overlaps' in v[0]


def finding_float_band():
    """width 100px, font-size 10px, line-height 20px, text-align right, a right float 40x15px whose top is at y=12.5:
    the first line 'aaa' is right-aligned in the whole 100px and lies over the float."""
    html = corpus_body('float_align_width_not_of_line_box')
    spec = {'ws': 'normal', 'wb': 'normal', 'ow': 'normal', 'fs': Fraction(10), 'lh': ('px', Fraction(20)),
            'indent': Fraction(0), 'all': 'right', 'last': 'auto'}
    rendered = render_float_doc(spec, html)
    if rendered is None or rendered[3] is None:
        return False
    _, impl, shapes, geometry = rendered
    v = float_violation(shapes, geometry, canon_from_wire(impl), 'normal', 0, ('right', 'auto'))
    return bool(v) and v[1] == FINDING_FLOAT_BAND


def finding_soft_hyphen():
    """width 20px, font-size 10px, 'aaa bbb ccc&shy;ddd eee': the first line is 'aaa bbb ccc-' (120px) although it could
    break after 'aaa'."""
    _, pages = ic.pipeline(f'<style>{PAGE_CSS}</style>' + corpus_body('soft_hyphen_forces_overflowing_line'))
    (block, lines), = ic.laid_out_paragraphs(pages)
    first = ''.join(getattr(c, 'text', '') for c in lines[0].children)
    return ' ' in first.strip() and Fraction(lines[0].width) > Fraction(block.width)


def inline_width_variants(html):
    """The same `<p>` in the neighbouring block widths (half-em steps), nearest first."""
    import re
    m = re.search(r'(?<![-a-z])width:([0-9.]+)px', html)
    f = re.search(r'font-size:([0-9.]+)px', html)
    if not m:
        return [html]
    width = Fraction(m.group(1))
    step = Fraction(f.group(1)) / 2 if f else Fraction(5)
    out = [html]
    for k in range(1, 9):
        for sign in (1, -1):
            w = width + sign * k * step
            if w >= 0:
                out.append(html[:m.start(1)] + str(float(w)) + html[m.end(1):])
    return out


def inline_replay(meta, model_output):
    """-> (violation on the implementation, thunk giving the violation on the model's lines for the same input)"""
    html = f'<style>{PAGE_CSS}</style>' + meta['html']
    before, pages = ic.pipeline_trees(html, enc)
    (block, lines), = ic.laid_out_paragraphs(pages)
    if before[0] is None:
        return [], lambda: []
    canon = [[snap(line.position_x), snap(line.position_y), snap(line.width), snap(line.height),
              [ic.frag_wire(child, enc, snap) for child in line.children]] for line in lines]
    canon = sx.loads_line(sx.dumps(canon))[0]
    nodes = sx.loads_line(sx.dumps(before[0]))[0]
    ws = block.style['white_space']
    style = block.style
    place = None
    if style['direction'] == 'ltr' and style['text_align_all'] != 'justify' and style['text_align_last'] != 'justify':
        place = (Fraction(block.content_box_x()), style['text_align_all'], style['text_align_last'])

    def model_violation():
        spec = {'ws': ws, 'fs': Fraction(style['font_size']), 'all': style['text_align_all'],
                'last': style['text_align_last']}
        proto = inline_line(spec, before[0], block.content_box_x(), block.content_box_y(), block.width)
        return inline_violations(nodes, Fraction(block.width), inline_canon_from_wire(model_output(proto)), ws, place)
    return inline_violations(nodes, Fraction(block.width), canon, ws, place), model_violation


def hyphen_json(case):
    out = dict(case)
    out['fs'] = str(case['fs'])
    out['width'] = str(wire_width(case['width']))
    return out


def hyphen_unjson(case):
    out = dict(case)
    out['fs'] = Fraction(case['fs'])
    width = case['width']
    out['width'] = None if width == 'none' else (math.inf if width == 'inf' else Fraction(width))
    out['limits'] = tuple(case['limits'])
    out['zone'] = tuple(case['zone'])
    return out


def float_inline_json(spec):
    return {'ws': spec['ws'], 'fs': str(spec['fs']), 'indent': str(spec['indent']), 'all': spec['all'],
            'last': spec['last']}


def float_inline_unjson(spec):
    return dict(spec, fs=Fraction(spec['fs']), indent=Fraction(spec['indent']))


def spec_json(spec):
    def conv(v):
        if isinstance(v, Fraction):
            return str(v)
        if isinstance(v, (list, tuple)):
            return [conv(x) for x in v]
        return v
    return {k: conv(v) for k, v in spec.items()}


def spec_unjson(spec):
    out = dict(spec)
    for key in ('fs', 'width', 'indent', 'ml', 'avail', 'x'):
        if key in out and isinstance(out[key], str):
            out[key] = Fraction(out[key])
    if 'lh' in out and isinstance(out['lh'], (list, tuple)):
        out['lh'] = (out['lh'][0], Fraction(out['lh'][1]))
    if 'kids' in out:
        out['kids'] = [kid_unjson(k) for k in out['kids']]
    return out


def kid_unjson(k):
    if k[0] == 't':
        return ['t', Fraction(k[1]), Fraction(k[2]), k[3]]
    if k[0] == 'i':
        return ['i', Fraction(k[1]), Fraction(k[2]), bool(k[3]), [kid_unjson(x) for x in k[4]]]
    return ['a', Fraction(k[1]), bool(k[2]), [kid_unjson(x) for x in k[3]], k[4]]


def canon_from_wire(s):
    lines = sx.loads_line(s)[0]
    out = []
    for lx, ly, lw, lh, child in lines:
        c = 'none' if child == 'none' else [child[0], Fraction(child[1]), Fraction(child[2])]
        out.append([Fraction(lx), Fraction(ly), Fraction(lw), Fraction(lh), c])
    return out


PROP = C09()

MANIFEST = {
    'design_ref': 'DESIGN.md §4 C09',
    'technique': 'Lean 4 theorems over a hand model of split_first_line / first_line_metrics / create_layout / '
                 'split_text_box / skip_first_whitespace / remove_last_whitespace / text_align / justify_line / '
                 'add_word_spacing / iter_line_boxes around an abstract fixed-pitch Pango; the white-space tuples, the '
                 'heuristic ratio, the Pango width limit, the 1+1e-9 fudge and the accepted keywords are regenerated '
                 'from the source each run; executable correspondence with the real functions (real Pango, test font) '
                 'and with rendered paragraphs; round 2: hand models of the vertical placement inside a line '
                 '(strut_layout, inline_box_verticality, translate_subtree), of the inline preferred widths '
                 '(inline_line_widths and callers) and of get_next_linebox next to floats (on C11\'s avoid_collisions '
                 'model), each with an exact correspondence section; branch histogram of split_first_line from an '
                 'instrumented copy of the model (never-hit branches reported in the evidence)',
    'text': 'Proved for all inputs of the model: on canonical texts (words separated by single spaces) under a wrapping '
            'white-space with normal word-break / overflow-wrap, split_first_line returns exactly the first-fit line of '
            'the whole text (greedy), with or without its prefix heuristic (heuristic_transparent) — steps 1, 3 and 5 '
            'change nothing; the Pango line fits or is the first unbreakable unit, no later opportunity fits, breaks '
            'happen only at opportunities; for every text and style resume_index is never 0, the line is a prefix of '
            'the text, only spaces or one preserved line break are dropped between lines, offsets strictly increase and '
            'iter_line_boxes terminates; nowrap / pre break only at newlines; text-align offsets lie in [0, avail - '
            'width] with the exact start / end / center values, a justified line is exactly as wide as the available '
            'width through any nesting and direction, text_align cannot hit its assertion; line boxes are stacked '
            'without gap or overlap. Pango itself is an assumed component (abstract fixed-pitch model, tied by the '
            'correspondence only). Strengthening round: step 4 (dictionary hyphenation) is modelled with pyphen as an '
            'assumed input and proved to break only at the dictionary points of the element\'s own limits; nested inline '
            'boxes are modelled function by function (split_inline_box, _break_waiting_children) and compared on '
            'rendered paragraphs; an inline box carries start / end spacing on its first / last fragment only.',
    'note': 'Trusted: Lean kernel; the AST translator; the abstract Pango; ASCII texts without the test font\'s kerning '
            'pair kk and ligature liga; dyadic lengths. Known findings: break-all-hyphen-width (under word-break:break-all '
            "the width of Pango's automatic hyphen is charged although none is drawn: lines end one character early). "
            'heuristic_transparent is false for texts with a space before a newline under collapsing '
            'white-space (never produced by white-space processing): witness in Witness/C09. Known findings on nested '
            'inline boxes: inline-start-spacing-overflow, inline-end-spacing-overflow, inline-end-spacing-reserved-early, '
            'inline-box-width-stale (the greedy / extents clauses are judged only in the sub-domain where the unchanged '
            'code satisfies them). Round 2: vertical placement inside a line (strut, half-leading, every '
            'vertical-align value, top / bottom subtrees) modelled exactly and proved to keep every box inside its line '
            'for every vertical-align value and nesting (full strength since the repair of vertical-align-top-bottom-subtree); preferred widths '
            'of inline content modelled exactly, max-content of a canonical text proved and proved to fit on one line; '
            'lines next to floats modelled on C11\'s avoid_collisions, the gap proved free of floats, lines proved '
            'stacked downwards, termination, and proved equal to the plain paragraph when there is no float (finding '
            'float-gap-text-indent-later-lines: the min-content width used to choose the gap counts text-indent on every '
            'line). Round 3: negative-width-unbroken and vertical-align-top-bottom-subtree were repaired (fixed: entries, '
            'regression theorems, a corpus-first regressions section); boxes_inside_line is now proved for every nesting '
            'of top / bottom boxes; nested inline boxes are modelled under every white-space value, next to floats '
            '(LineFloatsInline, proved equal to the plain nested paragraph without floats), and with atomic boxes holding '
            'spaces of their own in justified lines; the white-space tuples of can_break_inside, split_inline_box and '
            'inline_line_widths are regenerated from the source and proved to agree with split_first_line; new finding '
            'waiting-box-boundary-opportunity-unused. Round 4: preserved-line-break-flag-stale-after-rebreak repaired (fixed: entry, '
            'regression theorem and corpus case); the model now starts from the source text (white-space processing and the '
            'collapsed-space flag trailing_collapsible_space that split_inline_box reads as a break opportunity), new '
            'finding nowrap-breaks-after-collapsed-space, repaired in round 5 (fd6f32a): '
            'nested_no_wrap_breaks_only_at_newline is full strength. Soft hyphens are not modelled (finding '
            'soft-hyphen-forces-overflowing-line is replayed at document level only). Not modelled: bidi (rtl paragraphs only with normal word-break/overflow-wrap, nested inline '
            'boxes only ltr), floats inside lines, atomic inlines, first-letter, leaders.',
}
