"""C15 — counters and cross-references print the right numbers."""
import json
import math
import time

from extract import counter_styles, first_letter_table, list_hints
from harness import c15_content as CF
from harness import c15_desc as DV
from harness import c15_dom as D
from harness import c15_judges as J
from harness import c15_lists as LS
from harness import c15_lst as LT
from harness import c15_margin as MB
from harness import c15_pagestd as PS
from harness import c15_pages as P
from harness import c15_spec as SP
from harness import c15_styles as S
from harness import c15_text as X
from harness import c15_toc as T
from harness import docs
from vlib import lean, sx
from vlib.framework import PropCheck

BOUNDARY_VALUES = [3999, 4000, 4999, 5000, 9999, 10000, 10999, 11000, 19999, 20000]
MAX_LOOPS = 8


def system_of(cs, name):
    """Tag only: the system keyword a named style ends with (through `extends`)."""
    seen = set()
    while isinstance(name, str) and name in cs and name not in seen:
        seen.add(name)
        system = cs[name]['system'] or (None, 'symbolic', None)
        if system[0] != 'extends':
            return system[1]
        name = system[1]
    return 'anonymous' if not isinstance(name, str) else 'unresolved'


def tame(cs):
    """Tables on which the spec reference of harness/c15_spec.py is meant to be exact."""
    decimal = cs.get('decimal')
    if decimal is None or not decimal['system'] or decimal['system'][:2] != (None, 'numeric'):
        return False
    for desc in cs.values():
        system = desc['system']
        if system and system[0] == 'extends' and (
                desc['symbols'] is not None or desc['additive_symbols'] is not None):
            return False
    for name in cs:
        seen = set()
        while cs[name]['system'] and cs[name]['system'][0] == 'extends':
            seen.add(name)
            name = cs[name]['system'][1]
            if name not in cs or name in seen:
                return False        # extends chains ending in an unknown style or a cycle: code-specific
    return True


def plain_name(wire_name):
    kind = wire_name[0]
    if kind == 'n':
        return S.dec(wire_name[1])
    if kind == 's':
        return ('string', S.dec(wire_name[1]))
    return ('symbols()', tuple(S.dec(a) for a in wire_name[1:]))


def update_counters_case(rng, adversarial):
    """A state of build.py's (counter_values, counter_scopes) and a style for update_counters."""
    names = ['c', 'd', 'list-item', 'footnote']
    depth = rng.randint(1, 4)
    scopes = [set() for _ in range(depth)]
    values = {}
    for name in names:
        levels = [d for d in range(depth) if rng.random() < 0.35]
        if levels:
            values[name] = [rng.choice([0, 1, 2, 5, -3, 40]) for _ in levels]
            for d in levels:
                scopes[d].add(name)
    if adversarial:
        # break the invariant "number of scopes holding a name = length of its stack"
        r = rng.random()
        name = rng.choice(names)
        if r < 0.4:
            scopes[-1].add(name)
            values.pop(name, None)
        elif r < 0.7:
            scopes[-1].add(name)
            values[name] = []
        else:
            values[name] = []
    def pairs():
        return tuple((rng.choice(names), rng.choice([0, 1, 2, -1, 7])) for _ in range(rng.choice([0, 1, 1, 2, 3])))
    increment = 'auto' if rng.random() < 0.4 else pairs()
    display = rng.choice([('block', 'flow'), ('block', 'flow', 'list-item'), ('inline', 'flow'),
                          ('list-item', 'block'), ('none',)])
    style = {'counter_reset': pairs(), 'counter_set': pairs(), 'counter_increment': increment,
             'display': display}
    return values, scopes, style


def upd_line(values, scopes, style):
    disp = 'none' if style['display'] == ('none',) else 'li' if 'list-item' in style['display'] else 'other'
    incr = style['counter_increment']
    return sx.line(
        'upd', [[S.enc(k), [int(v) for v in st]] for k, st in values.items()],
        [[S.enc(n) for n in sorted(s)] for s in scopes],
        [disp, D.w_pairs(style['counter_reset']), D.w_pairs(style['counter_set']),
         'auto' if incr == 'auto' else D.w_pairs(incr)])


def upd_out(values, scopes, style):
    from weasyprint.formatting_structure.build import update_counters
    values = {k: list(v) for k, v in values.items()}
    scopes = [set(s) for s in scopes]
    try:
        update_counters(([0], values, scopes), style)
    except Exception as exc:  # noqa: BLE001
        return f'err:{type(exc).__name__}'
    return ('ok ' + sx.dumps([[S.enc(k), [int(v) for v in values[k]]] for k in sorted(values)]) + ' ' +
            sx.dumps([[S.enc(n) for n in sorted(s)] for s in scopes]))


def toc_problems(gen, document, passes):
    """The page-number clause of C15 on one rendered table of contents (stated directly)."""
    ua = S.ua_styles()
    labels, targets, marks, n_pages = T.observe(document)
    problems = []
    for href, text, _ in labels:
        target = href[1:]
        if target in targets:
            expected = ua.render_value(targets[target] + 1, gen['style'])
            if text != expected:
                problems.append(f'entry {href} prints {text!r} but its target lies on page '
                                f'{targets[target] + 1} ({expected!r})')
        elif text:
            problems.append(f'entry {href} has no target but prints {text!r}')
    for href, text, index in T.observe_own_pages(document):
        if text.strip() != str(index + 1):
            problems.append(f'entry {href} on page {index + 1} prints counter(page) = {text.strip()!r}')
    for href, text in T.observe_pages_refs(document):
        if href[1:] in targets and text.strip() != str(n_pages):
            problems.append(f'entry {href} prints target-counter(…, pages) = {text.strip()!r}, the document has '
                            f'{n_pages} pages')
    for index, text in marks:
        if text != f'{index + 1}-{n_pages}':
            problems.append(f'page {index + 1} of {n_pages} prints page/pages {text!r}')
    if len(passes) > MAX_LOOPS:
        problems.append(f'{len(passes)} layout passes')
    return problems


OSCILLATION_HTML = (
    '<style>@page{size:200px 30px;margin:0}html,body{margin:0;font-size:10px;line-height:10px;'
    'font-family:weasyprint}p,h2{margin:0;font-size:10px;font-weight:normal}.toc{width:50px}a{display:block}'
    'a::after{content:target-counter(attr(href),page,lower-roman)}</style>'
    '<div class="toc"><a href="#t">e0 </a></div>' + '<p>f</p>' * 7 + '<h2 id="t">T</h2>')


class C15(PropCheck):
    id = 'C15'
    extractors = (counter_styles.generate, first_letter_table.generate, list_hints.generate)
    modules = ('WpModel.Props.C15', 'WpModel.Props.C15Pages', 'WpModel.Props.C15Desc', 'WpModel.Props.C15Text',
               'WpModel.Props.C15Lists', 'WpModel.Props.C15PagesTotal', 'WpModel.Props.C15Content',
               'WpModel.Props.C15Symbols', 'WpModel.Props.C15Margin',
               'WpModel.Props.C15PageStd', 'WpModel.Witness.C15')
    trusted_base = (
        'modelled, not verified: css/validation/descriptors.py (counter-style validators), css/targets.py '
        '(cache_target_page_counters, lookup/store/check_pending), layout/page.py (counter section of make_page), '
        'build.py (extract_text, box_text), css/counters.py (resolve_counter, render_value, render_marker), build.py '
        '(update_counters, scope push/pop of element_to_box, text markers, counter()/counters()/target-counter() '
        'items of compute_content_list), layout_document loop control and the re-make rule of make_all_pages',
        'Gen/CounterStyles.lean is the dictionary the real CSS parser and descriptor validators build from '
        'html5_ua.css (dumped each run)',
        'the abstract element tree of the DOM correspondence is read from the real computed styles (style_for), '
        'so the cascade is outside this property\'s tie (C06) — except for list documents, where the counter '
        'declarations are derived by the model from the raw start / value attributes (list-attributes section)',
        'Gen/ListHints.lean: AST of the ol / li branches of find_style_attributes (shape checked strictly) and the '
        'computed counter declarations of ol, ul, li, div under the real UA sheet',
    )
    assumptions = (
        'the style table contains the UA `decimal` (HTML._ua_counter_style always installs it): an author-defined '
        '`decimal` that extends another style makes resolve_counter loop forever and is not generated',
        'counter values of symbolic/additive styles are bounded in the generators (output grows linearly)',
        'pagination itself is abstract in Model/Repaginate: a pass is an arbitrary function returning page count '
        'and remake_state flags; fixpoint_consistent assumes the flags are sound (Repaginate.Sound)',
        'document-level numbers use the fixed-pitch test font, lengths are multiples of 10px',
    )

    # ------------------------------------------------------------------ correspondence

    def correspondence(self, run):
        docs.quiet()
        self._branch_lines = []
        original = S.rv_line

        def rv_line(*args):
            line = original(*args)
            if len(self._branch_lines) < 80000:
                self._branch_lines.append('rvb' + line[2:])
            return line
        S.rv_line = rv_line
        try:
            self._fixed_regressions(run)
            self._margin_boxes(run)
            self._page_standardize(run)
            self._styles_ua(run)
            self._styles_custom(run)
            self._update_counters(run)
            self._dom(run)
            self._toc(run)
        finally:
            S.rv_line = original
        self._lists(run)
        self._content_functions(run)
        self._list_style_type(run)
        self._descriptors(run)
        self._target_text(run)
        self._cache_target(run)
        self._branches(run)

    def _fixed_regressions(self, run):
        """Corpus first: the inputs of the repaired findings (`fixed:` lines), through the ordinary pipelines.
        A `fixed:` entry suppresses nothing: if the defect comes back the case disagrees with the model (which
        mirrors the repaired code) and `judge` reports the corpus input."""
        sec = run.section(
            'fixed-regressions',
            'corpus/C15 inputs of the repaired findings: the @counter-style sheets through the real parser + '
            'render_value / render_marker, the hand-built dictionary with an empty symbols tuple, the documents through '
            'build_formatting_structure (dom) and through layout_document with the make_page recorder (mp); '
            'non-trivial = all')
        for fid, values, name in (('range-auto-crash', range(-3, 8), 'x'),
                                  ('extends-own-symbols-loses-sign', (-50, -5, -1, 0, 1, 5, 27), 'a'),
                                  ('extends-empty-symbols-index-error', (-7, -1, 0, 1, 7, 10), 'e')):
            html = corpus_html(fid)
            css = html[html.index('<style>') + 7:html.index('</style>')]
            cs = S.parse_styles(css, 'ua')
            custom = S.custom_part(cs, 'ua')
            meta = {'kind': 'fixed', 'id': fid}
            for v in values:
                sec.add(S.rv_line('ua', custom, v, name), S.out_text(lambda: cs.render_value(v, name)), meta=meta,
                        nontrivial=True, tags=[fid])
                sec.add(S.rm_line('ua', custom, v, name), S.out_text(lambda: cs.render_marker(name, v)), meta=meta,
                        nontrivial=True, tags=[fid])
            case = D.dom_case(html)
            if case is not None:
                sec.add(case['line'], case['impl'], meta=meta, nontrivial=True, tags=[fid, 'dom'])
        # the dictionary `symbols: ;` used to register (an empty tuple): no longer reachable through the parser
        # (d71ddd0), still a legal argument of render_value
        for system in ('decimal', 'lower-alpha', 'lower-roman', 'disc'):
            for symbols in ((), (('string', 'x'),)):
                cs = S.parse_styles('', 'ua')
                cs['e'] = dict(dict.fromkeys(S.FIELDS), system=('extends', system, None), symbols=symbols,
                               range=((-math.inf, math.inf),))
                custom = S.custom_part(cs, 'ua')
                for v in (-12, -1, 0, 1, 2, 30):
                    sec.add(S.rv_line('ua', custom, v, 'e'), S.out_text(lambda: cs.render_value(v, 'e')),
                            meta={'kind': 'fixed', 'id': 'extends-own-symbols-loses-sign' if v < 0 else
                                  'extends-empty-symbols-index-error', 'direct': [system, len(symbols), v]},
                            nontrivial=True, tags=['direct-dict'])
        fid = 'target-counter-non-ident-style-crash'
        meta = {'kind': 'fixed', 'id': fid}
        for text in ('target-counter("#t", c, "x")', 'target-counter("#t", c, symbols(cyclic "a"))',
                     'target-counter("#t", c, 3)', 'target-counters("#t", c, ".", "x")', 'target-counter("#t", c, X)',
                     'target-counters(attr(href), Sec, "-", 1.5)'):
            case = CF.cfn_case(text)
            if case is not None:
                sec.add(case[0], case[1], meta=meta, nontrivial=True, tags=[fid])
        case = D.dom_case(corpus_html(fid))
        if case is not None:
            sec.add(case['line'], case['impl'], meta=meta, nontrivial=True, tags=[fid, 'dom'])
        fid = 'target-counter-pages-forward-crash'
        html = corpus_html(fid)
        pages_rec = P.PageRecorder()
        meta = {'kind': 'fixed', 'id': fid}
        try:
            with pages_rec.installed():
                document = docs.render(html)
            after = all_texts(document)
            outcome = 'ok ' + S.enc(str(len(document.pages)))
        except Exception as exc:  # noqa: BLE001
            after, outcome = [], f'err:{type(exc).__name__}'
        for line, out, tags in pages_rec.cases:
            sec.add(line, out, meta=meta, nontrivial=True, tags=[fid] + tags)
        # the printed page count: the model's render_value of the number of pages, against what ::after shows
        n_pages = outcome[3:] if outcome.startswith('ok ') else None
        printed = after[after.index('e') + 1] if 'e' in after[:-1] else None
        sec.add(S.rv_line('ua', {}, int(S.dec(n_pages)) if n_pages else 0, 'decimal'),
                'ok ' + S.enc(printed) if printed is not None else outcome, meta=meta, nontrivial=True,
                tags=[fid, 'printed'])

    def _margin_boxes(self, run):
        sec = run.section(
            'margin-box-counters',
            'every make_margin_boxes call (page state in, generated boxes with computed style and laid-out text out) '
            'of a fixed family of @page rules - every counter-reset / -set / -increment on one margin box x every '
            'counter()/counters() content on another, both generation orders, with and without page-level counter '
            'declarations - and of random ones, against Model/MarginCounters.marginTexts; non-trivial = at least two '
            'generated boxes')
        documents = MB.family() + [MB.gen_document(run.rng) for _ in range(run.n(25, 400))]
        for html in documents:
            for line, out, n_boxes in MB.margin_cases(html):
                sec.add(line, out, meta={'kind': 'mbox', 'html': html}, nontrivial=n_boxes >= 2,
                        tags=[f'boxes{min(n_boxes, 4)}'])

    def _page_standardize(self, run):
        sec = run.section(
            'page-standardize',
            'layout.page._standardize_page_based_counters called directly on style dictionaries (counter-set / -reset / '
            '-increment with page, pages, other names, auto), in @page and @margin context, then again on its own '
            'output, against Model/PageStd.standardize; non-trivial = the call changes the style')
        seen = set()
        for _ in range(run.n(1200, 12000)):
            style, is_page = PS.gen_case(run.rng)
            for line, out in PS.pstd_cases(style, is_page):
                if line in seen:
                    continue
                seen.add(line)
                before = ' '.join(line.split(' ')[2:])
                sec.add(line, out, meta={'kind': 'pstd', 'style': {k: (v if v == 'auto' else [list(p) for p in v])
                                                                    for k, v in style.items()}, 'is_page': is_page},
                        nontrivial=out != before, tags=['page' if is_page else 'margin'])

    def _styles_ua(self, run):
        ua = S.ua_styles()
        sec = run.section(
            'ua-render-value',
            'render_value of every predefined style (HTML5_UA_COUNTER_STYLE) on -50..5000 (thorough: all; quick: '
            '-50..130, boundaries, a seeded sample); non-trivial = the text differs from str(value)')
        secm = run.section(
            'ua-render-marker', 'render_marker of every predefined style; non-trivial = prefix or suffix non-empty')
        for name in ua:
            if run.thorough:
                values = list(range(-50, 5001)) + BOUNDARY_VALUES[4:]
            else:
                values = list(range(-50, 131)) + BOUNDARY_VALUES + run.rng.sample(range(131, 5001), 120)
            system = system_of(ua, name)
            for v in values:
                out = S.out_text(lambda: ua.render_value(v, name))
                sec.add(S.rv_line('ua', {}, v, name), out, meta={'kind': 'rv', 'base': 'ua', 'css': '', 'value': v,
                                                                   'name': name},
                        nontrivial=out != 'ok ' + S.enc(str(v)), tags=[system])
            for v in values[::7 if run.thorough else 5]:
                out = S.out_text(lambda: ua.render_marker(name, v))
                secm.add(S.rm_line('ua', {}, v, name), out,
                         meta={'kind': 'rm', 'base': 'ua', 'css': '', 'value': v, 'name': name},
                         nontrivial=bool((ua[name]['prefix'] or ua[name]['suffix'])), tags=[system])
        # huge values where the output stays short
        for name in ('decimal', 'lower-alpha', 'cjk-decimal', 'disc', 'decimal-leading-zero', 'upper-roman', 'nosuch'):
            for v in (10 ** 9, -10 ** 9, 2 ** 31, 2 ** 63, 10 ** 18 + 7, -(10 ** 15), 10 ** 40):
                out = S.out_text(lambda: ua.render_value(v, name))
                sec.add(S.rv_line('ua', {}, v, name), out, meta={'kind': 'rv', 'base': 'ua', 'css': '', 'value': v,
                                                                   'name': name}, tags=['huge'])
        run.extra['exhaustive'] = bool(run.thorough)
        run.extra['exhaustive_what'] = ('every predefined counter style x values -50..5000' if run.thorough else
                                        'not exhaustive in the quick tier')

    def _styles_custom(self, run):
        sec = run.section(
            'custom-styles',
            'random @counter-style sheets through the real stylesheet parser and descriptor validators (with and '
            'without the UA table), then render_value / render_marker / resolve_counter on named, string and '
            'symbols() styles; non-trivial = the sheet registered at least one style and the result is not the '
            'plain decimal')
        for _ in range(run.n(1200, 12000)):
            base = run.rng.choice(['ua', 'ua', 'empty'])
            css = S.gen_sheet(run.rng, base)
            cs = S.parse_styles(css, base)
            custom = S.custom_part(cs, base)
            for _ in range(8):
                v, name = S.gen_value(run.rng), S.gen_name(run.rng, cs)
                out = S.out_text(lambda: cs.render_value(v, name))
                meta = {'kind': 'rv', 'base': base, 'css': css, 'value': v, 'name': name}
                sec.add(S.rv_line(base, custom, v, name), out, meta=meta,
                        nontrivial=bool(custom) and out != 'ok ' + S.enc(str(v)),
                        tags=[system_of(cs, name), out.split(' ')[0]])
                if run.rng.random() < 0.3:
                    out = S.out_text(lambda: cs.render_marker(name, v))
                    sec.add(S.rm_line(base, custom, v, name), out, meta=dict(meta, kind='rm'),
                            nontrivial=bool(custom), tags=['marker'])
                if run.rng.random() < 0.3:
                    prev = run.rng.choice([None, [], [run.rng.choice(S.NAMES)],
                                           [run.rng.choice(S.NAMES), 'decimal'], [name] if isinstance(name, str) else []])
                    sec.add(S.rc_line(base, custom, name, prev), S.rc_out(cs, name, prev),
                            meta=dict(meta, kind='rc', prev=prev), nontrivial=bool(custom), tags=['resolve'])
        # steps 4-5 systematically: every sign-using system x negative prefix/suffix lengths x pad lengths x a
        # window of values around 0 (explicit infinite range so that negative values stay in range)
        grid = {'numeric': 'symbols: "0" "1" "2"', 'alphabetic': 'symbols: a b', 'symbolic': 'symbols: "*" "+"',
                'additive': 'additive-symbols: 5 V, 1 I, 0 N', 'cyclic': 'symbols: p q', 'fixed -2': 'symbols: s t u v w'}
        for system, symbols in grid.items():
            for negative in ('"-"', '"(" ")"', '"minus " ""', '"--" "+"', '"" ""', '"" "]"', None):
                for pad in ('0 "0"', '3 "0"', '5 x', '7 "ab"', '4 ""', None):
                    css = (f'@counter-style gr {{ system: {system}; {symbols}; range: infinite infinite'
                           + (f'; negative: {negative}' if negative else '') + (f'; pad: {pad}' if pad else '') + ' }')
                    cs = S.parse_styles(css, 'ua')
                    custom = S.custom_part(cs, 'ua')
                    for v in (range(-12, 4) if run.thorough else (-12, -7, -6, -5, -2, -1, 0, 1, 3)):
                        out = S.out_text(lambda: cs.render_value(v, 'gr'))
                        sec.add(S.rv_line('ua', custom, v, 'gr'), out,
                                meta={'kind': 'rv', 'base': 'ua', 'css': css, 'value': v, 'name': 'gr'},
                                nontrivial=out != 'ok ' + S.enc(str(v)), tags=['pad-negative-grid', system.split(' ')[0]])
        # anonymous styles, every system, a window of values
        empty = S.parse_styles('', 'ua')
        for name in [('string', '*'), ('string', ''), ('symbols()', ('cyclic', 'a', 'b', 'c')),
                     ('symbols()', ('numeric', '0', '1')), ('symbols()', ('alphabetic', 'a', 'b')),
                     ('symbols()', ('symbolic', '*', '+')), ('symbols()', ('fixed', 'x', 'y', 'z')),
                     ('symbols()', ('symbolic', '')), ('symbols()', ('cyclic', 'q'))]:
            for v in range(-12, 41):
                out = S.out_text(lambda: empty.render_value(v, name))
                sec.add(S.rv_line('ua', {}, v, name), out,
                        meta={'kind': 'rv', 'base': 'ua', 'css': '', 'value': v, 'name': name}, tags=['anonymous'])
                out = S.out_text(lambda: empty.render_marker(name, v))
                sec.add(S.rm_line('ua', {}, v, name), out,
                        meta={'kind': 'rm', 'base': 'ua', 'css': '', 'value': v, 'name': name}, tags=['anonymous'])

    def _update_counters(self, run):
        sec = run.section(
            'update-counters',
            'build.update_counters on random (counter_values, counter_scopes) states and styles, plus states '
            'breaking the stack/scope invariant (KeyError / IndexError / AssertionError outcomes); non-trivial = '
            'the style has at least one reset / set / increment')
        for i in range(run.n(3000, 60000)):
            values, scopes, style = update_counters_case(run.rng, adversarial=i % 6 == 0)
            out = upd_out(values, scopes, style)
            nontrivial = bool(style['counter_reset'] or style['counter_set'] or style['counter_increment'] not in ((), 'auto')
                              or 'list-item' in style['display'])
            sec.add(upd_line(values, scopes, style), out,
                    meta={'kind': 'upd', 'values': values, 'scopes': [sorted(s) for s in scopes], 'style': style},
                    nontrivial=nontrivial, tags=[out.split(' ')[0], 'adversarial' if i % 6 == 0 else 'consistent'])

    def _dom(self, run):
        sec = run.section(
            'dom-build',
            'build_formatting_structure on generated DOMs (counter-reset/-increment/-set on elements and '
            'pseudo-elements, nested ol/ul/li with start/value, display:none, list-style-type incl. strings and '
            'symbols(), counter()/counters()/target-counter()/target-counters() forwards and backwards): texts '
            'of all ::marker/::before/::after boxes; non-trivial = at least 3 generated boxes')
        skipped = 0
        for _ in range(run.n(500, 6000)):
            html = D.gen_document(run.rng)
            case = D.dom_case(html)
            if case is None:
                skipped += 1
                continue
            n_obs = case['impl'].count('(')
            tags = [f'boxes{min(n_obs // 5 * 5, 40)}']
            if 'target-counter' in html:
                tags.append('targets')
            if 'start="' in html or 'value="' in html:
                tags.append('start/value')
            sec.add(case['line'], case['impl'], meta={'kind': 'dom', 'html': html}, nontrivial=n_obs >= 3, tags=tags)
            # the same document under the reference semantics Spec.counters (frames), cf. C15.scope_refines
            sec.add('spec' + case['line'][3:], case['impl'], meta={'kind': 'dom', 'html': html},
                    nontrivial=n_obs >= 3, tags=['spec'])
        run.extra['dom_outside_model'] = skipped

    def _toc(self, run):
        loop = run.section(
            'toc-loop',
            'layout_document on generated tables of contents: the recorded passes (page count and remake_state '
            'flags read after every make_all_pages) replayed through Model/Repaginate -> number of passes; '
            'non-trivial = more than one pass')
        remake = run.section(
            'toc-remake', 'make_all_pages: page re-made or reused, from the flags read at the loop top')
        labels_sec = run.section(
            'toc-labels',
            'converged tables of contents: every printed target-counter(attr(href), page, style) equals the model\'s '
            'render_value of the page index of the target\'s first box (+1); non-trivial = target not on page 1')
        pages_sec = run.section(
            'page-counters',
            'every make_page call of those renders: TargetCollector + page_maker state before, the anchors and '
            'content lookup items page.descendants() shows to the counter section, state after and the parse_again '
            'calls (Model/PageCounters.counterSection); non-trivial = the page shows an anchor or a lookup item')
        entry_sec = run.section(
            'next-entry', 'remake_page: the remake_state of the page_maker entry written for the following page')
        nonconverged = 0
        seen_decisions = set()
        seen_entries = set()
        for i in range(run.n(160, 700)):
            gen = T.gen_toc(run.rng, run.n(20, 60) if i % 3 else 6)
            recorder, pages_rec = T.Recorder(), P.PageRecorder()
            meta_toc = {'kind': 'toc', 'html': gen['html'], 'style': gen['style']}
            try:
                if gen['n'] <= 24:
                    with recorder.installed(), pages_rec.installed():
                        document = docs.render(gen['html'])
                else:       # the state snapshots of every make_page call grow with entries x pages x passes
                    with recorder.installed():
                        document = docs.render(gen['html'])
            except Exception as exc:  # noqa: BLE001 - an exception of layout_document is an outcome, never a pass count
                trace = [[p['pages'], [[cc, pw] for cc, pw in p['flags']]] for p in recorder.passes]
                loop.add(sx.line('loop', MAX_LOOPS, trace), f'err:{type(exc).__name__}', meta=meta_toc,
                         nontrivial=True, tags=['raised'])
                continue
            passes = recorder.passes
            for line, out, tags in pages_rec.cases:
                pages_sec.add(line, out, meta=meta_toc, nontrivial='lookup' in tags or 'anchor' in tags, tags=tags)
            for line, out in pages_rec.entries:
                if line not in seen_entries:
                    seen_entries.add(line)
                    entry_sec.add(line, out, meta=meta_toc)
            trace = [[p['pages'], [[cc, pw] for cc, pw in p['flags']]] for p in passes]
            loop.add(sx.line('loop', MAX_LOOPS, trace),
                     f'passes={len(passes)} pages={len(document.pages)}',
                     meta={'kind': 'toc', 'html': gen['html'], 'style': gen['style']},
                     nontrivial=len(passes) > 1, tags=[f'passes{len(passes)}', gen['where']])
            for p in passes:
                for before, remade in p['decisions']:
                    if before is None or before in seen_decisions:
                        continue
                    seen_decisions.add(before)
                    remake.add(sx.line('remake', before[0], [before[1], before[2]]), str(remade).lower(),
                               meta={'kind': 'toc', 'html': gen['html'], 'style': gen['style']})
            if not T.converged(passes):
                nonconverged += 1
                continue
            found_labels, targets, marks, n_pages = T.observe(document)
            for href, text, _ in found_labels:
                target = href[1:]
                if target in targets:
                    labels_sec.add(S.rv_line('ua', {}, targets[target] + 1, gen['style']), 'ok ' + S.enc(text),
                                   meta={'kind': 'toc', 'html': gen['html'], 'style': gen['style']},
                                   nontrivial=targets[target] > 0, tags=[gen['style']])
                else:
                    labels_sec.add(S.rv_line('ua', {}, 0, ('string', '')), 'ok ' + S.enc(text),
                                   meta={'kind': 'toc', 'html': gen['html'], 'style': gen['style']},
                                   nontrivial=False, tags=['undefined-target'])
            for href, text, index in T.observe_own_pages(document):
                labels_sec.add(S.rv_line('ua', {}, index + 1, 'decimal'), 'ok ' + S.enc(text.strip()),
                               meta=meta_toc, nontrivial=index > 0, tags=['own-page'])
            for href, text in T.observe_pages_refs(document):
                if href[1:] in targets:
                    labels_sec.add(S.rv_line('ua', {}, n_pages, 'decimal'), 'ok ' + S.enc(text.strip()),
                                   meta=meta_toc, nontrivial=True, tags=['target-pages'])
            for index, text in marks:
                page_s, _, pages_s = text.partition('-')
                labels_sec.add(S.rv_line('ua', {}, index + 1, 'decimal'), 'ok ' + S.enc(page_s),
                               meta={'kind': 'toc', 'html': gen['html'], 'style': gen['style']}, tags=['page'])
                labels_sec.add(S.rv_line('ua', {}, n_pages, 'decimal'), 'ok ' + S.enc(pages_s),
                               meta={'kind': 'toc', 'html': gen['html'], 'style': gen['style']}, tags=['pages'])
        run.extra['toc_runs_hitting_max_loops'] = nonconverged


    def _lists(self, run):
        sec = run.section(
            'list-attributes',
            'build_formatting_structure (real HTML5 UA sheet, presentational hints) on generated nested ol / ul / li '
            'documents with start / value attributes (integers in every spelling incl. 0, negative, signed, padded; '
            'non-integers): the list tree with the RAW attribute tokens goes to the model, which derives the '
            'counter declarations itself (find_style_attributes + counter() + cascade) -> texts of all markers and '
            'li::after boxes; non-trivial = some list has a start or value attribute')
        hints = run.section(
            'list-hints',
            'computed display / counter-reset / counter-set / counter-increment of every ol and li of those '
            'documents against Model/ListHints.applyHint on the raw attribute; non-trivial = attribute present')
        seen = set()
        skipped = 0
        for _ in range(run.n(350, 4000)):
            html = LS.gen_document(run.rng)
            case = LS.list_case(html)
            if case is None:
                skipped += 1
                continue
            tags = ['start' if 'start="' in html else 'no-start', 'value' if 'value="' in html else 'no-value']
            if 'start="0"' in html or 'value="0"' in html:
                tags.append('zero')
            sec.add(case['line'], case['impl'], meta={'kind': 'lists', 'html': html},
                    nontrivial='start="' in html or 'value="' in html, tags=tags)
            for line, out, raw in case['hints']:
                if line not in seen:
                    seen.add(line)
                    hints.add(line, out, meta={'kind': 'lists', 'html': html, 'attr': raw}, nontrivial=bool(raw),
                              tags=[line.split(' ')[1]])
        run.extra['lists_outside_model'] = skipped
        cprop = run.section(
            'counter-validator',
            'validation.properties.counter(tokens, default_integer) (counter-reset / -set / -increment) on real '
            'tinycss2 tokens of plausible values and token soup; non-trivial = accepted')
        for _ in range(run.n(1500, 15000)):
            line, out, text = LS.cprop_case(run.rng)
            cprop.add(line, out, meta={'kind': 'cprop', 'text': text}, nontrivial=out.startswith('('),
                      tags=['accepted' if out.startswith('(') else out.split(' ')[0]])

    def _content_functions(self, run):
        sec = run.section(
            'content-functions',
            'get_content_list_token (css/utils.py: check_counter_function, get_target) on real tinycss2 function '
            'tokens: counter / counters / target-counter / target-counters / target-text with counter names in every '
            'ASCII case, every style spelling, optional commas, wrong arities and token soup, against '
            'Model/ContentFns.contentFn; non-trivial = the token is accepted')
        for _ in range(run.n(2500, 25000)):
            text = CF.gen_function(run.rng)
            case = CF.cfn_case(text)
            if case is None:
                continue
            sec.add(case[0], case[1], meta={'kind': 'cfn', 'text': text}, nontrivial=case[1] != 'none',
                    tags=[text.split('(')[0].lower(), 'accepted' if case[1] != 'none' else 'rejected'])

    def _list_style_type(self, run):
        sec = run.section(
            'list-style-type',
            'the single-token validator list_style_type (validation/properties.py; also the style argument of '
            'counter() / counters()) on real tinycss2 tokens: identifiers, strings, symbols() with every system, '
            'missing / extra / misplaced arguments, commas, other function names, against '
            'Model/ListStyleType.listStyleType; non-trivial = accepted')
        seen = set()
        for _ in range(run.n(1500, 12000)):
            text = LT.gen_value(run.rng)
            case = LT.lst_case(text)
            if case is None or case[0] in seen:
                continue
            seen.add(case[0])
            sec.add(case[0], case[1], meta={'kind': 'lst', 'text': text}, nontrivial=case[1] != 'none',
                    tags=['symbols()' if text.lower().startswith('symbol') else 'token',
                          'accepted' if case[1] != 'none' else 'rejected'])

    def _descriptors(self, run):
        sec = run.section(
            'descriptor-validators',
            'the real @counter-style descriptor validators (system, negative, prefix, suffix, range, pad, fallback, '
            'symbols, additive-symbols) on real tinycss2 tokens of plausible values and token soup; non-trivial = '
            'the value is accepted')
        for _ in range(run.n(5000, 60000)):
            line, out, name, text = DV.dv_case(run.rng)
            sec.add(line, out, meta={'kind': 'dv', 'descriptor': name, 'text': text}, nontrivial=out.startswith('('),
                    tags=[name, 'accepted' if out.startswith('(') else out.split(' ')[0]])
        rules = run.section(
            'counter-style-rules',
            'whole @counter-style rules through preprocess_stylesheet: which declarations survive, later ones win, '
            'rule-level symbol-count checks, the registered dictionary; non-trivial = the rule is registered')
        for _ in range(run.n(1500, 15000)):
            line, out, css = DV.rule_case(run.rng)
            rules.add(line, out, meta={'kind': 'rule', 'css': css}, nontrivial=out.startswith('('),
                      tags=['registered' if out.startswith('(') else out.split(' ')[0]])
        for _ in range(run.n(200, 1000)):
            line, out, text = DV.name_case(run.rng)
            rules.add(line, out, meta={'kind': 'csname', 'text': text}, nontrivial=out != 'none', tags=['name'])

    def _target_text(self, run):
        sec = run.section(
            'target-text',
            'build_formatting_structure on generated documents whose ::after boxes print target-text(…, content | '
            'before | after | first-letter) of earlier, later, enclosing, hidden and missing elements: text of every '
            '::after box; non-trivial = some box prints a non-empty target text')
        skipped = 0
        for _ in range(run.n(400, 4000)):
            html = X.gen_document(run.rng)
            case = X.text_case(html)
            if case is None:
                skipped += 1
                continue
            tags = [m for m in ('before', 'after', 'first-letter') if f', {m})' in html]
            sec.add(case['line'], case['impl'], meta={'kind': 'tt', 'html': html},
                    nontrivial=any(len(v) > 2 for v in (case['texts'] or {}).values()), tags=tags or ['content'])
        run.extra['target_text_outside_model'] = skipped

    def _cache_target(self, run):
        sec = run.section(
            'cache-target',
            'TargetCollector.cache_target_page_counters called directly on generated collectors (real '
            'TargetLookupItem / CounterLookupItem objects, a page_maker list): state after and parse_again calls; '
            'non-trivial = some item is flagged or marked pending')
        for _ in range(run.n(3000, 40000)):
            line, out, tags, nontrivial = P.cache_target_case(run.rng)
            sec.add(line, out, meta={'kind': 'ct', 'line': line}, nontrivial=nontrivial, tags=tags)

    def _branches(self, run):
        """Evidence only: which exit of the model's render_value the correspondence inputs take."""
        import collections
        lines = self._branch_lines
        hist = collections.Counter(lean.run_driver(self.driver, lines)) if lines else {}
        expected = [f'{s}:{k}' for s in ('cyclic', 'fixed', 'symbolic', 'alphabetic', 'numeric', 'additive')
                    for k in ('initial', 'out-of-range->fallback')]
        expected += ['fixed:unrepresentable->fallback', 'additive:unrepresentable->fallback',
                     'unknown-style->decimal', 'unknown-style->empty', 'extends-unresolved->decimal',
                     'alphabetic:too-few-symbols->decimal', 'numeric:too-few-symbols->decimal']
        run.extra['render_value_branches'] = dict(hist.most_common())
        run.extra['render_value_branches_never_hit'] = [b for b in expected if not any(h.startswith(b) for h in hist)]

    # ------------------------------------------------------------------ judge / search / replay

    def judge(self, d):
        meta = d.get('meta') or {}
        kind = meta.get('kind')
        if kind == 'fixed':
            return self._judge_fixed(meta)
        if kind in ('rv', 'rm'):
            return self._judge_style(meta)
        if kind == 'upd':
            return self._judge_upd(meta)
        if kind == 'dom':
            return self._judge_dom(meta['html'])
        if kind == 'lists':
            return LS.list_clause(meta['html'])
        if kind == 'toc':
            return self._judge_toc(meta['html'], meta['style'])
        if kind == 'tt':
            return self._judge_text(meta['html'])
        if kind == 'ct':
            return J.cache_target_clause(meta['line'])
        if kind == 'cfn':
            return CF.function_clause(meta['text'])
        if kind == 'lst':
            return LT.lst_clause(meta['text'])
        if kind == 'mbox':
            return MB.margin_clause(meta['html'])
        if kind == 'pstd':
            style = {k: (v if v == 'auto' else tuple(tuple(p) for p in v)) for k, v in meta['style'].items()}
            return PS.pstd_clause(style, meta['is_page'])
        if kind == 'dv':
            return J.descriptor_clause(meta['descriptor'], meta['text'])
        if kind == 'rule':
            return J.rule_clause(meta['css'])
        return None

    @staticmethod
    def _judge_fixed(meta):
        """A repaired defect is back when its former finding replay fails again on the corpus input."""
        fid = meta['id']
        if 'direct' in meta:
            system, n_symbols, value = meta['direct']
            cs = S.parse_styles('', 'ua')
            cs['e'] = dict(dict.fromkeys(S.FIELDS), system=('extends', system, None),
                           symbols=(('string', 'x'),) * n_symbols, range=((-math.inf, math.inf),))
            out = S.out_text(lambda: cs.render_value(value, 'e'))
            want = 'ok ' + S.enc(str(value))
            if system != 'disc' and out != want:
                shown = S.dec(out[3:]) if out.startswith('ok ') else out
                return (f'repaired defect {fid} is back: a style extending {system} with {n_symbols} own symbol(s) '
                        f'renders {value} as {shown!r}, the decimal fallback gives {str(value)!r}')
            return None
        try:
            back = FIXED_REPLAYS[fid]()
        except Exception as exc:  # noqa: BLE001
            return f'repaired defect {fid}: its corpus input raises {type(exc).__name__}: {exc}'
        if back:
            return f'repaired defect {fid} is back on its corpus input (corpus/C15/{fid}.json): {back}'
        return None

    @staticmethod
    def _judge_style(meta):
        name = meta['name'] if isinstance(meta['name'], str) else tuple(
            tuple(x) if isinstance(x, list) else x for x in meta['name'])
        cs = S.parse_styles(meta['css'], meta['base'])
        # the table css-counter-styles-3 gives for the sheet, read independently of the validators (so that a
        # descriptor wrongly dropped or altered shows in what is printed); the implementation's own when the
        # reference declines
        spec_cs = SP.spec_styles(meta['css'], S.parse_styles('', meta['base'])) if meta['css'] else None
        ref_cs = spec_cs if spec_cs is not None else cs
        if not tame(cs) or not tame(ref_cs):
            return None
        value = meta['value']
        if meta['kind'] == 'rv':
            impl, ref = S.out_text(lambda: cs.render_value(value, name)), SP.render(ref_cs, value, name)
        else:
            impl, ref = S.out_text(lambda: cs.render_marker(name, value)), SP.marker(ref_cs, value, name)
        if ref is None:
            return None
        if impl != 'ok ' + S.enc(ref):
            shown = S.dec(impl[3:]) if impl.startswith('ok ') else impl
            return (f'counter style {name!r} renders {value} as {shown!r}; css-counter-styles-3 '
                    f'(range/negative/pad/fallback) gives {ref!r}')
        return None

    @staticmethod
    def _judge_upd(meta):
        """Clause: reset opens a scope (replacing a sibling's), set/increment act on the innermost one."""
        values = {k: list(v) for k, v in meta['values'].items()}
        scopes = [set(s) for s in meta['scopes']]
        if any(sum(1 for s in scopes if k in s) != len(v) for k, v in values.items()) or any(
                n not in values for s in scopes for n in s):
            return None  # not a reachable state
        style = {k: (tuple(tuple(p) for p in v) if isinstance(v, list) else v) for k, v in meta['style'].items()}
        style['display'] = tuple(style['display'])
        effective = style['counter_increment']
        if effective == 'auto':
            effective = (('list-item', 1),) if 'list-item' in style['display'] else ()
        if {n for n, _ in style['counter_set']} & {n for n, _ in effective}:
            return None  # known finding counter-set-before-increment: the clause below follows css-lists-3 order
        expected = {k: list(v) for k, v in values.items()}
        current = set(scopes[-1])
        for name, value in style['counter_reset']:
            if name in current:
                expected[name].pop()
            current.add(name)
            expected.setdefault(name, []).append(value)
        increments = style['counter_increment']
        if increments == 'auto':
            increments = (('list-item', 1),) if 'list-item' in style['display'] else ()
        for pairs, op in ((increments, lambda old, v: old + v), (style['counter_set'], lambda old, v: v)):
            for name, value in pairs:
                if not expected.get(name):
                    expected[name] = [0]
                expected[name][-1] = op(expected[name][-1], value)
        out = upd_out(values, scopes, style)
        want = 'ok ' + sx.dumps([[S.enc(k), [int(v) for v in expected[k]]] for k in sorted(expected)])
        if not out.startswith(want + ' '):
            return f'update_counters on {values} / {meta["scopes"]} with {style}: {out} (expected {want})'
        return None

    @staticmethod
    def _judge_dom(html):
        case = D.dom_case(html)
        if case is None or not tame(case['styles']):
            return None
        if SP.sets_and_increments(case['tree']):
            return None  # known finding counter-set-before-increment
        if case['obs'] is None:
            return f'build_formatting_structure raised {case["impl"]}'
        expected = SP.reference_texts(case['styles'], case['tree'])
        if expected != case['obs']:
            diff = next((i for i, (a, b) in enumerate(zip(expected, case['obs'])) if a != b),
                        min(len(expected), len(case['obs'])))
            return (f'generated box #{diff}: printed {case["obs"][diff:diff + 1]}, CSS 2.1 12.4 scoping + '
                    f'css-counter-styles-3 give {expected[diff:diff + 1]}')
        return None

    @staticmethod
    def _judge_text(html):
        case = X.text_case(html)
        if case is None:
            return None
        if case['texts'] is None:
            return f'build_formatting_structure raised {case["impl"]}'
        expected = J.target_text_reference(case['line'], case['texts'])
        if expected is None:
            return None
        known = J.open_reference(case['line'])       # finding target-text-open-target-empty
        for ident in sorted(expected):
            got = case['texts'].get(ident)
            if got != expected[ident] and ident not in known:
                return (f'::after box of element #{ident} prints {got!r}; target-text() of the designated elements '
                        f'gives {expected[ident]!r}')
        return None

    @staticmethod
    def _judge_toc(html, style):
        try:
            document, passes = T.render_recorded(html)
        except Exception as exc:  # noqa: BLE001
            return f'layout_document raised {type(exc).__name__}: {exc}'
        if not T.converged(passes) and len(passes) >= MAX_LOOPS:
            return None  # known limitation: see the finding page-fixpoint-oscillation
        problems = toc_problems({'style': style}, document, passes)
        return '; '.join(problems[:3]) if problems else None

    def search(self, run, failures):
        docs.quiet()
        found = []
        deadline = time.time() + (60 if not run.thorough else 300)

        def add(what, payload, signature):
            found.append({'what': what, 'input': payload, 'signature': signature})
            return len(found) >= 3

        # 1. the property's own quantifier on the predefined styles, against the spec reference
        ua = S.ua_styles()
        for name in ua:
            for v in list(range(-50, 400)) + list(range(400, 5001, 7)) + BOUNDARY_VALUES:
                run.search_stats['evaluations'] += 1
                meta = {'kind': 'rv', 'base': 'ua', 'css': '', 'value': v, 'name': name}
                what = self._judge_style(meta)
                if what is None and v % 50 == 0:
                    what = self._judge_style(dict(meta, kind='rm'))
                    meta = dict(meta, kind='rm') if what else meta
                if what and add(what, {'meta': meta}, f'{name}/{v}'):
                    return found
                if what:
                    break
        # 2. update_counters on reachable states
        for _ in range(4000):
            values, scopes, style = update_counters_case(run.rng, adversarial=False)
            meta = {'kind': 'upd', 'values': values, 'scopes': [sorted(s) for s in scopes], 'style': style}
            run.search_stats['evaluations'] += 1
            what = self._judge_upd(json.loads(json.dumps(meta)))
            if what and add(what, {'meta': meta}, 'upd'):
                return found
            if what:
                break
        # 3. tame random sheets
        for _ in range(1500):
            if time.time() > deadline:
                break
            css = S.gen_sheet(run.rng, 'ua')
            cs = S.parse_styles(css, 'ua')
            if not tame(cs):
                continue
            for _ in range(6):
                meta = {'kind': run.rng.choice(['rv', 'rv', 'rm']), 'base': 'ua', 'css': css,
                        'value': S.gen_value(run.rng), 'name': S.gen_name(run.rng, cs)}
                run.search_stats['evaluations'] += 1
                what = self._judge_style(meta)
                if what and add(what, {'meta': meta}, css):
                    return found
        # 3b. descriptors against the specification's grammar; counter names through target-counter()
        for _ in range(1500):
            _line, _out, dname, text = DV.dv_case(run.rng)
            run.search_stats['evaluations'] += 1
            what = J.descriptor_clause(dname, text)
            if what and add(what, {'meta': {'kind': 'dv', 'descriptor': dname, 'text': text}}, f'{dname}:{text}'):
                return found
            if what:
                break
        for _ in range(1500):
            text = LT.gen_value(run.rng)
            run.search_stats['evaluations'] += 1
            try:
                what = LT.lst_clause(text)
            except Exception as exc:  # noqa: BLE001
                what = f'list_style_type raised {type(exc).__name__} on {text}'
            if what and add(what, {'meta': {'kind': 'lst', 'text': text}}, text):
                return found
            if what:
                break
        for name in CF.NAMES:
            for forward in (True, False):
                for sep in (None, '.'):
                    run.search_stats['evaluations'] += 1
                    try:
                        what = CF.relation_clause(name, run.rng.choice([None, 'lower-roman']), forward, sep)
                    except Exception as exc:  # noqa: BLE001
                        what = f'build raised {type(exc).__name__}: {exc}'
                    if what and add(what, {'meta': {'kind': 'cfn', 'text': f'target-counter("#t", {name})'}}, what):
                        return found
        for _ in range(600):
            style, is_page = PS.gen_case(run.rng)
            run.search_stats['evaluations'] += 1
            try:
                what = PS.pstd_clause(style, is_page)
            except Exception as exc:  # noqa: BLE001
                what = f'_standardize_page_based_counters raised {type(exc).__name__} on {style}'
            if what and add(what, {'meta': {'kind': 'pstd', 'style': {k: (v if v == 'auto' else [list(p) for p in v])
                                                                        for k, v in style.items()},
                                            'is_page': is_page}}, str(style)):
                return found
            if what:
                break
        for html in MB.family():
            run.search_stats['evaluations'] += 1
            what = MB.margin_clause(html)
            if what and add(what, {'meta': {'kind': 'mbox', 'html': html}}, html):
                return found
            if what:
                break
        # 4. documents: list attributes, scoping, then page numbers
        for _ in range(300):
            if time.time() > deadline:
                break
            html = LS.gen_document(run.rng)
            run.search_stats['evaluations'] += 1
            try:
                what = LS.list_clause(html)
            except Exception as exc:  # noqa: BLE001
                what = f'build raised {type(exc).__name__}: {exc}'
            if what and add(what, {'meta': {'kind': 'lists', 'html': html}}, html):
                return found
            if what:
                break
        for _ in range(400):
            if time.time() > deadline:
                break
            html = D.gen_document(run.rng)
            run.search_stats['evaluations'] += 1
            try:
                what = self._judge_dom(html)
            except Exception as exc:  # noqa: BLE001
                what = f'build raised {type(exc).__name__}: {exc}'
            if what and add(what, {'meta': {'kind': 'dom', 'html': html}}, html):
                return found
        for _ in range(300):
            if time.time() > deadline:
                break
            html = X.gen_document(run.rng)
            run.search_stats['evaluations'] += 1
            try:
                what = self._judge_text(html)
            except Exception as exc:  # noqa: BLE001
                what = f'build raised {type(exc).__name__}: {exc}'
            if what and add(what, {'meta': {'kind': 'tt', 'html': html}}, html):
                return found
        for _ in range(1500):
            line, _out, _tags, _nt = P.cache_target_case(run.rng)
            run.search_stats['evaluations'] += 1
            what = J.cache_target_clause(line)
            if what and add(what, {'meta': {'kind': 'ct', 'line': line}}, line):
                return found
            _line, _out, css = DV.rule_case(run.rng)
            try:
                what = J.rule_clause(css)
            except Exception:  # noqa: BLE001 - the empty `system:` value raises (reported for C07)
                what = None
            if what and add(what, {'meta': {'kind': 'rule', 'css': css}}, css):
                return found
        for _ in range(120):
            if time.time() > deadline:
                break
            gen = T.gen_toc(run.rng, 12)
            run.search_stats['evaluations'] += 1
            try:
                what = self._judge_toc(gen['html'], gen['style'])
            except Exception as exc:  # noqa: BLE001
                what = f'render raised {type(exc).__name__}: {exc}'
            if what and add(what, {'meta': {'kind': 'toc', 'html': gen['html'], 'style': gen['style']}}, gen['html']):
                return found
        return found

    def finding_replays(self):
        return {
            'page-fixpoint-oscillation': finding_oscillation,
            'counter-set-before-increment': finding_set_before_increment,
            'li-value-nests-scope': finding_li_value_nests,
            'ol-start-not-integer': finding_ol_start_not_integer,
            'target-text-open-target-empty': finding_open_target_text,
        }

    def replay(self, data):
        inp = data.get('input', {})
        meta = inp.get('meta')
        if isinstance(meta, dict) and meta.get('kind'):
            return self.judge({'meta': meta})
        return None


def corpus_html(finding_id):
    from vlib.paths import CORPUS
    return json.loads((CORPUS / 'C15' / f'{finding_id}.json').read_text())['html']


def all_texts(document):
    """Texts of every TextBox, outside markers (absolute placeholders) included."""
    from weasyprint.formatting_structure import boxes
    return [box.text for page in document.pages for box in page._page_box.descendants(placeholders=True)
            if isinstance(box, boxes.TextBox)]


def fixed_range_auto():
    """Repaired by 5be1d36 (`range: auto` was stored as ('auto',) and unpacked as a (min, max) pair).
    -> what fails, or None."""
    html = corpus_html('range-auto-crash')
    try:
        texts = all_texts(docs.render(html))
    except ValueError as exc:
        return f'ValueError: {exc}'
    return None if any(t.startswith('a.') for t in texts) else f'the marker of the first item is not "a. ": {texts}'


def fixed_extends_sign():
    """Repaired by 1bdaf16 (an `extends` style with too few own symbols fell back to decimal with abs(value))."""
    html = corpus_html('extends-own-symbols-loses-sign')
    texts = [t for page in docs.page_texts(docs.render(html)) for t in page]
    return None if '-5' in texts else f'counter -5 prints {texts}'


def fixed_extends_empty_symbols():
    """Repaired by 1bdaf16 (numeric system: symbols[0] before the length test) and d71ddd0 (`symbols: ;`)."""
    html = corpus_html('extends-empty-symbols-index-error')
    try:
        texts = [t for page in docs.page_texts(docs.render(html)) for t in page]
    except IndexError as exc:
        return f'IndexError: {exc}'
    return None if '0' in texts else f'counter 0 prints {texts}'


def fixed_forward_pages():
    """Repaired by da41776 (target-counter(attr(href), pages), target on a later page: `None >= 0`)."""
    html = corpus_html('target-counter-pages-forward-crash')
    try:
        document = docs.render(html)
    except TypeError as exc:
        return f'TypeError: {exc}'
    texts = all_texts(document)
    printed = texts[texts.index('e') + 1] if 'e' in texts[:-1] else None
    want = str(len(document.pages))
    return None if printed == want else f'the link prints {printed!r}, the page count is {want}'


def fixed_target_counter_style():
    """Repaired by 9677ed2 (target-counter(#t, c, "x"): the style None failed render_value's assert)."""
    html, context, counter_style = D.build(corpus_html('target-counter-non-ident-style-crash'))
    try:
        texts = D.impl_texts(html, context, counter_style)
    except AssertionError as exc:
        return f'AssertionError: {exc}'
    return None if texts == [] else f'the dropped declaration still generates {texts}'


FIXED_REPLAYS = {
    'range-auto-crash': fixed_range_auto,
    'extends-own-symbols-loses-sign': fixed_extends_sign,
    'extends-empty-symbols-index-error': fixed_extends_empty_symbols,
    'target-counter-pages-forward-crash': fixed_forward_pages,
    'target-counter-non-ident-style-crash': fixed_target_counter_style,
}


def finding_oscillation():
    """The label `iii` wraps and pushes its target to page iv, `iv` fits and pulls it back."""
    document, passes = T.render_recorded(corpus_html('page-fixpoint-oscillation'))
    labels, targets, _, _ = T.observe(document)
    ua = S.ua_styles()
    wrong = [1 for href, text, _ in labels
             if href[1:] in targets and text != ua.render_value(targets[href[1:]] + 1, 'lower-roman')]
    return bool(wrong) and len(passes) >= MAX_LOOPS


def generated_texts_of(finding_id):
    """(kind, text) of the generated boxes of a corpus document (real UA sheet, presentational hints)."""
    html, context, counter_style = LS.build(corpus_html(finding_id))
    return D.impl_texts(html, context, counter_style)


def finding_set_before_increment():
    """update_counters applies counter-set before counter-increment (css-lists-3: reset, increment, set)."""
    return [t for _, t in generated_texts_of('counter-set-before-increment')] == ['6 ']


def finding_li_value_nests():
    """<li value> is hinted as counter-reset: a nested list-item scope inside a flat list."""
    return [t for _, t in generated_texts_of('li-value-nests-scope')] == ['1 ', '1.7 ', '1.8 ']


def finding_ol_start_not_integer():
    """<ol start="1.5"> / <ol start="abc"> number from 0: the raw attribute is pasted into the declaration."""
    return [t for _, t in generated_texts_of('ol-start-not-integer')] == ['0. ', '1. ', '0. ']


def finding_open_target_text():
    """target-text() of the element itself: its box has no children yet when ::after is computed."""
    case = X.text_case(corpus_html('target-text-open-target-empty'))
    return case is not None and case['texts'] is not None and '[]' in case['texts'].values()


PROP = C15()

MANIFEST = {
    'design_ref': 'DESIGN.md §4 C15',
    'technique': 'Lean 4 theorems over executable models of css/counters.py (render_value, render_marker, '
                 'resolve_counter), the @counter-style descriptor validators, preprocess_descriptors and rule '
                 'registration, build.py counter scoping, the ol/li presentational hints of find_style_attributes with '
                 'the counter() property validator and the cascade of the counter properties on list elements, the '
                 'parsers of counter() / counters() / target-counter() / target-counters() / target-text() '
                 '(check_counter_function, get_target) and the list_style_type validator with symbols() on real '
                 'tinycss2 tokens, '
                 'target-counter / target-text evaluation order, TargetCollector.cache_target_page_counters and the '
                 'counter section of make_page, the layout_document re-pagination loop; the UA counter-style table, '
                 'the first-letter punctuation table and the hint table (AST of find_style_attributes, constant parts '
                 'through the real validators; UA counter declarations of list elements) are regenerated from the '
                 'source each run; exact executable correspondence with the real functions (every predefined style '
                 'x -50..5000, random @counter-style sheets and token soup through the real validators, a systematic '
                 'system x negative x pad grid, generated DOMs, generated list documents whose RAW start/value '
                 'attributes go to the model, recorded make_page calls of generated tables of contents with forward and '
                 'backward target-counter(page | pages), direct calls of the TargetCollector); the corpus inputs of '
                 'repaired findings run first as regression cases',
    'text': 'Unbounded theorems: numeric and alphabetic systems are inverted by positional decoding, cyclic/fixed/'
            'symbolic formulas, additive greedy sum / order, out-of-range and unrepresentable values go to the '
            'fallback style with the original value, fallback and extends chains terminate on every table whose '
            'decimal is total, pad/negative length laws, marker = prefix + value + suffix; what the descriptor '
            'validators accept is what render_value can read (descending additive weights, ordered ranges incl. '
            'range:auto, enough symbols for every registered non-extends style: steps 2-3 never raise; collecting '
            'the descriptors of a rule never raises); too few symbols fall back to decimal with the original value; '
            'the counter name of every counter function is the identifier as written (never case-folded); '
            'update_counters agrees with the css-lists-3 order on every counter an element does not both set and '
            'increment; cache_target_page_counters re-parses a box with its own page counters; '
            '_standardize_page_based_counters leaves no `pages` in any counter property, always makes the @page '
            'context count the page, and is idempotent (it is re-applied to the shared style of re-made pages); '
            'a page-margin box prints the page counters as changed by its own declarations only, whatever other margin '
            'boxes the page generates; a symbols() value the validator accepts renders every value as its padded initial representation or '
            'exactly as decimal does (no exception, no decimal exit for want of symbols); '
            'an accepted target-counter() always names a counter style; the items after <li value=v> count v+1, v+2, … '
            'whatever nested lists the item holds; '
            '<ol start=s> makes its items count s, s+1, … for every integer s (0 and negatives included) and <li '
            'value=v> prints v; the stack machine '
            'of update_counters / element_to_box produces exactly the texts of a reference semantics (frames) for '
            'every element tree, counters() lists scopes outermost first, a target snapshot is the state after '
            '::before and is never replaced, list items count start+1, start+2, … independently of nested lists; '
            'cache_target_page_counters flags or marks pending every box printing a changed page counter, a pending '
            'box is flagged when its page is made; step 3 of the counter section never raises (forward references '
            'included) and marks the page of every known pages-target; the re-pagination loop makes at most max_loops passes and, when '
            'it leaves by its break with sound flags, every printed page number equals the page of its target.',
    'note': 'Trusted: Lean kernel, the extractors, the harness mapping computed styles / tokens / laid-out pages to '
            'the abstract inputs. Findings kept as witnesses + corpus/C15: update_counters applies counter-set before '
            'counter-increment (css-lists-3 orders increment, then set); <li value> is hinted as counter-reset and '
            'nests a list-item scope inside a flat list; <ol start> / <li value> that are not CSS integers (1.5, abc) '
            'number from 0; '
            'target-text() of the element itself or an ancestor prints nothing; a real document '
            'oscillates past max_loops=8 '
            '(Witness.C15.oscillation: reaching the page fix point is not provable). The link from the local flag '
            'theorems (C15Pages) to World.Sound of fixpoint_consistent goes through an abstract layout function and '
            'is sampled by the toc-labels correspondence, not proved.',
}
