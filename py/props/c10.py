"""C10 — Tables: grid geometry, width distribution, repeated headers, collapsed borders."""
from fractions import Fraction

from extract import border_styles
from harness import docs, tables
from vlib import lean, sx
from vlib.framework import PropCheck

F = Fraction
DRIVER = 'driver_c10'


# ------------------------------------------------------------------ generators (all from run.rng)

def g_len(rng, lo=0, hi=200, adv=False):
    """A mostly dyadic length; the adversarial stream adds zeros, negatives, huge and tiny values."""
    if adv:
        r = rng.random()
        if r < 0.2:
            return F(0)
        if r < 0.35:
            return -F(rng.randrange(1, 400), rng.choice([1, 2, 4]))
        if r < 0.5:
            return F(rng.randrange(1, 50) * 10**12, rng.choice([1, 4]))
        if r < 0.6:
            return F(1, rng.choice([10**6, 3 * 10**5, 7]))
    r = rng.random()
    den = 1 if r < 0.5 else 2 if r < 0.7 else 4 if r < 0.9 else rng.choice([3, 5, 7, 8])
    return F(rng.randrange(lo * den, hi * den + 1), den)


def g_dim(rng, adv=False, p_auto=0.4, p_pct=0.2, hi=150):
    r = rng.random()
    if r < p_auto:
        return ('auto',)
    if r < p_auto + p_pct:
        if adv and rng.random() < 0.3:
            return ('pct', rng.choice([F(0), F(150), F(-10), F(100)]))
        return ('pct', rng.choice([F(10), F(25), F(50), F(100), F(25, 2), F(33), F(20), F(5)]))
    return ('px', g_len(rng, 0, hi, adv))


def g_fixed(rng, adv=False):
    n_cols = rng.choice([0, 0, 1, 2, 3, 4, 5, 6])
    cols = [g_dim(rng, adv) for _ in range(n_cols)]
    cells = []
    total = 0
    for _ in range(rng.choice([0, 1, 2, 3, 3, 4, 5, 6])):
        colspan = rng.choice([1, 1, 1, 2, 2, 3]) if not (adv and rng.random() < 0.1) else rng.choice([0, 4, 7])
        if total + colspan > 6 and not adv:
            break
        total += colspan
        pad = (lambda: F(rng.randrange(0, 9), rng.choice([1, 2]))) if rng.random() < 0.6 else (lambda: F(0))
        cells.append((colspan, g_dim(rng, adv, p_auto=0.45), pad(), pad(), pad(), pad(),
                      rng.choice(['content', 'content', 'border', 'padding'])))
    if adv and rng.random() < 0.1:
        table_w = 'auto'
    else:
        table_w = g_len(rng, 0, 700, adv)
    collapse = rng.random() < 0.3
    spacing = g_len(rng, 0, 12, adv and rng.random() < 0.3) if rng.random() < 0.7 else F(0)
    return table_w, collapse, spacing, cols, cells


def g_acols(rng, n, adv=False, p_pct=0.3):
    cols = []
    for _ in range(n):
        mn = g_len(rng, 0, 60, adv and rng.random() < 0.3)
        if rng.random() < 0.15:
            mn = F(0)
        mx = mn + (g_len(rng, 0, 120) if rng.random() < 0.8 else 0)
        if adv and rng.random() < 0.3:
            mx = g_len(rng, 0, 60, True)
        if rng.random() < 0.1:
            mn = mx = F(0)
        pct = F(0)
        if rng.random() < p_pct:
            pct = rng.choice([F(10), F(20), F(25), F(50), F(100), F(25, 2), F(33), F(40)])
            if adv and rng.random() < 0.3:
                pct = rng.choice([F(-10), F(250), F(1, 3)])
        cols.append((mn, mx, pct, rng.random() < 0.35, not (adv and rng.random() < 0.4)))
    return cols


def g_excess(rng, adv=False):
    n = rng.choice([1, 2, 3, 4, 5, 6]) if not (adv and rng.random() < 0.15) else 0
    # make the late groups reachable: often no unconstrained zero-percentage column
    shape = rng.random()
    cols = g_acols(rng, n, adv, p_pct=0.3 if shape < 0.4 else 0.9 if shape < 0.7 else 0.0)
    if 0.7 <= shape < 0.85:
        cols = [(mn, mx, p, True, t) for mn, mx, p, _, t in cols]
    if shape >= 0.92:
        cols = [(F(0), F(0), p, c, t) for _, _, p, c, t in cols]
    excess = g_len(rng, 0, 300, adv)
    cw = [c[1] for c in cols] if rng.random() < 0.5 else [g_len(rng, 0, 100, adv) for _ in cols]
    if rng.random() < 0.5:
        start, stop = 0, None
    else:
        start = rng.randrange(0, max(n, 1)) if not adv else rng.randrange(0, n + 3)
        stop = rng.choice([None, rng.randrange(start + (0 if adv else 1), max(start, n) + 2)])
    return cols, excess, cw, start, stop


def hi_for(tmax):
    return max(50, min(2000, int(float(tmax) * 1.6) + 50)) if abs(tmax) < 10**6 else 1000


def g_auto(rng, adv=False):
    n = rng.choice([0, 1, 2, 2, 3, 3, 4, 5, 6])
    cols = g_acols(rng, n, adv)
    s = g_len(rng, 0, 8) if rng.random() < 0.6 else F(0)
    spacing = s * (n + 1) if n else F(0)
    smin, smax = sum(c[0] for c in cols), sum(c[1] for c in cols)
    tmin = spacing + smin + (g_len(rng, 0, 30) if rng.random() < 0.2 else 0)
    tmax = max(tmin, spacing + smax + (g_len(rng, 0, 200) if rng.random() < 0.3 else 0))
    if adv and rng.random() < 0.4:
        tmin, tmax = g_len(rng, 0, 300, True), g_len(rng, 0, 300, True)
    pl, pr, bl, br = (g_len(rng, 0, 6) if rng.random() < 0.3 else F(0) for _ in range(4))
    ml = 'auto' if rng.random() < 0.3 else g_len(rng, 0, 20, adv and rng.random() < 0.2)
    mr = 'auto' if rng.random() < 0.3 else g_len(rng, 0, 20)
    r = rng.random()
    spec = sum((c[1] if c[3] else c[0]) for c in cols)
    anchors = [spacing + smin, spacing + spec, spacing + smax, tmin, tmax]
    if r < 0.35:
        table_w = 'auto'
        cb = g_len(rng, 0, hi_for(tmax), adv)
        if rng.random() < 0.25:
            cb = rng.choice(anchors) + sum(m for m in (ml, mr) if m != 'auto') + pl + pr + bl + br
    else:
        cb = g_len(rng, 0, 800, adv)
        if rng.random() < 0.3:
            table_w = rng.choice(anchors)
        else:
            table_w = g_len(rng, 0, hi_for(tmax), adv)
    return {'table_w': table_w, 'tmin': tmin, 'tmax': tmax, 'spacing': spacing, 'ml': ml, 'mr': mr,
            'pl': pl, 'pr': pr, 'bl': bl, 'br': br, 'cb': cb, 'cols': cols}


# ------------------------------------------------------------------ property clauses stated directly (judge)

def parse_out(out):
    """'ok W (a b c)' -> (W, [a, b, c]); errors -> None."""
    if not out.startswith('ok'):
        return None
    items = sx.loads_line(out.replace(' ' + tables.MUTATED, ''))
    if len(items) == 3:
        return F(items[1]), [F(x) for x in items[2]]
    return None, [F(x) for x in items[1]]


def judge_fixed(meta, out, tol=F(0)):
    """fixed_sum / fixed_honours stated directly on the implementation's result (`tol`: relative
    tolerance for results computed in floats)."""
    table_w, collapse, spacing, cols, cells = meta['args']
    if out.startswith('err:'):
        return None if table_w == 'auto' else f'fixed_table_layout raised {out}'
    width, cw = parse_out(out)
    s = F(0) if collapse else spacing
    n = len(cw)
    slack = tol * max([1, abs(width), abs(table_w)] + [abs(x) for x in cw])
    if n and abs(sum(cw) + s * (n + 1) - width) > slack:
        return f'fixed layout: columns {cw} + spacing do not add up to the table width {width}'
    if width < table_w - slack:
        return f'fixed layout shrank the table: {width} < {table_w}'
    # fixed_nonneg: non-negative <col> declarations never give a negative column (finding
    # fixed-negative-column, repaired by 5d962d2)
    col_decl = [None if d[0] == 'auto' else (d[1] if d[0] == 'px' else table_w * d[1] / 100) for d in cols]
    if all(d is None or d >= 0 for d in col_decl):
        for i, w in enumerate(cw):
            if w < -slack:
                return f'fixed layout: column {i} has the negative width {w}'
    # declared widths are honoured up to one common, non-negative widening `b` of every column:
    #   a declared <col>:            cw[i] = declared_i + b
    #   a first-row cell of declared border-box width bw whose span still has a column without
    #   width when its turn comes, when bw covers the spacings and the widths already declared in
    #   its span (feasible):         sum(cw[span]) + s (k-1) = bw + k b
    #   when it does not (a column cannot be negative): those columns get nothing, cw[j] = b
    decl = col_decl + [None] * (n - len(cols))          # declared / handed-out widths, None = not known yet
    bumps = []
    for i, d in enumerate(col_decl):
        if d is not None and i < n:
            bumps.append((cw[i] - d, f'column {i} declared {d} got {cw[i]}'))
    i = 0
    for colspan, width_decl, pl, pr, bl, br, sizing in cells:
        span = range(i, min(i + colspan, n))
        unknown = [j for j in span if decl[j] is None]
        if width_decl[0] != 'auto' and colspan >= 1 and unknown:
            w = width_decl[1] if width_decl[0] == 'px' else table_w * width_decl[1] / 100
            delta = {'content': 0, 'padding': pl + pr, 'border': pl + pr + bl + br}[sizing]
            if delta > 0:
                w = max(0, w - delta)
            bw = w + pl + pr + bl + br
            share = bw - s * (colspan - 1) - sum(decl[j] for j in span if decl[j] is not None)
            if share >= 0:
                got = sum(cw[j] for j in span) + s * (colspan - 1)
                bumps.append(((got - bw) / colspan,
                              f'first-row cell at column {i} spanning {colspan} declares {bw}, its columns give {got}'))
            else:
                for j in unknown:
                    bumps.append((cw[j], f'first-row cell at column {i} spanning {colspan} declares {bw}, less '
                                         f'than its spacings and declared columns need: column {j} should get '
                                         f'nothing, got {cw[j]}'))
            for j in unknown:
                decl[j] = max(share, 0) / len(unknown)
        i += colspan
    for b, text in bumps:
        if b < -slack:
            return f'fixed layout: {text} (narrower than declared)'
        if abs(b - bumps[0][0]) > slack:
            return (f'fixed layout: declared widths are not honoured up to a common widening: {text} '
                    f'(+{b} per column) but {bumps[0][1]} (+{bumps[0][0]})')
    return None


def judge_excess(meta, out, tol=F(0)):
    """excess_sum / excess_outside / excess_ge stated directly."""
    cols, excess, cw, start, stop = meta['args']
    if out.startswith('err:'):
        return f'distribute_excess_width raised {out}'
    _, new = parse_out(out)
    n = len(cols)
    in_slice = [i for i in range(n) if i >= start and (stop is None or i < stop)]
    if len(new) != len(cw):
        return 'distribute_excess_width changed the number of columns'
    slack = tol * max([1, abs(excess)] + [abs(x) for x in cw])
    if in_slice and abs(sum(new) - (sum(cw) + excess)) > slack:
        return f'excess {excess} distributed as {sum(new) - sum(cw)}'
    for i in range(n):
        if i not in in_slice and new[i] != cw[i]:
            return f'column {i} outside the slice changed'
        if excess >= 0 and new[i] < cw[i] - slack:
            return f'column {i} narrowed by a non-negative excess'
    return None


def judge_preferred(meta, out):
    """Min-content guarantee of table_and_columns_preferred_widths stated directly: every column's
    min-content width covers its non-spanning cells, the columns of a spanning cell (plus the spacings
    between them) cover the cell, max >= the cells' max, the table min-content width covers the columns."""
    spec = meta['spec']
    if out.startswith('err:'):
        return f'table_and_columns_preferred_widths raised {out}'
    items = sx.loads_line(out)
    tmin, tmax = F(items[1]), F(items[2])
    mins, maxs = [F(x) for x in items[3]], [F(x) for x in items[4]]
    spacing = F(0) if spec['collapse'] else spec['spacing']
    n = len(mins)
    for row in spec['rows']:
        for gx, colspan, rowspan, (mn, mx, width, min_pct, max_pct) in row:
            if colspan < 1 or gx + colspan > n or mn < 0:
                continue
            have = sum(mins[gx:gx + colspan]) + spacing * (colspan - 1)
            if have < mn - F(1, 10**9) * max(1, abs(mn)):      # the code mixes in binary floats
                return (f'preferred widths: cell at column {gx} spanning {colspan} has min-content width {mn}, '
                        f'its columns only {have}')
    if all(m >= 0 for m in mins) and tmin < sum(mins) - F(1, 10**9) * max(1, abs(tmin)):
        return f'preferred widths: table min-content {tmin} below the sum of its columns {sum(mins)}'
    return None


def auto_wellformed(inp):
    cols = inp['cols']
    return (all(0 <= c[0] <= c[1] and 0 <= c[2] for c in cols) and
            inp['tmin'] >= inp['spacing'] + sum(c[0] for c in cols) and inp['tmin'] <= inp['tmax'])


def judge_auto(meta, out, tol=F(0)):
    """auto_sum / auto_ge_min / auto_bounds stated directly."""
    inp = meta['args']
    if out.endswith(tables.MUTATED):
        return ('auto_table_layout modified the preferred-width lists it was given (the per-document cache of '
                'table_and_columns_preferred_widths): every later use of the table\'s min/max-content widths '
                '(shrink-to-fit, the next fragment) reads the modified values')
    if not auto_wellformed(inp):
        return None      # the clauses are stated for min <= max, percentages >= 0, table min >= columns min
    if out.startswith('err:'):
        return f'auto_table_layout raised {out}'
    width, cw = parse_out(out)
    cols = inp['cols']
    if not cols:
        return None
    a = width - inp['spacing']
    tol = abs(a) * tables.EPS + tol * max(1, abs(a))
    if abs(sum(cw) - a) > tol:
        return f'auto layout: columns sum to {sum(cw)} but the assignable width is {a}'
    for c, w in zip(cols, cw):
        if w < c[0] - tol:
            return f'auto layout: column narrower ({w}) than its min-content width {c[0]}'
    # css-tables-3 width distribution: once the assignable width covers the min-content widths with the
    # percentage columns at their percentage, those get it; once it also covers the constrained
    # columns at their max-content (declared) width, those get it
    def pct_w(c):
        return max(c[2] / 100 * a, c[0])
    g1 = sum(pct_w(c) if c[2] else c[0] for c in cols)
    g2 = sum(pct_w(c) if c[2] else (c[1] if c[3] else c[0]) for c in cols)
    for i, (c, w) in enumerate(zip(cols, cw)):
        if c[2] and a >= g1 and w < pct_w(c) - tol:
            return f'auto layout: column {i} with {c[2]}% of {a} got only {w}'
        if not c[2] and c[3] and a >= g2 and w < c[1] - tol:
            return f'auto layout: constrained column {i} (max-content {c[1]}) got only {w} although {a} >= {g2}'
    if inp['table_w'] == 'auto':
        if not (inp['tmin'] <= width <= inp['tmax']):
            return f'auto layout: table width {width} outside [{inp["tmin"]}, {inp["tmax"]}]'
        margins = sum(m for m in (inp['ml'], inp['mr']) if m != 'auto')
        avail = inp['cb'] - margins - inp['pl'] - inp['pr'] - inp['bl'] - inp['br']
        if inp['tmin'] <= avail <= inp['tmax'] and width != avail:
            return f'auto layout: available width {avail} lies between min and max content but width is {width}'
    elif width != max(inp['table_w'], inp['tmin']):
        return f'auto layout: specified width {inp["table_w"]}, min-content {inp["tmin"]}, used {width}'
    return None


def layout_widths(rec, html):
    """Column widths (logical order) the width algorithm computed for the table of this document."""
    for r in reversed(rec.auto + rec.fixed):
        if r.get('doc') and r['doc'][0] == html and 'out' in r:
            return r['out'][1]
    return None


def docmeta(record):
    html, info = record['doc']
    return {'html': html, 'info': info}


def doc_violation(html, info):
    """All C10 clauses stated directly on one rendered document (judge / search / replay)."""
    try:
        return _doc_violation(html, info)
    except tables.NotFinite as exc:
        return f'a used value of the rendered table is not finite ({exc})'


def _doc_violation(html, info):
    docs.quiet()
    rec = tables.Recorder()
    try:
        with rec.installed():
            document = docs.render(html)
    except Exception as exc:  # noqa: BLE001
        return f'render raised {type(exc).__name__}: {exc}'
    tol = F(1, 10**9)
    for r in rec.fixed:
        if 'out' in r:
            what = judge_fixed({'args': (r['table_w'], r['collapse'], r['spacing'], r['cols'], r['cells'])},
                               tables.fixed_out(*r['out']), tol)
            if what:
                return what
    for r in rec.auto:
        what = judge_auto({'args': r['inp']}, tables.fixed_out(*r['out']) +
                          (' ' + tables.MUTATED if r.get('mutated') else ''), tol)
        if what:
            return what
    for r in rec.excess:
        what = judge_excess({'args': (r['cols'], r['excess'], r['cw'], r['start'], r['stop'])},
                            'ok ' + tables.show_rats(r['out']), tol)
        if what:
            return what
    for r in rec.collapse:
        if r['violation']:
            return r['violation']
    for r in rec.wrapper:
        want = 'fixed' if r['fixed'] and r['width'][0] != 'auto' else 'auto'
        if r['out'][0] != want:
            return (f'table-layout:{"fixed" if r["fixed"] else "auto"} with width {r["width"]} was laid out by '
                    f'the {r["out"][0]} algorithm')
        border_box = r['w_out'] + r['pl'] + r['pr'] + r['bl'] + r['br']
        if abs(r['out'][2] - border_box) > tol * max(1, abs(border_box)):
            return f'table wrapper is {r["out"][2]} wide, the table border box {border_box}'
    frags = tables.table_fragments(document)
    # body rows of each fragment, identified by the indices table_layout sets on groups and rows
    all_rows = [[(getattr(g, 'index', None), getattr(r, 'index', None))
                 for g in t.children if not (g.is_header or g.is_footer) for r in g.children]
                for _, _, t in frags]
    prev_last = None
    widths = None
    for r in reversed(rec.auto + rec.fixed):
        if 'out' in r:
            widths = r['out'][1]
            break
    if any(t.style['border_collapse'] == 'collapse' for _, _, t in frags):
        # what reaches the PDF is what draw_collapsed_borders paints for the fragments, once each
        painted = tables.pipeline_border_lines(document)
        direct = []
        for _, _, t in frags:
            if t.style['border_collapse'] == 'collapse':
                calls, err = tables.painted_segments(t)
                if err:
                    return f'draw_collapsed_borders raised {err}'
                direct.extend((style, w, x1, y1, x2, y2) for style, w, _, _, x1, y1, x2, y2 in calls)
        if painted != direct:
            return (f'collapsed borders: writing the PDF painted {len(painted)} border lines, the collapsed '
                    f'borders of the {len(frags)} table fragment(s) are {len(direct)} lines'
                    + ('' if len(painted) != len(direct) else ' (same number, different lines or order)'))
    for k, ((_, _, t), frag_rows) in enumerate(zip(frags, all_rows)):
        what = tables.geometry_violation(t, widths) or tables.final_columns_violation(t, widths)
        if what:
            return what
        continued = bool(frag_rows) and prev_last == frag_rows[0]
        later = [r for rs in all_rows[k + 1:] for r in rs]
        cut_bottom = bool(frag_rows) and bool(later) and later[0] == frag_rows[-1]
        prev_last = frag_rows[-1] if frag_rows else prev_last
        what = tables.rows_violation(t, continued) or tables.columns_violation(t)
        if what:
            return what
        if t.style['border_collapse'] == 'collapse':
            what = tables.painted_violation(
                t, header_declared=bool(info['n_head']) if info else '<thead' in html,
                continued_top=continued if frag_rows else None, cut_bottom=cut_bottom if frag_rows else None)
            if what:
                return what
    if info and info.get('kinds'):
        what = tables.groups_violation(document, info)
        if what:
            return what
    if info:
        pag = tables.pagination_case(document, info)
        if pag is not None:
            return tables.pagination_violation(pag[0])
    return None


class C10(PropCheck):
    id = 'C10'
    heights_acc = []
    final_acc = []
    skip_acc = []
    draw_acc = []
    split_acc = []
    cols_acc = []
    extractors = (border_styles.generate,)
    modules = ('WpModel.Props.C10', 'WpModel.Props.C10Pages', 'WpModel.Props.C10Pref', 'WpModel.Props.C10Heights',
               'WpModel.Props.C10Split', 'WpModel.Props.C10CellWidth', 'WpModel.Props.C10Draw',
               'WpModel.Props.C10SplitBorders', 'WpModel.Props.C10Groups', 'WpModel.Props.C10Painted',
               'WpModel.Props.C10Document', 'WpModel.Props.C10Columns',
               'WpModel.Witness.C10')
    trusted_base = (
        'modelled, not verified: fixed_table_layout, auto_table_layout (given the preferred-width tuple), '
        'distribute_excess_width, the column/cell placement of table_layout, the cell skip-stack bookkeeping of '
        'group_layout, table_cell_min_max_content_width (given the children\'s widths), draw_collapsed_borders '
        '(observed through draw_line calls on a stub stream, not through the PDF content stream), the '
        'collapsed-split bookkeeping of table_layout',
    )
    assumptions = (
        'the float products `assignable * (1 ± 1e-9)` of auto_table_layout order like the rationals '
        '`assignable * (1 ± 10^-9)` (inputs within 1e-13 of an edge are skipped and counted)',
    )

    def correspondence(self, run):
        self.regressions(run)
        self.widths_direct(run)
        self.witnesses(run)
        self.preferred_direct(run)
        self.cellwidth_direct(run)
        self.borders_direct(run)
        self.documents(run)

    # -- rendered documents: recorded calls of the real functions + geometry of every table fragment
    def documents(self, run):
        docs.quiet()
        rng = run.rng
        rec = tables.Recorder()
        geom, rows, pages, clauses = [], [], [], []
        C10.heights_acc = []
        C10.final_acc = []
        C10.skip_acc = []
        C10.draw_acc = []
        C10.split_acc = []
        C10.cols_acc = []
        n_docs = run.n(420, 4200)
        render_errors = []
        predict, predict_notes = [], {}
        for i in range(n_docs):
            flavour = ('wide', 'paged', 'atomic', 'wide', 'paged', 'split', 'groups')[i % 7]
            html, info = (tables.g_atomic_doc(rng) if flavour == 'atomic' else
                          tables.g_split_doc(rng) if flavour == 'split' else
                          tables.g_groups_doc(rng) if flavour == 'groups' else tables.g_doc(rng, flavour))
            rec.current = (html, info)
            rec.layouts.clear()
            doc_meta = {'html': html, 'info': info}
            try:
                with rec.installed():
                    document = docs.render(html)
            except Exception as exc:  # noqa: BLE001 - reported through the section below
                render_errors.append((html, f'{type(exc).__name__}: {exc}', info))
                continue
            try:
                self.extract(document, info, doc_meta, geom, rows, pages, clauses, layout_widths(rec, html))
            except Exception as exc:  # noqa: BLE001 - e.g. a non-finite used value
                render_errors.append((html, f'extraction: {type(exc).__name__}: {exc}', info))
            try:
                cases, note = tables.layout_call_cases(rec.layouts)
            except tables.NotFinite:
                cases, note = [], 'not-finite'
            predict_notes[note or 'used'] = predict_notes.get(note or 'used', 0) + 1
            predict.extend((line, out, doc_meta, tags) for line, out, tags in cases)
            C10.skip_acc.extend((line, out, doc_meta, tags) for line, out, tags in
                                tables.cell_skip_cases(rec.layouts))
            C10.split_acc.extend((line, out, doc_meta, tags) for line, out, tags in
                                 tables.split_border_cases(rec.layouts))
        rec.layouts.clear()
        run.extra['pagination_model_documents'] = predict_notes
        self.feed_documents(run, rec, geom, rows, pages, clauses, render_errors, n_docs, predict)

    @staticmethod
    def extract(document, info, doc_meta, geom, rows, pages, clauses, widths=None):
        html = doc_meta['html']
        frags = tables.table_fragments(document)
        kind = [info['layout'], 'collapse' if info['collapse'] else 'separate', 'rtl' if info['rtl'] else 'ltr']
        pag = tables.pagination_case(document, info)
        split = pag is not None and 'split-row' in pag[1]
        prev_last = None
        all_rows = [tables.fragment_rows(t, info)[2] for _, _, t in frags]
        pipeline = tables.pipeline_border_lines(document) if info['collapse'] else None
        for k, (_, _, t) in enumerate(frags):
            args, out = tables.geom_case(t)
            geom.append((sx.line('geom', *args), out, doc_meta, kind))
            ccase = tables.column_boxes_case(t, k == 0)
            if ccase:
                C10.cols_acc.append((sx.line('columnboxes', *ccase[0]), ccase[1], doc_meta, ccase[2]))
            if info['collapse']:
                dargs, dout, dtags = tables.draw_borders_case(t, pipeline)
                if k == len(frags) - 1 and pipeline:
                    dout = f'pipeline-differs: {len(pipeline)} more lines painted after the last fragment'
                C10.draw_acc.append((sx.line('drawborders', *dargs), dout, doc_meta, kind + dtags))
            if widths is not None:
                C10.final_acc.append((sx.line('finalcols', not info['rtl'], list(widths), k),
                                      tables.show_rats(t.column_widths), doc_meta,
                                      kind + ['first-fragment' if k == 0 else 'later-fragment']))
            if len(frags) == 1:
                for g in t.children:
                    case = tables.row_heights_case(t, g)
                    if case:
                        valigns = {c.vertical_align for r in g.children for c in r.children}
                        C10.heights_acc.append((sx.line('rowheights', *case[0]), case[1], doc_meta,
                                                kind + sorted(valigns) +
                                                (['rowspan'] if any(c.rowspan > 1 for r in g.children
                                                                    for c in r.children) else []) +
                                                (['row-height'] if any(r.style['height'] != 'auto'
                                                                       for r in g.children) else [])))
            if k == 0:
                clauses.extend((line, impl, doc_meta, kind + [tag]) for line, impl, tag in tables.clause_cases(t, [f[2] for f in frags], widths))
            frag_rows = all_rows[k]
            continued = bool(frag_rows) and prev_last == frag_rows[0]
            prev_last = frag_rows[-1] if frag_rows else prev_last
            later = [r for rs in all_rows[k + 1:] for r in rs]
            split_last = bool(frag_rows) and bool(later) and later[0] == frag_rows[-1]
            C10.split_acc.extend((line, out, doc_meta, tags) for line, out, tags in
                                 tables.split_cell_y_cases(t, continued, bool(info['n_head'])))
            args, out, no_end = tables.rows_case(t, k == 0, continued, split_last)
            rows.append((sx.line('rows', *args, not no_end), out, doc_meta,
                         kind + ['continued-row'] if continued else kind))
        if pag is not None:
            args, notes, n_frags = pag
            pages.append((sx.line('frags', *args), 'ok', doc_meta,
                          kind + sorted(notes) + [f'fragments{min(n_frags, 6)}',
                                                  'thead' if info['n_head'] else 'no-thead',
                                                  'tfoot' if info['n_foot'] else 'no-tfoot',
                                                  f'caption-{info["caption"]}']))

    @staticmethod
    def feed_documents(run, rec, geom, rows, pages, clauses, render_errors, n_docs, predict=()):
        rounded = 0

        def feed(sec, cases, nontrivial=lambda line: True):
            nonlocal rounded
            outs = lean.run_driver(DRIVER, [c[0] for c in cases]) if cases else []
            seen = set()
            for (line, impl, doc_meta, tags), model in zip(cases, outs):
                if line in seen:
                    continue
                seen.add(line)
                snapped, k = tables.snap(impl, model)
                rounded += k
                meta = dict(doc_meta or {}, impl_exact=impl)
                meta['signature'] = f'{sec.name}:{hash(meta.get("html"))}'
                sec.add(line, snapped, meta=meta, nontrivial=nontrivial(line), tags=tags)

        sec = run.section(
            'render-ok', 'every generated table document renders without an exception and with finite geometry')
        sec.add(sx.line('frags', 0, False, False, True, []), 'ok' if not render_errors else render_errors[0][1],
                meta={'html': render_errors[0][0] if render_errors else None,
                      'info': render_errors[0][2] if render_errors else None}, tags=[f'docs{n_docs}'])
        feed(run.section(
            'doc-fixed', 'calls of fixed_table_layout recorded while rendering generated documents '
            '(inputs read from the real boxes); floats within 1e-9 relative of the rational result are '
            'counted as float_rounding; non-trivial = a declared width'),
            [(tables.fixed_line(sx, r['table_w'], r['collapse'], r['spacing'], r['cols'], r['cells']),
              tables.fixed_out(*r['out']), docmeta(r), [f'cols{len(r["out"][1])}']) for r in rec.fixed if 'out' in r])
        auto_cases = [r for r in rec.auto if not tables.auto_band_risk(r['inp'])]
        run.extra['float_rounding_skipped_doc_auto'] = len(rec.auto) - len(auto_cases)
        branches = lean.run_driver(DRIVER, [tables.auto_line(sx, r['inp'], 'autobranch') for r in auto_cases]) \
            if auto_cases else []
        feed(run.section(
            'doc-auto', 'calls of auto_table_layout recorded while rendering (the preferred-width tuple is '
            'the real one computed by table_and_columns_preferred_widths); tag = branch'),
            [(tables.auto_line(sx, r['inp']), tables.fixed_out(*r['out']) +
              (' ' + tables.MUTATED if r.get('mutated') else ''), docmeta(r), [b])
             for r, b in zip(auto_cases, branches)])
        feed(run.section(
            'doc-excess', 'calls of distribute_excess_width recorded while rendering (from auto_table_layout '
            'and from the colspan distribution of preferred.py, with column slices)'),
            [(tables.excess_line(sx, r['cols'], r['excess'], r['cw'], r['start'], r['stop']),
              'ok ' + tables.show_rats(r['out']), docmeta(r),
              ['sliced' if (r['start'], r['stop']) != (0, None) else 'full']) for r in rec.excess])
        feed(run.section(
            'doc-preferred', 'first computation of table_and_columns_preferred_widths for every table of the '
            'rendered documents: the intrinsic widths of the single cells / columns / groups are obtained from '
            'the real helpers, the function result (outer=False tuple) is compared with the model'),
            [(sx.line('preferred', *r['args']), r['out'], docmeta(r), []) for r in rec.preferred
             if not tables.preferred_unstable(r['out'])])
        feed(run.section(
            'doc-cell-widths', 'every cell of every table of the rendered documents, when the table\'s preferred '
            'widths are first computed: real table_cell_min_max_content_width (outer) against the model given '
            'the min/max-content widths of the cell\'s children from the real helpers (text, floats, absolutely '
            'positioned boxes, fixed-width blocks); non-trivial = a child out of normal flow'),
            [(r['line'], r['out'], docmeta(r), r['kinds']) for r in rec.cell_widths],
            nontrivial=lambda line: 'floated' in line or 'absolute' in line)
        feed(run.section(
            'doc-group-order', 'every call of build.wrap_table while building the box trees of the generated '
            'documents (several thead / tbody / tfoot in any order, by element or by display): which input row '
            'group is the header, which the footer, which are body groups and in which order they end up in '
            'table.children, against Model/TableGroupOrder (groups_once, header_is_first); non-trivial = more '
            'than one header or more than one footer group'),
            [(sx.line('grouporder', r['kinds']), tables.group_order_out(r['out']), docmeta(r),
              [f'headers{min(r["kinds"].count("header"), 2)}', f'footers{min(r["kinds"].count("footer"), 2)}'])
             for r in rec.group_orders],
            nontrivial=lambda line: line.count('header') > 1 or line.count('footer') > 1)
        feed(run.section(
            'doc-wrapper', 'calls of table_wrapper_width recorded while rendering: which algorithm ran (fixed iff '
            'table-layout:fixed and width not auto), the used table width it was given (percentage and '
            'box-sizing resolved), wrapper.width = border box of the table'),
            [(sx.line('wrapper', r['fixed'], tables.dim_wire(r['width']), r['cb'], r['pl'], r['pr'], r['bl'],
                      r['br'], r['sizing'], r['w_out']),
              f'{r["out"][0]} {sx.atom(r["out"][1])} {sx.atom(r["out"][2])}', docmeta(r),
              [r['out'][0], r['width'][0], r['sizing']]) for r in rec.wrapper])
        feed(run.section(
            'doc-borders', 'collapse_table_borders as called by build.wrap_table on the real box tree of '
            'generated documents (border-collapse: collapse)'),
            [(r['line'], r['out'], docmeta(r), []) for r in rec.collapse])
        feed(run.section(
            'doc-painted-borders', 'every fragment of every border-collapse table: the lines the real '
            'draw_collapsed_borders paints (draw_line calls recorded on a stub stream: style, width, colour, '
            'side, end points, in painting order; the same lines, in the same order, must be the ones painted '
            'while the document is really written to PDF, draw_line recorded during write_pdf()) against the model, given the border grids of the whole table '
            '(collapse_table_borders, compared in doc-borders), the fragment\'s row / column geometry, its '
            'repeated header / footer rows, skipped_rows and the skip_cell_border flags; non-trivial = a '
            'continuation fragment or a repeated header / footer'), list(C10.draw_acc),
            nontrivial=lambda line: ' 0 0 0 false false ' not in line)
        feed(run.section(
            'doc-geometry', 'every table fragment of every page: column_positions, column_widths (rtl: '
            'reversed), x/width of groups and rows, x / border-box width / clipped colspan of every cell, '
            'against the model run on the fragment\'s own column widths'), geom)
        feed(run.section(
            'doc-final-columns', 'every table fragment of every page: the column widths the fragment was laid '
            'out with (table.column_widths, visual order) against finalColumns of the widths computed by the '
            'width algorithm for this table (recorded call of fixed/auto_table_layout): the reversal for rtl is '
            'a copy, no layout pass may see the widths of another pass (regression of '
            'rtl-columns-reversed-on-relayout)'), list(C10.final_acc))
        feed(run.section(
            'doc-columns', 'every table fragment with <col> / <colgroup>: the boxes table_layout gives the columns '
            '(x / width of their grid column, the rows\' origin and height; an empty box beyond the grid) and the '
            'column groups (from the first column\'s x over last.x + last.width - first.x), against '
            'Model/TableColumns given the logical column positions and widths; non-trivial = a group of several '
            'columns'), list(C10.cols_acc), nontrivial=lambda line: True)
        feed(run.section(
            'doc-clauses', 'first fragment of every table: table.width against the width that goes with the '
            'laid-out columns (fixed: sum + (n+1) spacings; auto: sum + one spacing per column with an '
            'originating cell + 1, as preferred.py counts them), and every auto-layout cell at least as wide '
            'as its widest word (fixed-pitch font): ties preferred.py, which is not modelled, to the clauses'),
            clauses)
        feed(run.section(
            'doc-rows', 'every table fragment: y/height of row groups, y of rows, table height, y and '
            'border-box height of every cell (rowspan included), given the row heights'), rows)
        feed(run.section(
            'doc-rowheights', 'row groups of tables laid out in one fragment: the cells\' boxes before the '
            'alignment passes are reconstructed (computed paddings, content height, kept baseline) and the '
            'row height algorithm of group_layout (baseline alignment, ending_cells_by_row for rowspans, auto '
            'or specified row height, vertical-align stretching, stacking) is compared: y / height / baseline '
            'of each row, final top/bottom padding of each cell'), list(C10.heights_acc))
        feed(run.section(
            'doc-pagination', 'checker (Lean, with soundness theorems) on the fragments of each split table: '
            'body rows once and in order (a row cut by the break is merged), header/footer present when they '
            'fit with the first row, never alone; the implementation side is the constant `ok`; '
            'non-trivial = more than one fragment'), pages,
            nontrivial=lambda line: line.count('(true') + line.count('(false') > 1)
        feed(run.section(
            'doc-split-borders', 'every recorded table_layout call of a border-collapse table that places a '
            'fragment: skipped_rows (rows of the whole table before the row where the fragment resumes), '
            'split_cells, the border_top_width the call leaves on the table (half the widest border of the '
            'line above the resumed row, unless a header is repeated or cells are split) and the '
            'skip_cell_border_top / bottom flags; and for the first body row of every fragment where its cells '
            'start (below the repeated header\'s bottom border when the row continues a cut row) and that they '
            'end at the bottom of the row; against '
            'Model/TableSplitBorders; non-trivial = a continuation'),
            list(C10.split_acc), nontrivial=lambda line: not line.startswith('splitborders none') and ' false (' not in line)
        feed(run.section(
            'doc-cell-skips', 'every block_container_layout call made for a table cell while rendering, and every '
            'table_layout call that ends inside a row: the skip stack given to the cell (the one stored under its '
            'index in the row when the row is resumed, {len(children): None} for a finished cell, None elsewhere) '
            'and the resume dict of a broken row (cell index -> where that cell stopped) against '
            'Model/TableCellSplit (split_roundtrip); non-trivial = a cell of a resumed row'),
            list(C10.skip_acc), nontrivial=lambda line: not line.startswith('cellskip none'))
        feed(run.section(
            'doc-pages-predict', 'every call of table_layout recorded while rendering tables whose rows are '
            'never split (skip stack, bottom space, page-is-empty flag, page bottom, row heights and break '
            'properties in; header/footer kept, row groups and rows placed with y/height, resume_at, '
            'next_page break, end y out) against the predictive Lean model of group_layout / '
            'body_groups_layout / all_groups_layout; includes the calls whose result the caller discards'),
            list(predict))
        run.extra['float_rounding'] = rounded

    # -- corpus first: the documents of the repaired findings, rendered, against the model
    def regressions(self, run):
        sec = run.section(
            'regression-replay', 'the documents of the repaired findings rendered on the real code, the recorded '
            'call compared with the model: fixed-negative-column (5d962d2: fixed_table_layout called by the '
            'render, no negative column), rtl-columns-reversed-on-relayout (d13f52d: every fragment of the rtl '
            'table whose bottom border overflows the page shows finalColumns of the computed widths), '
            'collapsed-footer-line-off-by-one (4d1447f) and collapsed-dropped-header-shifts-borders (02afb22): '
            'every fragment of the two documents painted by the real draw_collapsed_borders against the model; '
            'a fixed family of collapsed tables with one row cut by a page break and further fragments after it '
            '(with / without header / footer): skipped_rows, border_top_width and the skip_cell_border flags of '
            'every table_layout call, and the painted lines of every fragment')
        docs.quiet()
        for name, html, replay_fn in (('collapsed-footer-line-off-by-one', FOOTER_LINE_HTML, footer_line_replay),
                                      ('collapsed-dropped-header-shifts-borders', DROPPED_HEADER_HTML,
                                       dropped_header_replay)):
            back = replay_fn()
            for _, _, t in tables.table_fragments(docs.render(html)):
                dargs, dout, _ = tables.draw_borders_case(t)
                sec.add(sx.line('drawborders', *dargs), dout if not back else f'regressed:{name}',
                        meta={'html': html, 'info': None}, tags=[name])
        # fixed family: collapsed tables without header / footer, one row cut by a page break, further
        # fragments after it: the split bookkeeping of every table_layout call (skip flags included) and the
        # painted lines of every fragment
        for name, html in SPLIT_FLAG_FAMILY:
            rec = tables.Recorder()
            rec.current = (html, None)
            with rec.installed():
                document = docs.render(html)
            meta = {'html': html, 'info': None}
            seen = set()
            for line, out, tags in tables.split_border_cases(rec.layouts):
                if line not in seen:
                    seen.add(line)
                    sec.add(line, out, meta=meta, tags=[name])
            for _, _, t in tables.table_fragments(document):
                dargs, dout, _ = tables.draw_borders_case(t)
                line = sx.line('drawborders', *dargs)
                if line not in seen:
                    seen.add(line)
                    sec.add(line, dout, meta=meta, tags=[name])
        for name, html, replay_fn in (('fixed-negative-column', NEGATIVE_COLUMN_HTML, negative_column_replay),
                                      ('rtl-columns-reversed-on-relayout', RTL_REVERSED_HTML, rtl_reversed_replay)):
            rec = tables.Recorder()
            rec.current = (html, None)
            with rec.installed():
                document = docs.render(html)
            meta = {'html': html, 'info': None}
            back = replay_fn()
            for r in rec.fixed:
                if 'out' in r:
                    sec.add(tables.fixed_line(sx, r['table_w'], r['collapse'], r['spacing'], r['cols'], r['cells']),
                            tables.fixed_out(*r['out']) if not back else f'regressed:{name}', meta=meta,
                            tags=[name])
            widths = layout_widths(rec, html)
            seen = set()
            for _, _, t in tables.table_fragments(document):
                line = sx.line('finalcols', t.style['direction'] == 'ltr', list(widths))
                out = tables.show_rats(t.column_widths) if not back else f'regressed:{name}'
                if (line, out) not in seen:
                    seen.add((line, out))
                    sec.add(line, out, meta=meta, tags=[name])

    # -- the inputs of Witness/C10.lean replayed on the real functions
    def witnesses(self, run):
        sec = run.section(
            'witness-replay', 'the concrete inputs of the Witness theorems (hypotheses of the _partial theorems '
            'are necessary) and of the regression theorems run on the real functions and compared with the '
            'model: fixed_negative_column_repaired (no negative column since 5d962d2), auto_band_below_min '
            '(CleanBand is necessary for auto_ge_min), auto_spacing_short')
        args = (F(60), False, F(0), [('px', F(100)), ('auto',)], [(2, ('px', F(50)), F(0), F(0), F(0), F(0), 'content')])
        out = tables.call_fixed(*args)
        sec.add(tables.fixed_line(sx, *args), out, meta={'args': args},
                tags=['negative-column' if '-' in out else 'repaired'])
        eps = F(1, 10**9)
        band = {'table_w': F(400), 'tmin': F(200), 'tmax': F(1000), 'spacing': F(0), 'ml': F(0), 'mr': F(0),
                'pl': F(0), 'pr': F(0), 'bl': F(0), 'br': F(0), 'cb': F(1000),
                'cols': [(F(100), F(100) + 120 * eps, F(0), True, True), (F(100), F(300), F(0), False, True),
                         (F(0), F(500), 50 * (1 + F(4, 10) * eps), False, True)]}
        out = tables.call_auto(band)
        below = out.startswith('ok') and parse_out(out)[1][0] < 100
        sec.add(tables.auto_line(sx, band), out, meta={'args': band}, tags=['below-min' if below else 'not-below'])
        short = {'table_w': 'auto', 'tmin': F(50), 'tmax': F(50), 'spacing': F(20), 'ml': F(0), 'mr': F(0),
                 'pl': F(0), 'pr': F(0), 'bl': F(0), 'br': F(0), 'cb': F(400),
                 'cols': [(F(15), F(15), F(0), False, True), (F(15), F(15), F(0), False, True)]}
        sec.add(tables.auto_line(sx, short), tables.call_auto(short), meta={'args': short}, tags=['spacing-short'])
        # rtl_column_group_negative_width: the fragment of RTL_COLGROUP_HTML laid out by the real table_layout
        docs.quiet()
        for _, _, t in tables.table_fragments(docs.render(RTL_COLGROUP_HTML)):
            ccase = tables.column_boxes_case(t, True)
            if ccase:
                sec.add(sx.line('columnboxes', *ccase[0]), ccase[1], meta={'html': RTL_COLGROUP_HTML, 'info': None},
                        tags=['rtl-colgroup-negative' if ' -2 ' in ccase[1] else 'rtl-colgroup-repaired'])
        # footer_line_off_by_one: the first fragment of FOOTER_LINE_HTML, painted by the real function
        docs.quiet()
        frags = tables.table_fragments(docs.render(FOOTER_LINE_HTML))
        if frags:
            dargs, dout, _ = tables.draw_borders_case(frags[0][2])
            sec.add(sx.line('drawborders', *dargs), dout, meta={'html': FOOTER_LINE_HTML, 'info': None},
                    tags=['footer-line-off-by-one' if ' 20 10 20' in dout else 'footer-line-repaired'])

    # -- table_and_columns_preferred_widths on mock tables (intrinsic widths of single boxes stubbed)
    def preferred_direct(self, run):
        rng = run.rng
        sec = run.section(
            'preferred-direct', 'real table_and_columns_preferred_widths on mock tables (1..5 columns, 1..4 rows, '
            'colspan/rowspan/holes, col and colgroup boxes, widths auto/px/%, min/max-width %), the intrinsic '
            'widths of the single boxes given as attributes (the three text-measuring helpers are stubbed); '
            'compares table min/max-content width, per-column min/max/percentage/constrainedness, total '
            'spacing; the large-percentage denominator is an int/int float in the code: tmax may be snapped')
        cases = []
        unstable = 0
        for i in range(run.n(1500, 25000)):
            spec = tables.g_pref_spec(rng, i % 5 == 4)
            args, out = tables.call_preferred(spec)
            if not any(args[2]):
                continue                      # empty grid: another path of the code, not modelled
            if tables.preferred_unstable(out):
                unstable += 1
                continue
            spans = {c[1] for r in args[2] for c in r}
            cases.append((sx.line('preferred', *args), out, {'spec': spec},
                          ['adv' if i % 5 == 4 else 'valid', f'maxspan{max(spans)}',
                           'collapse' if args[0] else 'separate',
                           'pct' if ' (pct ' in sx.line('x', args[2]) else 'no-pct']))
        outs = lean.run_driver(DRIVER, [c[0] for c in cases])
        rounded = 0
        for (line, impl, meta, tags), model in zip(cases, outs):
            snapped, k = tables.snap(impl, model)
            rounded += k
            sec.add(line, snapped, meta=dict(meta, impl_exact=impl), nontrivial='maxspan1' not in tags, tags=tags)
        run.extra['float_rounding_preferred_direct'] = rounded
        run.extra['float_unstable_preferred_direct'] = unstable

    # -- table_cell_min_max_content_width on mock cells (children's intrinsic widths stubbed)
    def cellwidth_direct(self, run):
        rng = run.rng
        sec = run.section(
            'cellwidth-direct', 'real table_cell_min_max_content_width on mock cells with 0..5 children (in flow, '
            'floated, running, footnote, absolute, fixed; their min/max-content widths stubbed), width auto/px/%, '
            'px min/max-width, px/%/auto margins and paddings, both border models (used border widths when '
            'collapsing), outer and inner; inner widths exact (Fractions), outer widths are floats in the code '
            '(`1 - percentages / 100`) and snapped within 1e-9; non-trivial = a child that is out of normal flow')
        cases = []
        for i in range(run.n(1500, 20000)):
            spec = tables.g_cell_spec(rng, i % 5 == 4)
            args, out = tables.call_cell_widths(spec)
            kinds = {c[2] for c in spec['children']}
            cases.append((sx.line('cellwidths', *args), out, spec, bool(kinds - {'static'}),
                          ['adv' if i % 5 == 4 else 'valid', 'outer' if spec['outer'] else 'inner'] + sorted(kinds)))
        models = lean.run_driver(DRIVER, [c[0] for c in cases])
        rounded = 0
        for (line, out, spec, nontrivial, tags), model in zip(cases, models):
            # margin_width divides by the float `1 - percentages / 100`: outer widths are floats
            snapped, k = tables.snap(out, model, whole=True) if spec['outer'] else (out, 0)
            rounded += k
            sec.add(line, snapped, meta={'cellspec': spec, 'impl_exact': out}, nontrivial=nontrivial, tags=tags)
        run.extra['float_rounding_cellwidth_direct'] = rounded

    # -- collapse_table_borders on hand-built real box trees
    def borders_direct(self, run):
        rng = run.rng
        sec = run.section(
            'borders-direct', 'real collapse_table_borders on hand-built TableBox trees (1..6 columns, 1..3 row '
            'groups, colspan/rowspan, col/colgroup, ltr/rtl, all ten styles), adversarial = grid size not '
            'matching the cells; compares both border grids (score + stored border) and the used widths of '
            'every cell and of the table; non-trivial = at least two different non-none offers')
        for i in range(run.n(1500, 30000)):
            adv = i % 6 == 5
            spec, gw, gh = tables.g_border_spec(rng, adv)
            colors = tables.ColorIds()
            table = tables.build_border_table(spec)
            line = sx.line('collapse', *tables.border_table_wire(table, gw, gh, colors))
            out = tables.call_collapse(table, gw, gh, colors)
            tags = ['adv' if adv else 'valid', 'ltr' if spec['ltr'] else 'rtl', f'gw{gw}']
            if out.startswith('err'):
                tags.append(out)
            sec.add(line, out, meta={'spec': spec, 'gw': gw, 'gh': gh}, nontrivial=gw * gh > 1, tags=tags)

    # -- direct calls with mock boxes and Fractions
    def widths_direct(self, run):
        rng = run.rng
        sec = run.section(
            'fixed-direct', 'real fixed_table_layout on mock wrapper/table/col/cell boxes with Fractions, '
            '0..6 <col>s (auto/px/%), 0..6 first-row cells (colspan, width, padding, border, box-sizing), '
            'plus an adversarial stream; non-trivial = at least one declared width; exact, except that the '
            'clamp `max(width, 0) / len(...)` of an infeasible first-row cell yields the float 0.0 (int / int) '
            'and turns the later sums into floats: those results are snapped to the model within 1e-9 '
            'relative and counted (float_rounding_fixed_direct); tag clamped = the model took that branch')
        cases = []
        for i in range(run.n(4000, 60000)):
            adv = i % 5 == 4
            args = g_fixed(rng, adv)
            out = tables.call_fixed(*args)
            nontrivial = any(d[0] != 'auto' for d in args[3]) or any(c[1][0] != 'auto' for c in args[4])
            tags = ['adv' if adv else 'valid', f'cols{len(args[3])}', f'cells{len(args[4])}']
            if out.startswith('err'):
                tags.append(out)
            cases.append((tables.fixed_line(sx, *args), out, args, nontrivial, tags))
        models = lean.run_driver(DRIVER, [c[0] for c in cases])
        clamped = lean.run_driver(DRIVER, [c[0].replace('fixed ', 'fixedclamped ', 1) for c in cases])
        rounded = 0
        for (line, out, args, nontrivial, tags), model, cl in zip(cases, models, clamped):
            snapped, k = (tables.snap(out, model, whole=True) if cl == 'true' else (out, 0))
            rounded += k
            sec.add(line, snapped, meta={'args': args, 'impl_exact': out}, nontrivial=nontrivial,
                    tags=tags + (['clamped'] if cl == 'true' else []))
        run.extra['float_rounding_fixed_direct'] = rounded

        sec = run.section(
            'excess-direct', 'real distribute_excess_width on lists of Fractions, 0..6 columns, with and '
            'without a column slice; non-trivial = non-empty slice; tag = the group used (from the model)')
        cases = [g_excess(rng, i % 5 == 4) for i in range(run.n(4000, 60000))]
        groups = lean.run_driver(DRIVER, [sx.line('excessgroup', [list(c) for c in a[0]], a[3], a[4])
                                          for a in cases])
        for args, group in zip(cases, groups):
            out = tables.call_excess(*args)
            sec.add(tables.excess_line(sx, *args), out, meta={'args': args}, nontrivial=group != 'group0',
                    tags=[group, 'sliced' if (args[3], args[4]) != (0, None) else 'full'])

        sec = run.section(
            'auto-direct', 'real auto_table_layout with the preferred-width tuple injected through '
            'context.tables (Fractions), 0..6 columns; non-trivial = has columns; tag = branch (from the model)')
        cases = []
        skipped = 0
        for i in range(run.n(4000, 60000)):
            inp = g_auto(rng, i % 5 == 4)
            if tables.auto_band_risk(inp):
                skipped += 1
                continue
            cases.append(inp)
        run.extra['float_rounding_skipped_auto'] = skipped
        branches = lean.run_driver(DRIVER, [tables.auto_line(sx, inp, 'autobranch') for inp in cases])
        for inp, branch in zip(cases, branches):
            out = tables.call_auto(inp)
            sec.add(tables.auto_line(sx, inp), out, meta={'args': inp}, nontrivial=bool(inp['cols']),
                    tags=[branch, 'w-auto' if inp['table_w'] == 'auto' else 'w-set'])

    def judge(self, d):
        meta = d.get('meta') or {}
        section = d['section']
        if section == 'fixed-direct':
            # the clamp branch computes in floats (see the section's rule)
            return judge_fixed(meta, meta.get('impl_exact', d['impl']), F(1, 10**9))
        if section == 'excess-direct':
            return judge_excess(meta, d['impl'])
        if section == 'auto-direct':
            return judge_auto(meta, d['impl'])
        if section == 'witness-replay':
            if 'args' in meta and isinstance(meta['args'], (tuple, list)):
                return judge_fixed(meta, d['impl'], F(1, 10**9))
            if meta.get('html'):
                return doc_violation(meta['html'], meta.get('info'))
            return None
        if section == 'preferred-direct':
            return judge_preferred(meta, d['impl'])
        if section == 'cellwidth-direct':
            return tables.cell_widths_violation(meta['cellspec'], meta.get('impl_exact', d['impl']))
        if section == 'borders-direct':
            if d['impl'].startswith('err:'):
                return None
            table = tables.build_border_table(meta['spec'])
            table_mod = tables._mods()[2]
            result = table_mod.collapse_table_borders(table, meta['gw'], meta['gh'])
            return tables.border_violation(table, meta['gw'], meta['gh'], result)
        if meta.get('html'):
            return doc_violation(meta['html'], meta.get('info'))
        return None

    def search(self, run, failures):
        """Fresh generated documents and direct calls, judged by the clauses stated in Python."""
        import random
        import time
        rng = random.Random(f'C10-search:{run.seed}')
        found = []
        start = time.time()
        for gen, call, judge_fn, name in (
                (g_fixed, lambda a: tables.call_fixed(*a),
                 lambda m, o: judge_fixed(m, o, F(1, 10**9)), 'fixed_table_layout'),
                (g_excess, lambda a: tables.call_excess(*a), judge_excess, 'distribute_excess_width'),
                (g_auto, tables.call_auto, judge_auto, 'auto_table_layout')):
            for _ in range(3000):
                args = gen(rng, False)
                run.search_stats['evaluations'] += 1
                what = judge_fn({'args': args}, call(args))
                if what:
                    found.append({'what': what, 'input': {'function': name, 'args': args},
                                  'signature': f'search:{name}'})
                    break
        for _ in range(2000):
            spec = tables.g_pref_spec(rng, False)
            run.search_stats['evaluations'] += 1
            what = judge_preferred({'spec': spec}, tables.call_preferred(spec)[1])
            if what:
                found.append({'what': what, 'input': {'function': 'table_and_columns_preferred_widths',
                                                      'spec': spec}, 'signature': 'search:preferred'})
                break
        for _ in range(2000):
            spec, gw, gh = tables.g_border_spec(rng, False)
            table = tables.build_border_table(spec)
            run.search_stats['evaluations'] += 1
            try:
                result = tables._mods()[2].collapse_table_borders(table, gw, gh)
                what = tables.border_violation(table, gw, gh, result)
            except Exception as exc:  # noqa: BLE001
                what = f'collapse_table_borders raised {type(exc).__name__} on a well-formed grid'
            if what:
                found.append({'what': what, 'input': {'function': 'collapse_table_borders', 'spec': spec,
                                                      'gw': gw, 'gh': gh}, 'signature': 'search:borders'})
                break
        i = 0
        while time.time() - start < (240 if run.thorough else 60) and len(found) < 3:
            html, info = (tables.g_split_doc(rng) if i % 4 == 2 else tables.g_groups_doc(rng) if i % 4 == 3 else
                          tables.g_doc(rng, 'paged' if i % 2 else 'wide'))
            i += 1
            run.search_stats['evaluations'] += 1
            what = doc_violation(html, info)
            if what and not self._known(what):
                found.append({'what': what, 'input': {'html': html, 'info': info},
                              'signature': 'search:' + what[:40]})
        return found

    @staticmethod
    def _known(what):
        return False

    def finding_replays(self):
        # fixed-negative-column (5d962d2) and rtl-columns-reversed-on-relayout (d13f52d) are repaired:
        # their replay functions are regression cases of the corpus-first section `regression-replay`
        return {'auto-spacing-ignores-spanned-only-column': spanned_only_replay,
                # collapsed-footer-line-off-by-one (4d1447f) and collapsed-dropped-header-shifts-borders
                # (02afb22) are repaired: regression cases of `regression-replay`
                'collapsed-dropped-header-top-border': dropped_header_top_replay,
                'collapsed-rtl-clipped-grid': rtl_clipped_replay,
                'rtl-column-group-negative-width': rtl_colgroup_replay}

    def replay(self, data):
        inp = data.get('input', {})
        if 'html' in inp:
            return doc_violation(inp['html'], inp.get('info'))
        meta = inp.get('meta') or {}
        if meta.get('html'):
            return doc_violation(meta['html'], meta.get('info'))
        if 'section' in inp:
            d = revive(inp)
            args = d['meta'].get('args')
            # direct sections: call the real function again on the recorded arguments
            if d['section'] == 'fixed-direct':
                d['impl'] = tables.call_fixed(*args)
                d['meta'].pop('impl_exact', None)
            elif d['section'] == 'excess-direct':
                d['impl'] = tables.call_excess(*args)
            elif d['section'] == 'auto-direct':
                d['impl'] = tables.call_auto(args)
            elif d['section'] == 'cellwidth-direct':
                spec = d['meta']['cellspec']
                spec['children'] = [tuple(c) for c in spec['children']]
                for key in ('width', 'ml', 'mr', 'pl', 'pr'):
                    spec[key] = tuple(spec[key])
                d['impl'] = tables.call_cell_widths(spec)[1]
                d['meta'].pop('impl_exact', None)
            return self.judge(d)
        fn = inp.get('function')
        if fn == 'fixed_table_layout':
            args = revive_value(inp['args'])
            return judge_fixed({'args': args}, tables.call_fixed(*args), F(1, 10**9))
        if fn == 'distribute_excess_width':
            args = revive_value(inp['args'])
            return judge_excess({'args': args}, tables.call_excess(*args))
        if fn == 'auto_table_layout':
            args = revive_value(inp['args'])
            return judge_auto({'args': args}, tables.call_auto(args))
        if fn == 'table_and_columns_preferred_widths':
            spec = revive_value(inp['spec'])
            spec['rows'] = [[(c[0], c[1], c[2], tuple(tuple(x) if isinstance(x, list) else x for x in c[3]))
                             for c in row] for row in spec['rows']]
            spec['colgroups'] = [(tuple(tuple(x) if isinstance(x, list) else x for x in g),
                                  [tuple(tuple(x) if isinstance(x, list) else x for x in c) for c in cols])
                                 for g, cols in spec['colgroups']]
            spec['width'] = tuple(spec['width'])
            return judge_preferred({'spec': spec}, tables.call_preferred(spec)[1])
        if fn == 'collapse_table_borders':
            spec = revive_value(inp['spec'])
            table = tables.build_border_table(spec)
            result = tables._mods()[2].collapse_table_borders(table, inp['gw'], inp['gh'])
            return tables.border_violation(table, inp['gw'], inp['gh'], result)
        return None


def revive_value(x):
    """JSON (written with default=str) back to Fractions / tuples: 'n/d' strings become Fractions."""
    if isinstance(x, str):
        try:
            return F(x)
        except (ValueError, ZeroDivisionError):
            return x
    if isinstance(x, list):
        return [revive_value(y) for y in x]
    if isinstance(x, dict):
        return {k: revive_value(v) for k, v in x.items()}
    return x


def revive(d):
    out = dict(d)
    meta = dict(d.get('meta') or {})
    for key in ('args', 'spec', 'cellspec'):
        if key in meta:
            meta[key] = revive_value(meta[key])
    out['meta'] = meta
    return out


NEGATIVE_COLUMN_HTML = (
    '<style>@page{size:400px 400px;margin:0}body{margin:0;font-size:10px}td{padding:0}</style>'
    '<table style="table-layout:fixed;width:60px;border-spacing:0"><col style="width:100px"><col>'
    '<tr><td colspan=2 style="width:50px">a</td></tr><tr><td>b</td><td>c</td></tr></table>')


SPANNED_ONLY_HTML = (
    '<style>@page{size:400px 400px;margin:0}body{margin:0;font:10px weasyprint;line-height:10px}td{padding:0}'
    '</style><table style="border-spacing:10px"><tr><td colspan=2>aaaa</td></tr></table>')


def spanned_only_replay():
    """Known finding auto-spacing-ignores-spanned-only-column: columns + (n+1) spacings exceed the
    table width by one spacing per column in which no cell originates."""
    docs.quiet()
    document = docs.render(SPANNED_ONLY_HTML)
    for _, _, t in tables.table_fragments(document):
        s = t.style['border_spacing'][0]
        n = len(t.column_widths)
        if abs(sum(t.column_widths) + (n + 1) * s - t.width) > 1e-6:
            return True
    return False


FOOTER_LINE_HTML = (
    '<style>@page{size:200px 50px;margin:0}body{margin:0;font:10px weasyprint;line-height:10px}'
    'table{border-collapse:collapse}td{padding:0;border:0 solid black}</style>'
    '<table><tfoot><tr><td>f</td></tr></tfoot><tbody><tr><td>a</td></tr><tr><td>b</td></tr><tr><td>c</td></tr>'
    '<tr><td>d</td></tr><tr style="border-top:4px solid red"><td>e</td></tr></tbody></table>')


def footer_line_replay():
    """Former finding collapsed-footer-line-off-by-one (repaired by 4d1447f; regression case): on the first page (rows a, b, c and the repeated
    footer) draw_collapsed_borders paints the 4px red top border of row e (next page) between b and c,
    whose cells have used border widths 0."""
    docs.quiet()
    document = docs.render(FOOTER_LINE_HTML)
    frags = tables.table_fragments(document)
    if len(frags) < 2:
        return False
    calls, err = tables.painted_segments(frags[0][2])
    return err is None and any(w == 4 and side == 'top' and y1 == 20 for _, w, _, side, _, y1, _, _ in calls)


DROPPED_HEADER_HTML = (
    '<style>@page{size:200px 60px;margin:0}body{margin:0;font:10px weasyprint;line-height:10px}'
    'table{border-collapse:collapse}td{padding:0;border:0 solid black}</style>'
    '<table><thead><tr><td style="height:55px">h</td></tr></thead><tbody><tr><td>a</td></tr>'
    '<tr style="border-top:4px solid red"><td>b</td></tr><tr><td>c</td></tr></tbody></table>')


def dropped_header_top_replay():
    """Known finding collapsed-dropped-header-top-border: the thead does not fit and is dropped, but
    `has_header` (declared) keeps the header's top border (0) reserved above every fragment: the 4px top
    line of the first body row is painted half outside the table box."""
    docs.quiet()
    document = docs.render(DROPPED_HEADER_TOP_HTML)
    for _, _, t in tables.table_fragments(document):
        if t.children and t.children[0].is_header:
            return False
        what = tables.painted_violation(t, known=False, header_declared=True)
        if what and 'the layout reserved' in what:
            return True
    return False


DROPPED_HEADER_TOP_HTML = (
    '<style>@page{size:200px 60px;margin:0}body{margin:0;font:10px weasyprint;line-height:10px}'
    'table{border-collapse:collapse}td{padding:0;border:4px solid red}'
    'thead td{border:0 solid black;height:55px}</style>'
    '<table><thead><tr><td>h</td></tr></thead><tbody>' +
    ''.join(f'<tr><td>{c}</td></tr>' for c in 'abcdefg') + '</tbody></table>')


def dropped_header_replay():
    """Former finding collapsed-dropped-header-shifts-borders (repaired by 02afb22; regression case): the header does not fit and is dropped, the
    first fragment shows a, b, c; the red line above b is painted one row too low (under b)."""
    docs.quiet()
    document = docs.render(DROPPED_HEADER_HTML)
    frags = tables.table_fragments(document)
    if not frags or (frags[0][2].children and frags[0][2].children[0].is_header):
        return False
    t = frags[0][2]
    rows = [r for g in t.children for r in g.children]
    calls, err = tables.painted_segments(t)
    under_b = rows[1].position_y + rows[1].height if len(rows) > 1 else None
    return err is None and any(w == 4 and side == 'top' and y1 == under_b for _, w, _, side, _, y1, _, _ in calls)


RTL_CLIPPED_HTML = (
    '<style>@page{size:300px 100px;margin:0}body{margin:0;font:10px weasyprint;line-height:10px}'
    'table{border-collapse:collapse;table-layout:fixed;width:100px;direction:rtl}'
    'td{padding:0;border:1px solid black}</style>'
    '<table><tr><td>a</td></tr><tr><td style="border:5px solid red">b</td><td>c</td></tr></table>')


def rtl_clipped_replay():
    """Known finding collapsed-rtl-clipped-grid: cell b (used border widths 2.5 = half of its 5px red
    border) is painted with the 1px borders of the dropped cell c."""
    docs.quiet()
    document = docs.render(RTL_CLIPPED_HTML)
    for _, _, t in tables.table_fragments(document):
        what = tables.painted_violation(t, known=False)
        if what and 'painted 1' in what:
            return True
    return False


RTL_COLGROUP_HTML = (
    '<style>@page{size:300px 100px;margin:0}body{margin:0;font:10px weasyprint;line-height:10px}td{padding:0}'
    '</style><table style="direction:rtl;border-spacing:2px;width:100px;table-layout:fixed">'
    '<colgroup style="background:red"><col style="width:20px"><col style="width:30px"></colgroup><col>'
    '<tr><td>a</td><td>b</td><td>c</td></tr></table>')


def rtl_colgroup_replay():
    """Known finding rtl-column-group-negative-width: the <colgroup> of the first two columns of the rtl
    table gets the box x=78, width -2 (its columns reach from x=46 to x=98)."""
    docs.quiet()
    document = docs.render(RTL_COLGROUP_HTML)
    return any(g.width < 0 for _, _, t in tables.table_fragments(document) for g in t.column_groups)


def _split_flag_doc(head, foot, cut_row):
    css = ('@page{size:200px 60px;margin:0}body{margin:0;font:10px weasyprint;line-height:10px}'
           'table{border-collapse:collapse;width:100px}td{padding:0;border:2px solid black;vertical-align:top}')
    tall = '<br>'.join(f'c{i}' for i in range(8))
    rows = ['<tr><td>a</td><td>b</td></tr>'] + [f'<tr><td>e{i}</td><td>f</td></tr>' for i in range(9)]
    rows.insert(cut_row, f'<tr><td>{tall}</td><td>d</td></tr>')
    return (f'<style>{css}</style><table>' + ('<thead><tr><td>h</td><td>h</td></tr></thead>' if head else '') +
            ('<tfoot><tr><td>g</td><td>g</td></tr></tfoot>' if foot else '') +
            '<tbody>' + ''.join(rows) + '</tbody></table>')


SPLIT_FLAG_FAMILY = [(f'split-flags-{"h" if h else ""}{"f" if f else ""}-{c}', _split_flag_doc(h, f, c))
                     for h, f, c in ((False, False, 1), (False, False, 3), (True, False, 1), (False, True, 1))]


RTL_REVERSED_HTML = (
    '<style>@page{size:200px 100px;margin:0}body{margin:0;font:17px weasyprint;line-height:17px}td{padding:0}'
    '</style><p style="margin:0">x</p><table style="direction:rtl;border:8px solid black;border-spacing:0">' +
    '<tr><td>a</td><td>bbbb</td></tr>' * 4 + '</table>')


def rtl_reversed_replay():
    """Former finding rtl-columns-reversed-on-relayout (repaired by d13f52d; regression case): on the
    first page the cell holding `bbbb` (68px) was 17px wide and the cell holding `a` 68px wide."""
    docs.quiet()
    document = docs.render(RTL_REVERSED_HTML)
    for _, _, t in tables.table_fragments(document):
        for g in t.children:
            for r in g.children:
                for c in r.children:
                    if tables.cell_texts(c) == 'bbbb' and c.width < 68:
                        return True
    return False


def negative_column_replay():
    """Former finding fixed-negative-column (repaired by 5d962d2; regression case): a first-row cell
    narrower than the declared width of a column it spans gave the other spanned column a negative
    width."""
    docs.quiet()
    document = docs.render(NEGATIVE_COLUMN_HTML)
    return any(w < 0 for _, _, t in tables.table_fragments(document) for w in t.column_widths)


PROP = C10()

MANIFEST = {
    'design_ref': 'DESIGN.md §4 C10',
    'technique': 'Lean 4 theorems over hand-written executable models of the table algorithms of layout/table.py '
                 '(fixed and auto width distribution, excess-width groups, column/cell placement, collapsed-border '
                 'conflict resolution with the style order regenerated from the source each run); exact executable '
                 'correspondence with the real functions (mock boxes + Fractions) and with every table fragment of '
                 'generated rendered documents; a Lean checker with soundness theorems for rows/header/footer over '
                 'page breaks',
    'text': 'Unbounded theorems on the models: fixed layout — columns + (n+1) spacings = table width, never shrunk, '
            'declared <col> and first-row widths honoured up to one common non-negative widening, remaining columns '
            'share equally (fixed_sum, fixed_honours_*); distribute_excess_width — adds exactly the excess in every '
            'group, never divides by zero, touches only the slice, never narrows (excess_sum/shape/ge/outside); auto '
            'layout — width clamped between min- and max-content, guesses pointwise ordered, no division by zero, '
            'columns fill the assignable width, every column >= min-content (auto_bounds/total/sum/ge_min_partial); '
            'no column of a fixed layout is negative (fixed_nonneg, full strength since the repair 5d962d2); '
            'geometry — columns tile the content box ltr and rtl, a cell covers exactly the columns it spans '
            '(columns_partition, cell_extent); collapsed borders — the edge winner is the first maximum under '
            '(hidden, width, style rank) for any offer sequence, offers are made in CSS 2.1 17.6.2 order, used widths '
            'are halves that add up on shared edges (border_winner, offers_in_css_order, border_halves); pagination — '
            'soundness of the checker applied to every split table (rows_once, header_footer_repeat). '
            'Round 2: a predictive model of group_layout / body_groups_layout / all_groups_layout for unsplit rows '
            '(every recorded call of table_layout compared) with fragment_prefix, rows_once (all rows once, in '
            'order, over any page sequence), progress, pagination_terminates, header_footer_when_fit '
            '(Props/C10Pages); table_and_columns_preferred_widths mirrored given the intrinsic widths of single '
            'boxes, with the min-content guarantee for non-spanning and spanning cells end to end through '
            'auto_table_layout (Props/C10Pref); the row height algorithm (baseline alignment, rowspans, '
            'vertical-align stretching) with row_height (Props/C10Heights). '
            'Round 3: rows cut by a page break — the per-cell skip stack / resume dict bookkeeping of group_layout '
            '(keyed by the index of the cell in the row) with split_roundtrip, every block_container_layout call made '
            'for a cell compared, and conservation of all words of all body cells over the fragments (Props/C10Split); '
            'table_cell_min_max_content_width given the children\'s intrinsic widths, floats and running elements '
            'counted, absolutely positioned boxes not, with cell_min_covers and auto_column_covers_float end to end '
            'through the preferred widths and auto layout (Props/C10CellWidth); draw_collapsed_borders — which grid '
            'line each line of a fragment shows (row_number), the painted segments and their order — with '
            'painted_unsplit, painted_header_lines, painted_body_rows, painted_footer, painted_in_score_order, '
            'sort_perm, painted_from_grid (Props/C10Draw), compared with the lines the real function paints for '
            'every collapsed fragment; the split bookkeeping of table_layout (skipped_rows, border_top_width, '
            'skip_cell_border flags, position of continued cells under a repeated header) with '
            'skipped_is_flat_index, resumed_row_painted, reserved_top_is_painted_top, split_cell_below_header '
            '(Props/C10SplitBorders); fixed_nonneg at full strength after the repair 5d962d2. Rounds 4-5: '
            'wrap_table\'s choice of header / footer / body groups (groups_once, header_is_first, '
            'footer_is_first, bodies_in_source_order, Props/C10Groups); painted_is_winner (every painted line of '
            'an unsplit collapsed table is the CSS 2.1 17.6.2 winner, Props/C10Painted); document_rows_once '
            '(wrap_table composed with table_layout and the page loop: every row of every group that is not the '
            'first thead / tfoot is laid out exactly once, in source order, over any page sequence, '
            'Props/C10Document). Round 6: the <col> / <colgroup> boxes of table_layout (column_box_is_its_column, '
            'group_extent_ltr, group_extent_rtl_nonpos — finding rtl-column-group-negative-width, '
            'Props/C10Columns).',
    'note': 'Trusted: Lean kernel; the AST/graph translator of the border style list; the harness (mock boxes, call '
            'recorders around the real functions during renders, float results snapped to the rational model within '
            '1e-9 relative and counted). Not modelled: table_and_columns_preferred_widths (its result is an input of the '
            'auto model; only its spacing count and the min-content clause are tied at document level), cell content '
            'layout and row heights (inputs of the row model), the pagination decisions themselves (checked, not '
            'predicted). Partial: auto_ge_min under the hypothesis that the 1e-9 tolerance decides nothing '
            '(Witness.C10.auto_band_below_min); the top border reserved above a fragment is the dropped header\'s '
            '(finding collapsed-dropped-header-top-border); an rtl fragment whose '
            'grid was clipped by the fixed layout is painted from the wrong grid columns (finding '
            'collapsed-rtl-clipped-grid); document-level '
            'width sum fails for columns without originating cell (finding auto-spacing-ignores-spanned-only-column).',
}
