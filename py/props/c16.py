"""C16 — the output is a well-formed, self-consistent PDF under every option."""
from fractions import Fraction
import json

from extract import pdf_tags
from harness import apilog, c16docs, docs, htmlmin, pdffile, pdfread, pdfstream
from vlib import sx
from vlib.framework import PropCheck

CATS = ('ExtGState', 'XObject', 'Pattern', 'Shading', 'ColorSpace', 'Font', 'Properties')
SKELETON = {'q', 'Q', 'BT', 'ET', 'BDC', 'BMC', 'EMC', 'Do', 'gs', 'sh', 'cm'}


# ---------------------------------------------------------------------------------------------------------------
# document level helpers
# ---------------------------------------------------------------------------------------------------------------

class RenderTimeout(Exception):
    """Layout did not finish (a C02 matter: recorded, never a C16 disagreement)."""


def render_pdf(html, opts, timeout=10, capture=None):
    """(Document, pdf bytes).  `zoom` is an argument of write_pdf, the rest are options.  `capture`: a list that
    receives the `pydyf.PDF` object (through the public `finisher` hook, before it is written)."""
    import signal
    docs.quiet()
    opts = dict(opts)
    zoom = opts.pop('zoom', 1)
    if opts.get('attachments'):      # [[name, content], …] (JSON-able in the replay files) -> Attachment objects
        from weasyprint import Attachment
        opts['attachments'] = [Attachment(string=content, name=name) for name, content in opts['attachments']]

    def on_alarm(signum, frame):
        raise RenderTimeout()
    # CPU time, not wall clock: a loaded machine must not turn a healthy render into a "hang"
    previous = signal.signal(signal.SIGPROF, on_alarm)
    signal.setitimer(signal.ITIMER_PROF, timeout)
    try:
        document = docs.html(html).render(**opts)
        finisher = None if capture is None else (lambda _document, pdf: capture.append(pdf))
        return document, document.write_pdf(zoom=zoom, finisher=finisher, **opts)
    finally:
        signal.setitimer(signal.ITIMER_PROF, 0)
        signal.signal(signal.SIGPROF, previous)


def atom_name(name):
    """A PDF name as a wire atom (`/name`); names never contain blanks or parentheses once tokenised."""
    text = '/' + str(name)
    if any(c in text for c in ' ()\n\t\r'):
        text = '/' + ''.join(f'#{ord(c):02x}' if c in ' ()\n\t\r' else c for c in str(name))
    return text


def check_line(ops, cats):
    """Protocol line of the Lean content-stream checker for one stream."""
    toks = []
    for op, operands in ops:
        last = operands[-1] if operands else None
        if op == 'Tf' and operands:
            last = operands[0]          # `/Font size Tf`: the name operand comes first
        toks.append([op, len(operands), atom_name(last) if isinstance(last, pdfread.Name) else 'none'])
    names = [[atom_name(n)[1:] for n in cats[c]] for c in CATS]
    return sx.line('check', *names, toks)


def skeleton_of(ops):
    out = []
    for op, operands in ops:
        if op in SKELETON:
            if op in ('Do', 'gs', 'sh'):
                out.append(f'{op}:{operands[-1]}')
            else:
                out.append(op)
    return out


def page_geoms(document):
    out = []
    for page in document.pages:
        bleed = page.bleed
        out.append([Fraction(page.width), Fraction(page.height), Fraction(bleed['left']), Fraction(bleed['top']),
                    Fraction(bleed['right']), Fraction(bleed['bottom'])])
    return out


def box_text(values):
    def rat(v):
        return sx.atom(Fraction(v.text) if isinstance(v, pdfread.Real) else Fraction(v))
    return ','.join(rat(v) for v in values)


def page_tree_text(pdf):
    pages = pdf.pages()
    parts = [str(len(pages))]
    for _, page, inherited in pages:
        media = pdf.resolve(page.get('MediaBox', inherited.get('MediaBox')))
        parts.append(f'M={box_text(media)} T={box_text(pdf.resolve(page["TrimBox"]))} '
                     f'B={box_text(pdf.resolve(page["BleedBox"]))}')
    return ' | '.join(parts)


def structural_problem(data, document=None):
    """Clauses of C16 that need no model, stated directly on the bytes with the independent reader:
    header, xref offsets, trailer, every reference resolves, page tree lists the rendered pages, every content
    stream tokenises.  -> text | None"""
    try:
        pdf = pdfread.Document(data)
        pdf.check_all_references()
        pages = pdf.pages()
        if document is not None and len(pages) != len(document.pages):
            return f'page tree has {len(pages)} pages, {len(document.pages)} were rendered'
        for _, page, inherited in pages:
            for key in ('MediaBox', 'TrimBox', 'BleedBox'):
                box = pdf.resolve(page.get(key, inherited.get(key)))
                if not (isinstance(box, list) and len(box) == 4 and all(isinstance(v, (int, float)) for v in box)):
                    return f'page /{key} is not a rectangle: {box!r}'
            if pdf.resolve(page.get('Parent')) is None:
                return 'page without /Parent'
        pdfread.content_streams(pdf)
        return (kinds_problem(pdf) or struct_tree_problem(pdf) or object_reference_problem(pdf) or
                name_tree_problem(pdf) or embedded_file_problem(pdf))
    except pdfread.PdfError as exc:
        return f'independent reader: {exc}'


# PDF 32000-1 Annex A: operator -> operand kinds ('n' number, 'N' name, 's' string, 'a' array, 'd' dictionary or name);
# `None` = checked separately (scn / SCN: numbers, then an optional pattern name; sc / SC: 1-4 numbers).
OPERANDS = {
    'q': '', 'Q': '', 'cm': 'nnnnnn', 'w': 'n', 'J': 'n', 'j': 'n', 'M': 'n', 'd': 'an', 'ri': 'N', 'i': 'n', 'gs': 'N',
    'm': 'nn', 'l': 'nn', 'c': 'nnnnnn', 'v': 'nnnn', 'y': 'nnnn', 'h': '', 're': 'nnnn',
    'S': '', 's': '', 'f': '', 'F': '', 'f*': '', 'B': '', 'B*': '', 'b': '', 'b*': '', 'n': '', 'W': '', 'W*': '',
    'BT': '', 'ET': '', 'Tc': 'n', 'Tw': 'n', 'Tz': 'n', 'TL': 'n', 'Tf': 'Nn', 'Tr': 'n', 'Ts': 'n',
    'Td': 'nn', 'TD': 'nn', 'Tm': 'nnnnnn', 'T*': '', 'Tj': 's', 'TJ': 'a', "'": 's', '"': 'nns',
    'd0': 'nn', 'd1': 'nnnnnn', 'CS': 'N', 'cs': 'N', 'SC': None, 'sc': None, 'SCN': None, 'scn': None,
    'G': 'n', 'g': 'n', 'RG': 'nnn', 'rg': 'nnn', 'K': 'nnnn', 'k': 'nnnn', 'sh': 'N', 'BI': '', 'Do': 'N',
    'MP': 'N', 'DP': 'Nd', 'BMC': 'N', 'BDC': 'Nd', 'EMC': '', 'BX': '', 'EX': ''}


def operand_kind(value):
    if isinstance(value, bool) or value is None:
        return '?'
    if isinstance(value, (int, float)):
        return 'n'
    if isinstance(value, pdfread.Name):
        return 'N'
    if isinstance(value, (bytes, pdfread.HexString)):
        return 's'
    if isinstance(value, list):
        return 'a'
    if isinstance(value, dict):
        return 'd'
    return '?'


def operand_problem(op, operands):
    """`operands of the right number and type`: the operator is a PDF content operator and its operands are what
    Annex A says."""
    if op not in OPERANDS:
        return f'`{op}` is not a PDF content-stream operator'
    kinds = ''.join(operand_kind(v) for v in operands)
    want = OPERANDS[op]
    if want is None:
        numbers = kinds.rstrip('N')
        limit = 4 if op in ('sc', 'SC') else 5
        ok = set(numbers) <= {'n'} and len(kinds) - len(numbers) <= (0 if op in ('sc', 'SC') else 1) and (
            1 <= len(kinds) <= limit)
    else:
        ok = len(kinds) == len(want) and all(k == w or (w == 'd' and k in 'dN') for k, w in zip(kinds, want))
    return None if ok else f'`{op}` has operands {operands!r} (kinds {kinds!r}), Annex A asks for {want!r}'


KNOWN_STRUCTURE_SEEN = __import__('collections').Counter()


def _is_number(v):
    return isinstance(v, (int, float)) and not isinstance(v, bool)


def resource_entry_problem(pdf, category, name, value):
    """`every indirect reference resolves to an object of the expected kind`, for one resource entry."""
    obj = pdf.resolve(value)
    where = f'/{category} /{name}'
    if category == 'XObject':
        if not isinstance(obj, pdfread.PdfStream):
            return f'{where} is not a stream'
        subtype = obj.extra.get('Subtype')
        if subtype == 'Image':
            if not (isinstance(obj.extra.get('Width'), int) and isinstance(obj.extra.get('Height'), int)):
                return f'{where}: image without integer /Width /Height'
            if not obj.extra.get('ImageMask') and ('ColorSpace' not in obj.extra or 'BitsPerComponent' not in obj.extra):
                return f'{where}: image without /ColorSpace or /BitsPerComponent'
            smask = obj.extra.get('SMask')
            if smask is not None and not (isinstance(pdf.resolve(smask), pdfread.PdfStream) and
                                          pdf.resolve(smask).extra.get('Subtype') == 'Image'):
                return f'{where}: /SMask is not an image stream'
        elif subtype == 'Form':
            bbox = pdf.resolve(obj.extra.get('BBox'))
            if not (isinstance(bbox, list) and len(bbox) == 4 and all(_is_number(v) for v in bbox)):
                return f'{where}: form without a /BBox rectangle'
        else:
            return f'{where}: XObject of subtype {subtype!r}'
    elif category == 'Font':
        if not (isinstance(obj, dict) and obj.get('Type') == 'Font' and isinstance(obj.get('Subtype'), pdfread.Name)):
            return f'{where} is not a font dictionary'
        if obj['Subtype'] == 'Type0':
            descendants = pdf.resolve(obj.get('DescendantFonts'))
            if not (isinstance(descendants, list) and len(descendants) == 1 and
                    isinstance(pdf.resolve(descendants[0]), dict)):
                return f'{where}: Type0 font without one descendant font'
    elif category == 'ExtGState':
        if not isinstance(obj, dict):
            return f'{where} is not a dictionary'
        for key in ('ca', 'CA'):
            if key in obj and not (_is_number(obj[key]) and 0 <= obj[key] <= 1):
                return f'{where}: /{key} {obj[key]!r} is not a number in [0, 1]'
        smask = pdf.resolve(obj.get('SMask'))
        if isinstance(smask, dict):
            group = pdf.resolve(smask.get('G'))
            if not (isinstance(group, pdfread.PdfStream) and group.extra.get('Subtype') == 'Form' and
                    isinstance(pdf.resolve(group.extra.get('Group')), dict)):
                return f'{where}: soft mask /G is not a transparency group form'
    elif category == 'Pattern':
        extra = obj.extra if isinstance(obj, pdfread.PdfStream) else obj
        if not (isinstance(extra, dict) and extra.get('PatternType') in (1, 2)):
            return f'{where} is not a pattern'
        if extra['PatternType'] == 1 and not (
                isinstance(obj, pdfread.PdfStream) and _is_number(extra.get('XStep')) and _is_number(extra.get('YStep'))):
            return f'{where}: tiling pattern without /XStep /YStep'
        if extra['PatternType'] == 1 and 0 in (extra['XStep'], extra['YStep']):
            # listed finding pattern-zero-step (background-repeat: space in an area smaller than the image)
            KNOWN_STRUCTURE_SEEN['pattern-zero-step'] += 1
    elif category == 'Shading':
        if not (isinstance(obj, dict) and obj.get('ShadingType') in range(1, 8) and 'ColorSpace' in obj):
            return f'{where} is not a shading dictionary'
        if obj['ShadingType'] in (2, 3):
            coords = pdf.resolve(obj.get('Coords'))
            want = 4 if obj['ShadingType'] == 2 else 6
            if not (isinstance(coords, list) and len(coords) == want and all(_is_number(v) for v in coords)):
                return f'{where}: shading /Coords is not {want} numbers'
            if not isinstance(pdf.resolve(obj.get('Function')), (dict, pdfread.PdfStream, list)):
                return f'{where}: shading without /Function'
    elif category == 'ColorSpace':
        if not isinstance(obj, (list, pdfread.Name)):
            return f'{where} is not a colour space'
    return None


def kinds_problem(pdf):
    """Objects of the expected kind: page tree nodes, contents, every resource entry of every content stream,
    annotations."""
    pages_root = pdf.resolve(pdf.catalog.get('Pages'))
    if not (isinstance(pages_root, dict) and pages_root.get('Type') == 'Pages'):
        return 'catalog /Pages is not a page tree node'
    for i, (ref, page, inherited) in enumerate(pdf.pages()):
        parent = pdf.resolve(page.get('Parent'))
        if not (isinstance(parent, dict) and parent.get('Type') == 'Pages' and ref in pdf.resolve(parent['Kids'])):
            return f'page {i}: /Parent is not the page tree node that lists it'
        contents = pdf.resolve(page.get('Contents'))
        parts = [pdf.resolve(p) for p in contents] if isinstance(contents, list) else [contents]
        if not all(isinstance(p, pdfread.PdfStream) for p in parts):
            return f'page {i}: /Contents is not a stream'
        for annot_ref in pdf.resolve(page.get('Annots')) or []:
            annot = pdf.resolve(annot_ref)
            if not (isinstance(annot, dict) and isinstance(annot.get('Subtype'), pdfread.Name) and
                    annot.get('Type', 'Annot') == 'Annot'):
                return f'page {i}: annotation {annot_ref!r} is not an annotation dictionary'
            rect = pdf.resolve(annot.get('Rect'))
            if not (isinstance(rect, list) and len(rect) == 4 and all(_is_number(v) for v in rect)):
                return f'page {i}: annotation without a /Rect rectangle'
    for label, _, cats in pdfread.content_streams(pdf):
        for category, entries in cats.items():
            for name, value in entries.items():
                what = resource_entry_problem(pdf, category, name, value)
                if what:
                    return f'resources of {label}: {what}'
    return None


def struct_tree_problem(pdf):
    """Tagged output: every marked-content identifier of a page stream has its structure element: the /ParentTree
    entry of the page (its /StructParents key) is an array with one structure element per MCID, the MCIDs of the page
    stream are 0 … n-1 in order, and each element points back (/Pg is the page, /K lists the MCID).
    MCIDs inside form XObjects (opacity groups) are the listed finding mcid-in-group-stream and are not judged."""
    root = pdf.resolve(pdf.catalog.get('StructTreeRoot'))
    if root is None:
        return None
    if not (isinstance(root, dict) and root.get('Type') == 'StructTreeRoot'):
        return '/StructTreeRoot is not a structure tree root'
    tree = pdf.resolve(root.get('ParentTree'))
    nums = pdf.resolve(tree.get('Nums')) if isinstance(tree, dict) else None
    if not (isinstance(nums, list) and len(nums) % 2 == 0):
        return '/ParentTree without a /Nums array of pairs'
    table = dict(zip(nums[::2], nums[1::2]))
    for i, (ref, page, inherited) in enumerate(pdf.pages()):
        key = page.get('StructParents')
        contents = pdf.resolve(page.get('Contents'))
        ops = pdfread.content_ops(pdf.decode(contents))
        mcids = [a[1]['MCID'] for o, a in ops if o == 'BDC' and isinstance(a[1], dict) and 'MCID' in a[1]]
        if mcids != list(range(len(mcids))):
            return f'page {i}: marked-content identifiers {mcids[:8]} are not 0, 1, 2 …'
        if not mcids and key is None:
            continue
        parents = pdf.resolve(table.get(key))
        if not (isinstance(parents, list) and len(parents) == len(mcids)):
            return (f'page {i}: {len(mcids)} marked-content identifiers but the /ParentTree entry has '
                    f'{len(parents) if isinstance(parents, list) else "no"} elements')
        for mcid, parent in enumerate(parents):
            element = pdf.resolve(parent)
            if not (isinstance(element, dict) and element.get('Type') == 'StructElem'):
                return f'page {i}: /ParentTree entry of MCID {mcid} is not a structure element'
            kids = pdf.resolve(element.get('K'))
            kids = kids if isinstance(kids, list) else [kids]
            if mcid not in kids or element.get('Pg') != ref:
                return f'page {i}: the structure element of MCID {mcid} does not list it (/K {kids!r}) or is on another page'
    return None


# ---------------------------------------------------------------------------------------------------------------
# fixed families
# ---------------------------------------------------------------------------------------------------------------

SVG_OPACITIES = ['0', '0%', '0.0', '0.5', '50%', '1', '100%', '2', '-1']


def svg_family():
    """SVG elements with every kind of opacity value, alone and nested, drawn inline, as <img> and as a background."""
    import base64
    for i, opacity in enumerate(SVG_OPACITIES):
        other = SVG_OPACITIES[(i + 3) % len(SVG_OPACITIES)]
        shapes = (f'<rect width="6" height="6" fill="green" opacity="{opacity}"/>'
                  f'<g opacity="{other}"><circle cx="5" cy="5" r="3" fill="none" stroke="blue" opacity="{opacity}"/>'
                  f'<g opacity="{opacity}"><text x="1" y="8" font-size="4">s</text><rect width="2" height="2"/></g></g>'
                  f'<path d="M0 0L9 9" stroke="red" stroke-opacity="{opacity}" fill-opacity="{other}"/>')
        svg = f'<svg xmlns="http://www.w3.org/2000/svg" width="10" height="10">{shapes}</svg>'
        uri = 'data:image/svg+xml;base64,' + base64.b64encode(svg.encode()).decode()
        yield f'svg-opacity:inline:{opacity}', PAGE_CSS + f'<p>a {svg} b</p>', {}
        yield f'svg-opacity:img:{opacity}', PAGE_CSS + f'<p>a <img src="{uri}"> b</p>', {'pdf_variant': 'pdf/ua-1'}
        yield (f'svg-opacity:background:{opacity}',
               PAGE_CSS + f'<p style="height:20px;background:url({uri})">a</p>', {'uncompressed_pdf': True})


ATTACHMENT_CONTENTS = ['h\u00e9llo \u2603', 'plain ascii', '', '\u00e9' * 5000, 'a' * 4097, '\U0001f600']


def attachment_family():
    """Attachments whose content is a str (non-ASCII, ASCII, empty, longer than one 4096-byte read), given by the
    `attachments` option, by <link rel=attachment> and by <a rel=attachment> (data: URLs, percent-encoded bytes)."""
    from urllib.parse import quote
    for i, content in enumerate(ATTACHMENT_CONTENTS):
        opts = [{}, {'pdf_variant': 'pdf/a-3b'}, {'uncompressed_pdf': True}][i % 3]
        yield (f'attachment:option:{i}', PAGE_CSS + '<p>a</p>',
               dict(opts, attachments=[[f'f{i}.txt', content], ['g.bin', content[:3]]]))
        uri = 'data:text/plain;charset=utf-8,' + quote(content[:300])
        yield (f'attachment:link:{i}', f'<link rel="attachment" href="{uri}" title="t">' + PAGE_CSS +
               f'<p>a <a rel="attachment" href="{uri}">att</a></p>', dict(opts))


SEQUENCE_BODY = (
    '<p><a href="#far">to page 2</a> <a href="#near">near</a> <a href="https://example.org/">ext</a></p>'
    '<p id="near">n</p><h1 style="break-before:page" id="far">far <a href="#near">back</a></h1>'
    '<p style="break-before:page">third <a href="#far">to 2</a></p>')


def sequence_family():
    """write_pdf sequences on one Document and its copies: [pages (None = all), options] per step."""
    ua, plain = {'pdf_variant': 'pdf/ua-1'}, {}
    SEQUENCE_HTML = PAGE_CSS + SEQUENCE_BODY
    yield 'sequence:full-then-first-page-ua', SEQUENCE_HTML, [[None, plain], [[0], ua]]
    yield 'sequence:ua-then-subsets-ua', SEQUENCE_HTML, [[None, ua], [[0], ua], [[1, 2], ua], [None, ua]]
    yield 'sequence:subset-then-full', SEQUENCE_HTML, [[[2], ua], [None, plain], [[0, 2], ua]]
    yield 'sequence:forms-and-variants', SEQUENCE_HTML, [[None, {'pdf_forms': True}], [[0], {'pdf_variant': 'pdf/a-2b'}],
                                                        [[0], ua]]


def sequence_problem(html, steps):
    """Every write_pdf of a sequence on one rendered Document (and `Document.copy` of some of its pages) gives a PDF that
    satisfies the clauses of C16.  -> text | None"""
    docs.quiet()
    document = docs.html(html).render()
    for index, (pages, opts) in enumerate(steps):
        target = document if pages is None else document.copy([document.pages[i] for i in pages])
        try:
            data = target.write_pdf(**decode_options(opts))
        except Exception as exc:  # noqa: BLE001
            return f'step {index} (pages {pages}, options {opts}): write_pdf raised {type(exc).__name__}: {exc}'
        what = structural_problem(data, target)
        if what is None:
            pdf = pdfread.Document(data)
            for label, ops, cats in pdfread.content_streams(pdf):
                what = stream_problem(ops, cats)
                if what:
                    what = f'content stream {label}: {what}'
                    break
        if what:
            return f'step {index} (pages {pages}, options {opts}) after {index} earlier write_pdf: {what}'
    return None


def object_reference_problem(pdf):
    """Tagged output, `every indirect reference resolves to an object of the expected kind`: every object reference
    (`/Type /OBJR`) of the file points at an annotation dictionary listed in the /Annots of a page of this file, no two
    of them at the same annotation; and the /StructParent key of an annotation and the /ParentTree agree: entry n leads
    (directly through an object reference, as this code writes it, or through a structure element holding one) to an
    annotation whose /StructParent is n, and every annotation with a /StructParent has its entry."""
    root = pdf.resolve(pdf.catalog.get('StructTreeRoot'))
    if not isinstance(root, dict):
        return None
    annots = {}
    for i, (_, page, _inherited) in enumerate(pdf.pages()):
        for ref in pdf.resolve(page.get('Annots')) or []:
            if isinstance(ref, pdfread.Ref):
                annots[tuple(ref)] = i

    def target_of(objr):
        obj = objr.get('Obj')
        target = pdf.resolve(obj)
        if not (isinstance(obj, pdfread.Ref) and isinstance(target, dict) and
                isinstance(target.get('Subtype'), pdfread.Name) and target.get('Type', 'Annot') == 'Annot'):
            raise pdfread.PdfError(f'object reference /Obj {obj!r} is not an annotation dictionary of this file')
        if tuple(obj) not in annots:
            raise pdfread.PdfError(f'object reference /Obj {obj!r} is an annotation that is in no page /Annots')
        return tuple(obj)

    targets = set()
    for number, obj in sorted(pdf.objects.items()):
        if isinstance(obj, dict) and obj.get('Type') == 'OBJR':
            key = target_of(obj)
            if key in targets:
                return f'structure tree: two object references point at the same annotation {key}'
            targets.add(key)
    tree = pdf.resolve(root.get('ParentTree'))
    nums = pdf.resolve(tree.get('Nums')) if isinstance(tree, dict) else None
    table = dict(zip(nums[::2], nums[1::2])) if isinstance(nums, list) and len(nums) % 2 == 0 else {}
    reached = {}
    for number, value in table.items():
        entry = pdf.resolve(value)
        if isinstance(entry, list):
            continue                      # a page: checked by struct_tree_problem
        if not isinstance(entry, dict):
            return f'/ParentTree entry {number} is neither a structure element nor an object reference'
        if entry.get('Type') == 'OBJR':
            keys = [target_of(entry)]
        else:
            kids = pdf.resolve(entry.get('K'))
            kids = [pdf.resolve(k) for k in (kids if isinstance(kids, list) else [kids])]
            keys = [target_of(k) for k in kids if isinstance(k, dict) and k.get('Type') == 'OBJR']
        owners = [k for k in keys if pdf.resolve(pdfread.Ref(*k)).get('StructParent') == number]
        if not owners:
            return (f'/ParentTree entry {number} leads to the annotation(s) {keys}, none of which has /StructParent '
                    f'{number}')
        reached[number] = owners[0]
    for key in annots:
        annot = pdf.resolve(pdfread.Ref(*key))
        if isinstance(annot, dict) and 'StructParent' in annot and reached.get(annot['StructParent']) != key:
            return f'annotation {key} has /StructParent {annot["StructParent"]} but that /ParentTree entry does not lead to it'
    return None


def embedded_file_problem(pdf):
    """Self-consistency of embedded files: the /Params of every /EmbeddedFile stream describe its own decoded data
    (/Size = number of bytes, /CheckSum = their MD5)."""
    import hashlib
    for number, obj in pdf.objects.items():
        if not (isinstance(obj, pdfread.PdfStream) and obj.extra.get('Type') == 'EmbeddedFile'):
            continue
        params = pdf.resolve(obj.extra.get('Params'))
        if not isinstance(params, dict):
            continue
        data = pdf.decode(obj)
        size = params.get('Size')
        if size is not None and size != len(data):
            return f'embedded file {number}: /Params /Size {size} but the stream decodes to {len(data)} bytes'
        checksum = params.get('CheckSum')
        if isinstance(checksum, bytes) and bytes(checksum) != hashlib.md5(data, usedforsecurity=False).digest():
            return f'embedded file {number}: /Params /CheckSum is not the MD5 of the decoded stream'
    return None


def name_tree_keys(pdf, which):
    """Keys (the bytes the string objects denote) of the /Names array of the catalog's /Dests or /EmbeddedFiles name
    tree, in array order; None when there is no such tree."""
    names = pdf.resolve(pdf.catalog.get('Names'))
    tree = pdf.resolve(names.get(which)) if isinstance(names, dict) else None
    array = pdf.resolve(tree.get('Names')) if isinstance(tree, dict) else None
    if tree is None:
        return None
    if not (isinstance(array, list) and len(array) % 2 == 0 and all(isinstance(k, bytes) for k in array[::2])):
        raise pdfread.PdfError(f'/Names /{which} has no /Names array of (string, value) pairs')
    return [bytes(k) for k in array[::2]]


def font_array_problem(line, impl, meta):
    """The /W array must give every used glyph id its width back (PDF 32000-1 9.7.4.3: `c [w1 … wn]` gives the widths of
    the consecutive CIDs from c), the /CIDSet must have exactly the bits of the used glyph ids (9.8.1, table 124)."""
    widths = {int(k): v for k, v in meta['widths'].items()}
    if impl.startswith('err:'):
        return f'_build_vector_font_dictionary raised {impl[4:]} on the widths {widths}'
    if line.startswith('warray'):
        decoded, items = {}, impl.replace('[', ' [ ').replace(']', ' ] ').split()
        pos = 0
        while pos < len(items):
            start, pos = int(items[pos]), pos + 2
            while items[pos] != ']':
                decoded[start] = int(items[pos])
                start, pos = start + 1, pos + 1
            pos += 1
        if decoded != widths:
            return f'/W array [{impl}] gives the glyph widths {decoded}, the font has {widths}'
    if line.startswith('cidset '):
        used = {i for i, bit in enumerate(impl) if bit == '1'}
        if used != set(widths) or len(impl) % 8:
            return f'/CIDSet bits {impl} mark the glyph ids {sorted(used)}, the font uses {sorted(widths)}'
    return None


def font_array_replay(meta):
    import ast
    import types
    import pydyf
    from weasyprint.pdf.fonts import _build_vector_font_dictionary
    widths = {int(k): v for k, v in meta['widths'].items()}
    version = ast.literal_eval(meta['version'])
    font = types.SimpleNamespace(type='ttf', descent=-200, ascent=800, flags=4, widths=dict(widths), name=b'/ABCDEF+X',
                                 family=b'X', italic_angle=0, stemv=80, stemh=80)
    pdf, font_dictionary = pydyf.PDF(), pydyf.Dictionary()
    file_stream = pydyf.Stream([b'x'])
    pdf.add_object(file_stream)
    try:
        _build_vector_font_dictionary(font_dictionary, pdf, font, widths, False, file_stream.reference, version)
    except Exception as exc:  # noqa: BLE001
        return font_array_problem('warray', f'err:{type(exc).__name__}', meta)
    sub = pdf.objects[int(font_dictionary['DescendantFonts'][0].split()[0])]
    shown = ' '.join(str(item) if isinstance(item, int) else '[' + ' '.join(str(w) for w in item) + ']'
                     for item in sub['W'])
    what = font_array_problem('warray', shown, meta)
    descriptor = pdf.objects[int(sub['FontDescriptor'].split()[0])]
    if what is None and 'CIDSet' in descriptor:
        data = b''.join(pdf.objects[int(descriptor['CIDSet'].split()[0])].stream)
        what = font_array_problem('cidset ', ''.join(f'{byte:08b}' for byte in data), meta)
    return what


def pydyf_number(value):
    import pydyf
    return pydyf._to_bytes(value).decode()


def pydyf_literal(key):
    """`pydyf.String(key).data` for a bytes key: the serialised literal string."""
    import pydyf
    return pydyf.String(key).data


def name_tree_problem(pdf):
    """PDF 32000-1 7.9.6: the keys of a name tree are sorted in lexical byte order (a reader searches it by bisection),
    and the /Dests tree has one entry per anchor.  /EmbeddedFiles: sorted by bytes (fixed finding
    embedded-files-sorted-by-serialised-key); equal file names give equal adjacent keys, which is C18's listed finding
    embedded-files-duplicate-keys and is not judged here."""
    keys = name_tree_keys(pdf, 'Dests')
    if keys is not None:
        for a, b in zip(keys, keys[1:]):
            if not a < b:
                return f'/Dests name tree: key {a!r} is followed by {b!r} (keys must be sorted by bytes, without repeats)'
    keys = name_tree_keys(pdf, 'EmbeddedFiles')
    if keys is not None and keys != sorted(keys):
        return f'/EmbeddedFiles name tree: keys {keys!r} are not sorted by bytes (PDF 32000-1 7.9.6)'
    return None


def stream_problem(ops, cats):
    """The content-stream clauses of C16 stated directly (judge): known operators with operands of the right number
    and type, brackets, text objects, names defined."""
    stack = []
    for i, (op, operands) in enumerate(ops):
        bad = operand_problem(op, operands)
        if bad:
            return f'operator {i}: {bad}'
        in_text = 'BT' in stack
        if op in ('q', 'BT') and in_text:
            return f'operator {i} `{op}` inside a text object'
        if op == 'q':
            stack.append('q')
        elif op == 'BT':
            stack.append('BT')
        elif op in ('BMC', 'BDC'):
            stack.append('BMC')
        elif op in ('Q', 'ET', 'EMC'):
            want = {'Q': 'q', 'ET': 'BT', 'EMC': 'BMC'}[op]
            if not stack or stack[-1] != want:
                return f'operator {i} `{op}` closes {stack[-1] if stack else "nothing"} (open: {stack})'
            stack.pop()
        elif op in ('cm', 'Do', 'sh', 're', 'm', 'l', 'c', 'v', 'y', 'h', 'f', 'F', 'f*', 'S', 's', 'B', 'B*', 'b',
                    'b*', 'n', 'W', 'W*', 'BI') and in_text:
            return f'operator {i} `{op}` inside a text object'
        elif op in ('Tj', 'TJ', 'Tm', 'Td', 'TD', 'T*', "'", '"') and not in_text:
            return f'operator {i} `{op}` outside a text object'
        category = {'gs': 'ExtGState', 'Do': 'XObject', 'sh': 'Shading', 'Tf': 'Font'}.get(op)
        name = operands[-1] if operands and isinstance(operands[-1], pdfread.Name) else None
        if op == 'Tf':
            name = operands[0] if operands and isinstance(operands[0], pdfread.Name) else None
        if category and (name is None or name not in cats[category]):
            return f'operator {i} `{op}` names /{name}, not in /{category} {sorted(cats[category])}'
        if op in ('scn', 'SCN') and name is not None and name not in cats['Pattern']:
            return f'operator {i} `{op}` names pattern /{name}, not in /Pattern {sorted(cats["Pattern"])}'
        if op in ('cs', 'CS') and name not in ('DeviceRGB', 'DeviceGray', 'DeviceCMYK', 'Pattern') and (
                name not in cats['ColorSpace']):
            return f'operator {i} `{op}` names colour space /{name}, not in /ColorSpace'
    if stack:
        return f'unclosed at end of stream: {stack}'
    return None


def document_problem(html, opts):
    """Render and state the property directly on the result.  -> text | None"""
    try:
        document, data = render_pdf(html, opts)
    except RenderTimeout:
        return None          # layout did not finish: C02, not C16
    except Exception as exc:  # noqa: BLE001
        if crash_signature(exc) in KNOWN_CRASHES:
            return None      # listed in known_findings.txt
        return f'write_pdf raised {type(exc).__name__}: {exc}'
    what = structural_problem(data, document)
    if what:
        return what
    pdf = pdfread.Document(data)
    for label, ops, cats in pdfread.content_streams(pdf):
        what = stream_problem(ops, cats)
        if what:
            return f'content stream {label}: {what}'
    return None


# ---------------------------------------------------------------------------------------------------------------

class C16(PropCheck):
    id = 'C16'
    extractors = (pdf_tags.generate,)
    modules = ('WpModel.Props.C16', 'WpModel.Props.C16File', 'WpModel.Props.C16More', 'WpModel.Props.C16Fonts',
               'WpModel.Props.C16Cache', 'WpModel.Props.C16Gradient', 'WpModel.Props.C16Background', 'WpModel.Props.C16UaLinks',
               'WpModel.Witness.C16')
    trusted_base = (
        'modelled, not verified: pdf/stream.py Stream (operator state machine, caches, peepholes, resource '
        'registration), draw/stack.py stacked, the page loop of generate_pdf (Model/PdfStream, Model/PdfPages)',
        'py/harness/pdfread.py: the independent PDF reader that turns the bytes of write_pdf into objects and '
        'content-stream operators (the Lean checker sees its token list)',
        'PDF 32000-1 Annex A operator table and figure 9 (which operators may appear inside a text object) as '
        'transcribed in Model/ContentCheck.lean',
        'tinycss2 colour conversion (Color.to) is an input of the model; str(float) modelled by the exact decimal '
        'expansion (dyadic values with few digits only)',
    )
    assumptions = (
        'object syntax, cross-reference table, trailer and stream compression are pydyf (site-packages): checked by '
        'the independent reader on every generated document, not modelled',
        'font programs (subsetting through fontTools / HarfBuzz), glyph metrics and the XMP metadata packet are not '
        'modelled; of pdf/fonts.py the model covers which fonts get a /Font entry and a font file, the /W array and '
        'the /CIDSet bits (Model/PdfFonts)',
    )

    # ---- correspondence ---------------------------------------------------------------------------------------
    def correspondence(self, run):
        self.regressions(run)
        self.families(run)
        self.stream_scripts(run)
        self.small_functions(run)
        self.serializer(run)
        self.font_arrays(run)
        self.documents(run)

    def regressions(self, run):
        """Corpus first: the inputs of the repaired findings (`fixed:` lines) must stay repaired."""
        sec = run.section(
            'regressions',
            'the failing inputs of the repaired findings of this property (fixed: lines of known_findings.txt), '
            'rendered first in every run: write_pdf must succeed, the file and every content stream must satisfy the '
            'clauses of C16 stated directly (document_problem), plus the finding\'s own observation (fill alpha of the '
            'second text, order of the /Dests keys); the Lean checker must accept every stream')
        for name, (html, opts, extra) in REGRESSION_INPUTS.items():
            what = document_problem(html, opts)
            if what is None and extra is not None:
                what = extra()
            meta = {'html': html, 'options': opts, 'regression': name}
            sec.add(sx.line('check', [], [], [], [], [], [], [], []), 'ok' if what is None else f'{name}: {what}',
                    meta=meta, tags=[f'regression:{name}'])
            if what is None:
                _, data = render_pdf(html, opts)
                for label, ops, cats in pdfread.content_streams(pdfread.Document(data)):
                    sec.add(check_line(ops, cats), 'ok', meta=dict(meta, stream=label), tags=['regression-stream'])

    def families(self, run):
        """Fixed families, run first in every run (deterministic, independent of the seed)."""
        sec = run.section(
            'families',
            'fixed families rendered first in every run, every member judged by the clauses of C16 stated directly on '
            'the written bytes (document_problem): SVG elements (inline, <img>, background) with every kind of opacity '
            'value incl. 0, 0%, 1, out of range, nested; attachments whose content is a non-ASCII str, bytes, empty, '
            'longer than one read chunk, given by option / <link> / <a>, under several variants; sequences of '
            'write_pdf calls on one Document and its copies (subsets of pages, pdf/ua-1 after a plain write and the '
            'reverse), each output judged. non-trivial = all')
        for label, html, opts in list(svg_family()) + list(attachment_family()):
            what = document_problem(html, opts)
            sec.add(sx.line('check', [], [], [], [], [], [], [], []), 'ok' if what is None else f'{label}: {what}',
                    meta={'html': html, 'options': opts, 'family': label}, tags=['family:' + label.split(':')[0]])
        for label, html in (('ualinks:three-pages', PAGE_CSS + SEQUENCE_BODY),
                            ('ualinks:lists', PAGE_CSS + '<ul><li><a href="#x">a</a> <a href="https://example.org/">b</a>'
                             '</li><li id="x">c <a href="#x" style="display:block">d</a></li></ul>'),
                            ('ualinks:none', PAGE_CSS + '<p>no link</p>')):
            # Model/PdfUaLinks on fixed tagged documents (the random documents are compared in document-ualinks)
            with apilog.recording() as recorder:
                _, data = render_pdf(html, {'pdf_variant': 'pdf/ua-1'})
            wire_pages = [[[key, int(box.link_annotation.reference.split()[0])
                            if key == 'Link' and getattr(box, 'link_annotation', None) is not None else 0]
                           for key, box in stream.marked] for stream in page_stream_objects(recorder)]
            sec.add(sx.line('ualinks', *wire_pages), ua_link_facts(pdfread.Document(data)),
                    meta={'html': html, 'options': {'pdf_variant': 'pdf/ua-1'}, 'family': label},
                    tags=['family:ualinks'])
        for label, html, steps in sequence_family():
            what = sequence_problem(html, steps)
            sec.add(sx.line('check', [], [], [], [], [], [], [], []), 'ok' if what is None else f'{label}: {what}',
                    meta={'html': html, 'steps': steps, 'family': label}, tags=['family:sequence'])

    def stream_scripts(self, run):
        sec = run.section(
            'stream-scripts',
            'random API-level well-bracketed call sequences (<= 200 calls, several streams sharing / owning resource '
            'dictionaries) on the real Stream, every 4th one made ill-bracketed or extreme; compared: every stream '
            'token by token, ctm stacks, marked lists, every resource dictionary, the image table. non-trivial = at '
            'least one peephole or cache hit happened in the real objects')
        for i in range(run.n(1500, 30000)):
            mark = run.rng.random() < 0.5
            pages = run.rng.choice([1, 1, 2])
            gen = pdfstream.ScriptGen(run.rng, mark, pages, adversarial=(i % 4 == 3))
            script = gen.generate()
            world = pdfstream.RealWorld(mark, pages)
            out = world.run(script)
            tags = sorted(set(world.events)) + ([out] if out.startswith('err:') else [])
            tags += script_branches(script, mark)
            if gen.adversarial:
                tags.append('adversarial')
            sec.add(pdfstream.script_line(mark, pages, script), out,
                    meta={'mark': mark, 'pages': pages, 'script': pdfstream.jsonable(script)},
                    nontrivial=bool(world.events), tags=tags)

        hit = set(sec.tags)
        run.extra['stream_model_branches_never_hit'] = sorted(set(STREAM_BRANCHES) - hit)

    def small_functions(self, run):
        from pydyf import _to_bytes
        from weasyprint.pdf.stream import Stream
        sec = run.section('marked-content-tag', 'get_marked_content_tag on every HTML element name and random names')
        names = list(pdf_tags.HTML_TAGS) + list(pdf_tags.UNKNOWN)
        for _ in range(run.n(100, 2000)):
            base = run.rng.choice(pdf_tags.HTML_TAGS)
            names.append(run.rng.choice([base.upper(), base + 'x', base[:-1] or 'z', 'h' + str(run.rng.randrange(10)),
                                         't' + base, base.capitalize()]))
        for name in names:
            sec.add(sx.line('tag', name), Stream.get_marked_content_tag(None, name), meta={'tag': name},
                    nontrivial=Stream.get_marked_content_tag(None, name) != 'NonStruct')
        sec2 = run.section(
            'number-formatting', 'pydyf._to_bytes and str() on ints and dyadic floats (incl. negative, tiny, huge); '
            'non-trivial = a float that is not an integer')
        for _ in range(run.n(1500, 30000)):
            kind = run.rng.random()
            if kind < 0.2:
                value = run.rng.choice([0, 1, -1, 255, 10 ** 12, -(2 ** 40), run.rng.randrange(-500, 500)])
            elif kind < 0.8:
                value = run.rng.randrange(-4000, 4000) / 2 ** run.rng.randrange(0, 11)
            else:
                value = run.rng.choice([2.0 ** 60, -2.0 ** -30, 2.0 ** -25, 0.0, -0.0, 1e6 + 0.5, 0.0000005,
                                        0.0000015, 2.5e-6, 123456.0000005, -0.99999975, 1 / 3, 0.1, 2 / 3, 1e-7])
            nontrivial = isinstance(value, float) and not value.is_integer()
            sec2.add(sx.line('tobytes', pdfstream.num(value)), _to_bytes(value).decode(), meta={'value': repr(value)},
                     nontrivial=nontrivial, tags=['to_bytes'])
            negative_zero = isinstance(value, float) and value == 0 and str(value)[0] == '-'   # no -0 in Rat
            if isinstance(value, int) or (
                    Fraction(value).denominator <= 2 ** 10 and abs(value) < 1e15 and not negative_zero):
                sec2.add(sx.line('pystr', pdfstream.num(value)), str(value), meta={'value': repr(value)},
                         nontrivial=nontrivial, tags=['str'])

    def serializer(self, run):
        import pydyf
        sec = run.section(
            'pydyf-data', 'random nested pydyf values (bytes, str, int, float, None, String with characters to escape, '
            'Array, Dictionary, uncompressed Stream with / without a Length key) through the real `_to_bytes` / `.data` '
            'against Model/PdfFile `PVal.data`, byte for byte; non-trivial = a container or an escaped string')
        for _ in range(run.n(700, 12000)):
            value, wire = pdffile.random_value(run.rng, run.rng.choice([0, 1, 2, 3]))
            data = pydyf._to_bytes(value)
            sec.add(sx.line('pdata', wire), pdffile.hx(data), meta={'value': repr(wire)[:400]},
                    nontrivial=wire[0] in ('arr', 'dict', 'stream') or b'\\' in data, tags=[wire[0]])
        sec2 = run.section(
            'file-writer', 'random object lists (free objects, generations, info or not, identifier False / True / '
            'bytes, versions incl. None and "1.10") through the real `pydyf.PDF.write`: total length, hash of all bytes, '
            'every recorded offset, the xref position, and the Lean file checker on the model output; plus whether '
            'object streams are used for every version x compress; non-trivial = more than the three built-in objects')
        for _ in range(run.n(250, 5000)):
            pdf, version, identifier = pdffile.random_pdf(run.rng)
            compress = run.rng.random() < 0.3
            version_b = pydyf._to_bytes(version or b'1.7')
            data = pdffile.write_real(pdf, version, identifier, compress)
            classic = data[pdf.xref_position:pdf.xref_position + 5] == b'xref\n'
            sec2.add(sx.line('objstreams', version_b.decode(), compress), str(not classic).lower(),
                     meta={'version': repr(version), 'compress': compress}, tags=['objstreams:' + str(not classic)])
            if classic:
                tags = [f'id:{type(identifier).__name__}', 'info' if pdf.info else 'no-info']
                if any(o.free == 'f' for o in pdf.objects[1:]):
                    tags.append('free-object')
                sec2.add(pdffile.writefile_line(pdf, version, identifier), pdffile.written_text(data, pdf),
                         meta={'objects': len(pdf.objects)}, nontrivial=len(pdf.objects) > 3, tags=tags)

    def font_arrays(self, run):
        """The /W array and the /CIDSet bit string of a CID font, on the real `_build_vector_font_dictionary`."""
        import types
        import pydyf
        from weasyprint.pdf.fonts import _build_vector_font_dictionary
        sec = run.section(
            'font-arrays',
            'random glyph width tables (runs of consecutive glyph ids, gaps, glyph 0, a single glyph, none) through the '
            'real `_build_vector_font_dictionary` with a mock font, for PDF versions on both sides of 1.4: the /W array '
            'item by item and the bits of the /CIDSet stream (written only for version <= 1.4 and a non-empty table) '
            'against Model/PdfFonts `wArray` / `cidSetBits`; non-trivial = at least two groups of consecutive ids')
        for _ in range(run.n(300, 6000)):
            cids, cid = [], run.rng.choice([0, 0, 1, 3, 40])
            for _ in range(run.rng.choice([0, 1, 2, 5, 12, 30])):
                cids.append(cid)
                cid += run.rng.choice([1, 1, 1, 2, 5, 9])
            widths = {c: run.rng.choice([0, 250, 500, 600, 1000, -10]) for c in cids}
            version = run.rng.choice(['1.4', '1.3', '1.7', None, b'1.4', '2.0', b'1.5'])
            font = types.SimpleNamespace(type=run.rng.choice(['ttf', 'otf']), descent=-200, ascent=800, flags=4,
                                         widths=dict(widths), name=b'/ABCDEF+X', family=b'X', italic_angle=0, stemv=80,
                                         stemh=80)
            pdf, font_dictionary = pydyf.PDF(), pydyf.Dictionary()
            file_stream = pydyf.Stream([b'x'])
            pdf.add_object(file_stream)
            meta = {'widths': {str(k): v for k, v in widths.items()}, 'version': repr(version)}
            try:
                _build_vector_font_dictionary(font_dictionary, pdf, font, widths, False, file_stream.reference, version)
            except Exception as exc:  # noqa: BLE001
                sec.add(sx.line('warray', *[[c, w] for c, w in sorted(widths.items())]), f'err:{type(exc).__name__}',
                        meta=meta, tags=['raised'])
                continue
            sub = pdf.objects[int(font_dictionary['DescendantFonts'][0].split()[0])]
            shown = ' '.join(str(item) if isinstance(item, int) else '[' + ' '.join(str(w) for w in item) + ']'
                             for item in sub['W'])
            groups = sum(1 for item in sub['W'] if isinstance(item, int))
            sec.add(sx.line('warray', *[[c, w] for c, w in sorted(widths.items())]), shown, meta=meta,
                    nontrivial=groups >= 2, tags=[f'groups{min(groups, 4)}'])
            descriptor = pdf.objects[int(sub['FontDescriptor'].split()[0])]
            expect_cidset = str(version) <= '1.4' and bool(widths)
            if 'CIDSet' in descriptor:
                data = b''.join(pdf.objects[int(descriptor['CIDSet'].split()[0])].stream)
                bits = ''.join(f'{byte:08b}' for byte in data)
                sec.add(sx.line('cidset', max(cids), *cids), bits, meta=meta, nontrivial=len(cids) > 1, tags=['cidset'])
            sec.add(sx.line('cidsetwritten', str(version) if not isinstance(version, bytes) else repr(version),
                            bool(widths)), str('CIDSet' in descriptor).lower(), meta=meta,
                    tags=['cidset-written' if expect_cidset else 'cidset-absent'])

    def documents(self, run):
        sec = run.section(
            'document-streams',
            'generated documents (nested opacity / regular and singular transforms / overflow / clip / backgrounds / '
            'gradients / images / borders / tables / links / forms) x all pdf_variant values x random options: every '
            'content stream of the written PDF (pages, groups, patterns, soft masks, appearance streams; compressed or '
            'not) must be accepted by the Lean checker (brackets, text-object rules, operand counts, every resource '
            'name defined in the dictionary in effect). non-trivial = the stream has a bracket or names a resource')
        sec_tree = run.section(
            'page-tree', 'page tree of the written PDF (count, order, MediaBox / TrimBox / BleedBox as exact '
            'rationals) against Model/PdfPages on the rendered page geometries; non-trivial = bleed or zoom != 1')
        sec_api = run.section(
            'document-api',
            'the same write_pdf runs with every API call on every real Stream recorded (all of draw/*, svg/*, images, '
            'pdf/anchors): the stream model replays the recorded calls and must reproduce every stream token by token '
            'and every resource dictionary key by key, and the calls on each stream must be well bracketed at the API '
            'level (`wb=ok`: the hypothesis of theorem `balanced`) and follow the cache discipline (`cs=ok`: no set_color / '
            'set_alpha between a raw set_color_space / set_color_special / set_state(ca) and the next pop_state — the '
            'hypothesis of theorem `cache_sound_scoped`), and in the final state every gs / Do / sh / pattern name of every '
            'stream is a key of its own dictionary (`refs=ok`: the conclusion of `resources_defined`). non-trivial = more '
            'than one stream or marked content')
        sec_skel = run.section(
            'document-skeleton',
            'the same runs against Model/DrawSkeleton: the calls draw_stacking_context makes itself are predicted from '
            'the box properties (tag, viewport clip, clip rectangle, opacity, transform kind, overflow) of every '
            'stacking context; what it delegates (draw_background, draw_border, draw_inline_level …) is replayed from '
            'the recording; all streams and resource dictionaries compared. non-trivial = some context has opacity < 1, '
            'a transform, a clip or a nested context')
        sec_grad = run.section(
            'document-gradients',
            'the same runs against Model/GradientDraw: every recorded Gradient.draw (backgrounds, border-image, '
            'mask-border, list-style-image, content images; solid / opaque / with non-opaque stops; on streams that '
            'already own shadings) is replaced by the model\'s own calls, predicted from the gradient layout (solid, any '
            'alpha != 1, scale_y) and the document state; all streams and resource dictionaries compared. non-trivial = '
            'a gradient with a non-opaque stop, or drawn on a stream that already owns a shading')
        sec_bg = run.section(
            'document-backgrounds',
            'the same runs against Model/BackgroundDraw: every recorded draw_background_image (skipped layer; no-repeat '
            'layer: optional clip, group, transform, image, Do; repeated layer: pattern, group in the pattern, stacked '
            'Pattern colour space / scn / rectangle / fill) is replaced by the model\'s own calls, predicted from the '
            'layer (image None or empty, repeat, unbounded) and the document state; what `layer.image.draw` does is '
            'replayed (gradients through Model/GradientDraw); all streams and resource dictionaries compared. '
            'non-trivial = a repeated (pattern) layer, or more than one layer on one stream')
        sec_ua = run.section(
            'document-ualinks',
            'the pdf/ua-1 runs against Model/PdfUaLinks: from the real page streams (`marked`: structure type and, for a '
            'Link, the object number of box.link_annotation) the model gives the annotation of every /OBJR, the '
            '/ParentTree entries of the annotations, their /StructParent numbers and how many /OBJR are a kid of a '
            'structure element (none: finding objr-not-in-structure-tree); compared with the same facts read from the '
            'written bytes. non-trivial = the document has a link annotation in marked content')
        sec_fonts = run.section(
            'document-fonts',
            'the same runs, fonts: the keys of the /Font dictionary of the written PDF, in order (independent reader), '
            'and the font names used by `Tf` in any content stream that the /Font dictionary in effect does not define, '
            'against Model/PdfFonts on `document.fonts` (hash, bitmap, used_in_forms of every registered font), whether '
            'the catalog has an /AcroForm, and the Tf names; and, per drawn line of text, the `set_font_size` calls of '
            'draw_first_line against `drawLine` on the recorded `add_font` calls. non-trivial = more than one font, or a '
            'font that drew no glyph (empty cmap)')
        sec_file = run.section(
            'document-file',
            'the same runs, file level: whether pydyf used object streams (version >= 1.5 and compress, model '
            '`usesObjectStreams`); for classic-xref outputs the `pydyf.PDF` object captured through the `finisher` hook is '
            'written by Model/PdfFile `writeFile` and must give the real bytes (length, hash, every offset, xref position), '
            'and the Lean file checker (`checkFile`: header, startxref, table, /Size, every in-use offset at `n g obj`) must '
            'accept the real bytes with the object count and table position the independent reader found')
        file_budget = [run.n(2_500_000, 40_000_000)]
        n_docs = run.n(100, 1000)
        for i in range(n_docs):
            variant = c16docs.VARIANTS[i % len(c16docs.VARIANTS)]
            html, geo = c16docs.document(run.rng, depth=run.rng.choice([1, 2, 3]))
            opts = c16docs.options(run.rng, variant)
            meta = {'html': html, 'options': {k: (v.decode() if isinstance(v, bytes) else v) for k, v in opts.items()}}
            recorder = None
            capture = []
            try:
                try:
                    with apilog.recording() as recorder:
                        document, data = render_pdf(html, opts, capture=capture)
                    apilog.check_numbers(recorder.log)
                except apilog.Unsupported as exc:
                    # something the wire format of the stream model does not carry: render again without the recorder
                    unsupported = run.extra.setdefault('api_log_unsupported', {})
                    unsupported[str(exc)[:60]] = unsupported.get(str(exc)[:60], 0) + 1
                    recorder = None
                    del capture[:]
                    document, data = render_pdf(html, opts, capture=capture)
            except RenderTimeout:
                run.extra['render_timeouts'] = run.extra.get('render_timeouts', 0) + 1
                continue
            except Exception as exc:  # noqa: BLE001 - an exception of write_pdf is an outcome the checker rejects
                known = KNOWN_CRASHES.get(crash_signature(exc))
                if known:       # listed in known_findings.txt (replayed there); not a new disagreement
                    run.extra.setdefault('known_crashes_met', {}).setdefault(known, 0)
                    run.extra['known_crashes_met'][known] += 1
                    continue
                sec.add(sx.line('check', [], [], [], [], [], [], [], []), f'err:{type(exc).__name__}', meta=meta,
                        tags=['write_pdf-raised'])
                continue
            if recorder is not None:
                mark = variant == 'pdf/ua-1'
                hits = api_events(recorder.log)
                sec_api.add(sx.line('docscript', mark, *[apilog.wire_call(c) for c in recorder.log]),
                            recorder.show(wb='wb=ok cs=ok refs=ok'),
                            meta=meta, nontrivial=len(recorder.streams) > 1 or mark,
                            tags=[f'variant:{variant}', f'streams{min(len(recorder.streams) // 5 * 5, 30)}+'] + hits)
                try:
                    skeleton = apilog.skeleton_line(recorder, mark)
                    expected = recorder.show(wb='', refs=False).replace('ok  | ', 'ok | ')
                except apilog.ShapeMismatch as exc:
                    skeleton, expected = sx.line('skeleton', mark), f'shape-mismatch:{exc}'
                if recorder.gradients:
                    try:
                        grad_line = apilog.gradient_line(recorder, mark)
                        grad_expected = recorder.show(wb='', refs=False).replace('ok  | ', 'ok | ')
                    except apilog.ShapeMismatch as exc:
                        grad_line, grad_expected = sx.line('docgrad', mark), f'shape-mismatch:{exc}'
                    translucent = sum(1 for g in recorder.gradients if g[2] and g[2]['translucent'])
                    streams_hit = [g[2]['h'] for g in recorder.gradients if g[2] and not g[2]['solid']]
                    repeated = len(streams_hit) != len(set(streams_hit))
                    sec_grad.add(grad_line, grad_expected, meta=meta, nontrivial=bool(translucent) or repeated,
                                 tags=[f'gradients{min(len(recorder.gradients), 5)}'] +
                                      (['grad:translucent'] if translucent else []) +
                                      (['grad:same-stream-again'] if repeated else []) +
                                      (['grad:translucent-on-used-stream'] if translucent and repeated else []) +
                                      (['grad:solid'] if any(g[2] and g[2]['solid'] for g in recorder.gradients) else []))
                if recorder.backgrounds:
                    try:
                        bg_line = apilog.background_line(recorder, mark)
                        bg_expected = recorder.show(wb='', refs=False).replace('ok  | ', 'ok | ')
                    except apilog.ShapeMismatch as exc:
                        bg_line, bg_expected = sx.line('docbg', mark), f'shape-mismatch:{exc}'
                    kinds = ['bg:skip' if b[2]['skip'] else 'bg:no-repeat' if b[2]['no_repeat'] else 'bg:pattern'
                             for b in recorder.backgrounds]
                    drawn_on = [b[2]['h'] for b in recorder.backgrounds if not b[2]['skip']]
                    sec_bg.add(bg_line, bg_expected, meta=meta,
                               nontrivial='bg:pattern' in kinds or len(drawn_on) != len(set(drawn_on)),
                               tags=sorted(set(kinds)) + [f'layers{min(len(kinds) // 3 * 3, 12)}+'] + (
                                   ['bg:unbounded'] if any(b[2]['unbounded'] for b in recorder.backgrounds) else []))
                contexts = sum(1 for e in recorder.tree_events if e[0] == 'ctx-begin')
                kinds = sorted({f'ctx:{k}' for e in recorder.tree_events if e[0] == 'ctx-begin'
                                for k in context_kinds(e[2])})
                sec_skel.add(skeleton, expected, meta=meta, nontrivial=bool(kinds),
                             tags=[f'contexts{min(contexts // 4 * 4, 20)}+'] + kinds)
            problem = structural_problem(data, document)
            if problem:
                sec.add(sx.line('check', [], [], [], [], [], [], [], []), 'structure: ' + problem, meta=meta,
                        tags=['structure-problem'])
                continue
            pdf = pdfread.Document(data)
            for label, ops, cats in pdfread.content_streams(pdf):
                skeleton = skeleton_of(ops)
                kind = label.rsplit('/', 1)[-1][0] if '/' in label else 'page'
                sec.add(check_line(ops, cats), 'ok', meta=dict(meta, stream=label), nontrivial=bool(skeleton),
                        tags=[f'variant:{variant}', f'stream:{kind}',
                              'compressed' if not opts['uncompressed_pdf'] else 'uncompressed'])
            if recorder is not None and variant == 'pdf/ua-1':
                wire_pages = [[[key, int(box.link_annotation.reference.split()[0])
                                if key == 'Link' and getattr(box, 'link_annotation', None) is not None else 0]
                               for key, box in stream.marked] for stream in page_stream_objects(recorder)]
                facts = ua_link_facts(pdf)
                has_links = not facts.startswith('objr= ')
                sec_ua.add(sx.line('ualinks', *wire_pages), facts, meta=meta, nontrivial=has_links,
                           tags=['ua:links' if has_links else 'ua:no-link', f'ua:pages{min(len(wire_pages), 3)}'])
            # fonts: /Font keys and undefined Tf names
            fonts = list(document.fonts.values())
            used, undefined, font_keys = [], [], None
            for label, ops, cats in pdfread.content_streams(pdf):
                if font_keys is None:
                    font_keys = [str(k) for k in cats['Font']]
                for op, operands in ops:
                    if op == 'Tf' and operands and isinstance(operands[0], pdfread.Name):
                        name = str(operands[0])
                        if name not in used:
                            used.append(name)
                        if name not in cats['Font'] and name not in undefined:
                            undefined.append(name)
            acro_form = 'AcroForm' in pdf.catalog
            empty = [f.hash for f in fonts if not f.cmap]
            sec_fonts.add(
                sx.line('fontdict', acro_form, used, *[[f.hash, bool(f.bitmap), bool(f.used_in_forms)] for f in fonts]),
                f'F={",".join(font_keys or [])} U={",".join(undefined)}', meta=meta,
                nontrivial=len(fonts) > 1 or bool(empty),
                tags=[f'fonts{min(len(fonts), 5)}', 'acroform' if acro_form else 'no-acroform'] +
                     (['font:empty-cmap'] if empty else []) + (['font:used-in-forms'] if any(
                         f.used_in_forms for f in fonts) else []) + (['font:bitmap'] if any(f.bitmap for f in fonts) else []))
            if recorder is not None:
                seen_lines = set()
                for runs, tfs in apilog.text_lines(recorder.font_events):
                    # add_font is called on a change of PangoFont only: consecutive calls are different objects
                    line = sx.line('textfonts', *[[i, key, name, bitmap, pdfstream.num(size)]
                                                  for i, (key, name, bitmap, size) in enumerate(runs)])
                    got = ' '.join('missing' if tf is None else f'{tf[0]}:{pydyf_number(tf[1])}' for tf in tfs)
                    if (line, got) not in seen_lines:
                        seen_lines.add((line, got))
                        sec_fonts.add(line, got, meta=meta, nontrivial=len(runs) > 1,
                                      tags=[f'line-fonts{min(len(runs), 3)}'])
            # the file around the objects: pydyf's writer against Model/PdfFile, the Lean file checker on the real bytes
            version, identifier = resolved_write_args(opts)
            classic = data[pdf.xref_pos:pdf.xref_pos + 5] == b'xref\n'
            import pydyf
            sec_file.add(sx.line('objstreams', pydyf._to_bytes(version or b'1.7').decode(), not opts['uncompressed_pdf']),
                         str(not classic).lower(), meta=meta, tags=['objstreams:' + str(not classic)])
            if classic and capture and len(data) <= 150_000 and file_budget[0] >= len(data):
                file_budget[0] -= len(data)
                sec_file.add(pdffile.writefile_line(capture[0], version, identifier),
                             pdffile.written_text(data, capture[0]), meta=meta, tags=['writefile'])
                sec_file.add(sx.line('checkfile', pdffile.hx(data)), f'ok n={pdf.xref_size} xref={pdf.xref_pos}',
                             meta=meta, tags=['checkfile'])
            elif classic:
                run.extra['file_budget_skipped'] = run.extra.get('file_budget_skipped', 0) + 1
            keys = dest_keys(pdf)
            if keys:
                names = [decode_key(k) for k in keys]
                sec_file.add(sx.line('destnames', *[[ord(c) for c in n] for n in reversed(names)]),
                             ' '.join(pdffile.hx(k) for k in keys), meta=meta, nontrivial=len(keys) > 1,
                             tags=['destnames', 'destnames:non-ascii' if any(not n.isascii() for n in names) else
                                   'destnames:ascii'])
            keys = name_tree_keys(pdf, 'EmbeddedFiles')
            if keys:
                sec_file.add(sx.line('embeddednames', *[list(k) for k in reversed(keys)]),
                             ' '.join(pdffile.hx(k) for k in keys), meta=meta, nontrivial=len(keys) > 1,
                             tags=['embeddednames', f'embedded{min(len(keys), 4)}'])
            if i % 10 == 0:
                problem = compression_problem(html, opts)
                run.extra['compressed_vs_plain_checked'] = run.extra.get('compressed_vs_plain_checked', 0) + 1
                if problem:
                    sec.add(sx.line('check', [], [], [], [], [], [], [], []), 'compression: ' + problem, meta=meta,
                            tags=['compressed-vs-plain-differs'])
            zoom = Fraction(opts['zoom'])
            sec_tree.add(sx.line('pagetree', zoom, *page_geoms(document)), page_tree_text(pdf), meta=meta,
                         nontrivial=zoom != 1 or geo['bleed'] > 0, tags=[f'pages{min(len(document.pages), 4)}'])

        run.extra['known_structure_findings_met'] = dict(KNOWN_STRUCTURE_SEEN)
        run.extra['skeleton_model_branches_never_hit'] = sorted(set(SKELETON_BRANCHES) - set(sec_skel.tags))
        run.extra['variants_never_rendered'] = sorted(
            {f'variant:{v}' for v in c16docs.VARIANTS} - set(sec.tags))

    # ---- judge / search / replay --------------------------------------------------------------------------------
    def judge(self, d):
        section, meta = d['section'], d.get('meta') or {}
        if section == 'font-arrays':
            return font_array_problem(d['line'], d['impl'], meta)
        if section == 'families':
            if 'steps' in meta:
                return sequence_problem(meta['html'], meta['steps'])
            what = document_problem(meta['html'], decode_options(meta['options']))
            return f'{what} [options {meta["options"]}]' if what else None
        if section == 'regressions':
            what = document_problem(meta['html'], decode_options(meta['options']))
            extra = REGRESSION_INPUTS[meta['regression']][2]
            what = what or (extra() if extra else None)
            return f'repaired finding {meta["regression"]} is back: {what}' if what else None
        if section == 'document-file' and d['line'].startswith('destnames'):
            keys = d['impl'].split()
            if any(not bytes.fromhex(a[1:]) < bytes.fromhex(b[1:]) for a, b in zip(keys, keys[1:])):
                return (f'/Dests name tree keys {[bytes.fromhex(k[1:]) for k in keys]} are not sorted by bytes '
                        f'(PDF 32000-1 7.9.6) [options {meta["options"]}]')
            return None
        if section in ('document-streams', 'document-api', 'document-skeleton', 'document-file', 'document-fonts',
                       'document-gradients', 'document-backgrounds'):
            # every disagreement is one document rendered again: judge the first few, the rest adds nothing
            self._doc_judged = self.__dict__.get('_doc_judged', 0) + 1
            if self._doc_judged > 8 and self.__dict__.get('_kinds_judged'):
                return None
            opts = decode_options(meta['options'])
            what = document_problem(meta['html'], opts)
            if not what:
                return None
            # shrink the input (bounded): fewer options, then a smaller document with the same kind of failure
            kind = problem_kind(what)
            seen = self.__dict__.setdefault('_kinds_judged', set())
            meta['signature'] = kind
            if kind in seen:          # same kind of failure already shrunk in this run: report without shrinking
                return f'{what} [options {meta["options"]}]'
            seen.add(kind)
            small = {k: v for k, v in opts.items() if k in ('pdf_variant', 'pdf_forms')}
            if problem_kind(document_problem(meta['html'], small)) == kind:
                opts = small
            html = htmlmin.minimise(
                meta['html'], lambda h: problem_kind(document_problem(h, opts)) == kind, budget_s=12)
            meta['html'], meta['options'] = html, {
                k: (v.decode() if isinstance(v, bytes) else v) for k, v in opts.items()}
            meta['signature'] = kind
            return f'{document_problem(html, opts)} [options {meta["options"]}]'
        if section == 'page-tree':
            if d['impl'].split(' | ')[0] != d['model'].split(' | ')[0]:
                return f'page tree lists {d["impl"].split(" | ")[0]} pages, rendered {d["model"].split(" | ")[0]}'
            for i, (got, want) in enumerate(zip(d['impl'].split(' | ')[1:], d['model'].split(' | ')[1:])):
                if got != want:
                    return (f'page {i}: boxes {got}, but page size x 0.75 x zoom plus bleed gives {want} '
                            f'[zoom {meta["options"]["zoom"]}]')
        if section == 'stream-scripts':
            what = script_problem(meta, d['impl'])
            if what or self.__dict__.get('_cache_judged', 0) >= 1:
                return what
            what = cache_problem(self.driver, meta)
            if what:
                self._cache_judged = self.__dict__.get('_cache_judged', 0) + 1
            return what
        if section == 'marked-content-tag':
            want = EXPECTED_TAGS.get(meta['tag'])
            if want and d['impl'] != want:
                return f'get_marked_content_tag({meta["tag"]!r}) = {d["impl"]!r}, the structure type of <{meta["tag"]}> is {want}'
        return None

    def search(self, run, failures):
        found = []
        rng = run.rng
        # the structure types of the HTML elements that have one, on the real function
        from weasyprint.pdf.stream import Stream
        for tag, want in EXPECTED_TAGS.items():
            run.search_stats['evaluations'] += 1
            got = Stream.get_marked_content_tag(None, tag)
            if got != want:
                found.append({'what': f'get_marked_content_tag({tag!r}) = {got!r}, the structure type of <{tag}> is '
                                      f'{want}', 'input': {'tag': tag}, 'signature': f'tag:{tag}'})
        if found:
            return found[:3]
        budget = run.n(60, 600)
        for i in range(budget):
            variant = c16docs.VARIANTS[i % len(c16docs.VARIANTS)]
            html, _ = c16docs.document(rng, depth=rng.choice([1, 2, 3]))
            opts = c16docs.options(rng, variant)
            run.search_stats['evaluations'] += 1
            what = document_problem(html, opts)
            if what is None and i % 5 == 0:
                what = compression_problem(html, opts)
            if what:
                options = {k: (v.decode() if isinstance(v, bytes) else v) for k, v in opts.items()}
                found.append({'what': what, 'input': {'html': html, 'options': options}, 'signature': what[:80]})
                if len(found) >= 3:
                    break
        return found

    def finding_replays(self):
        replays = {name: (lambda name=name: crash_replay(name)) for name in CRASH_INPUTS}
        replays['pattern-zero-step'] = pattern_zero_step_replay
        replays['mcid-in-group-stream'] = mcid_in_group_replay
        replays['objr-not-in-structure-tree'] = objr_not_in_tree_replay
        return replays

    def replay(self, data):
        inp = data.get('input', {})
        meta = inp.get('meta') if isinstance(inp.get('meta'), dict) else inp
        if 'html' in meta:
            opts = decode_options(meta['options'])
            what = document_problem(meta['html'], opts) or compression_problem(meta['html'], opts)
            extra = REGRESSION_INPUTS.get(meta.get('regression'), (None, None, None))[2]
            if what is None and extra is not None:
                what = extra()
            if what or inp.get('section') != 'page-tree':
                return what
            document, pdf_bytes = render_pdf(meta['html'], opts)
            pdf = pdfread.Document(pdf_bytes)
            from vlib import lean
            got = page_tree_text(pdf)
            want = lean.run_driver(self.driver, [sx.line('pagetree', Fraction(opts.get('zoom', 1)), *page_geoms(document))])[0]
            return None if got == want else f'page boxes {got} != {want}'
        if 'widths' in meta:
            return font_array_replay(meta)
        if 'steps' in meta:
            return sequence_problem(meta['html'], meta['steps'])
        if 'tag' in meta:
            from weasyprint.pdf.stream import Stream
            got, want = Stream.get_marked_content_tag(None, meta['tag']), EXPECTED_TAGS.get(meta['tag'])
            return None if want is None or got == want else f'get_marked_content_tag({meta["tag"]!r}) = {got!r} != {want!r}'
        if 'script' in meta:
            script = pdfstream.from_json(meta['script'])
            out = pdfstream.RealWorld(meta['mark'], meta['pages']).run(script)
            return script_problem(meta, out) or cache_problem(self.driver, dict(meta))
        return None


# Branches of Model/PdfStream a script can take (reported in the evidence; `…never_hit` lists the ones a run missed).
STREAM_BRANCHES = [
    'pop-drops-q', 'bt-merges', 'color-cache-hit', 'alpha-cache-hit', 'font-cache-hit', 'err:AssertionError',
    # (the IndexError branches of the model are unreachable: theorem C16.stream_raises_only_assert)
    'space:rgb', 'space:labD65', 'space:labD50', 'space:other', 'colour:none-component',
    'colour:stroke', 'alpha:stroke-only', 'alpha:fill-only', 'alpha:both', 'alpha:neither', 'marked:off',
    'marked:mcid', 'marked:bmc', 'marked:explicit-tag', 'state:alpha', 'state:plain', 'blend', 'transform',
    'call:group', 'call:pattern', 'call:shading', 'call:image', 'call:image-again', 'call:alphastate', 'call:clone',
    'scn:pattern', 'scn:numbers', 'text-op-in-text', 'streams>1']
SPACE_CLASS = {'srgb': 'rgb', 'hsl': 'rgb', 'hwb': 'rgb', 'xyz-d65': 'labD65', 'oklab': 'labD65', 'oklch': 'labD65',
               'xyz-d50': 'labD50', 'lab': 'labD50', 'lch': 'labD50'}


def script_branches(script, mark):
    tags, images = set(), set()
    for call in script:
        if call[0] != 'on':
            kind = call[0]
            if kind == 'image':
                key = (call[1], call[2], call[3])
                tags.add('call:image-again' if key in images else 'call:image')
                images.add(key)
            else:
                tags.add(f'call:{kind}')
            if kind in ('group', 'pattern', 'alphastate', 'clone'):
                tags.add('streams>1')
            continue
        name, args = call[2], call[3:]
        if name == 'color':
            tags.add('space:' + SPACE_CLASS.get(args[0].space, 'other'))
            if any(c is None for c in args[0].coordinates):
                tags.add('colour:none-component')
            if args[1]:
                tags.add('colour:stroke')
        elif name == 'alpha':
            stroke = bool(args[1])
            fill = (not stroke) if args[2] is None else bool(args[2])
            tags.add({(True, False): 'alpha:stroke-only', (False, True): 'alpha:fill-only', (True, True): 'alpha:both',
                      (False, False): 'alpha:neither'}[(stroke, fill)])
        elif name == 'bm':
            tags.add('marked:off' if not mark else 'marked:explicit-tag' if args[2] else
                     'marked:mcid' if args[1] else 'marked:bmc')
        elif name == 'state':
            tags.add('state:alpha' if args[0] is not None or args[1] is not None else 'state:plain')
        elif name == 'blend':
            tags.add('blend')
        elif name == 'tr':
            tags.add('transform')
        elif name == 'scn':
            tags.add('scn:pattern' if args[0] is not None else 'scn:numbers')
        elif name == 'raw' and args[0] in ('set_text_matrix', 'show_text', 'move_text_to'):
            tags.add('text-op-in-text')
    return sorted(tags)


SKELETON_BRANCHES = ['ctx:opacity', 'ctx:regular', 'ctx:singular', 'ctx:opacity+singular', 'ctx:root_clip',
                     'ctx:abs_clip', 'ctx:clip']


def api_events(log):
    """Which interesting call patterns a recorded run contains (evidence histogram)."""
    names = [c[2] for c in log if c[0] == 'on']
    tags = set()
    for a, b in zip(names, names[1:]):
        if (a, b) == ('push', 'pop'):
            tags.add('empty-stacked')
        if (a, b) == ('et', 'bt') or (a, b) == ('et', 'color'):
            tags.add('adjacent-text-runs')
    for kind in ('group', 'pattern', 'shading', 'image', 'alphastate', 'clone', 'assignsh'):
        if any(c[0] == kind for c in log):
            tags.add(f'call:{kind}')
    return sorted(tags)


def context_kinds(props):
    kinds = []
    if props['opacity'] < 1:
        kinds.append('opacity')
    if props['transform'] != 'none':
        kinds.append(props['transform'])
    if props['opacity'] < 1 and props['transform'] == 'singular':
        kinds.append('opacity+singular')
    for key in ('root_clip', 'abs_clip', 'clip'):
        if props[key]:
            kinds.append(key)
    return kinds


# Crashes of write_pdf already recorded in known_findings.txt: (exception class, innermost weasyprint function).
KNOWN_CRASHES = {
    # Color.to('srgb') exists only for srgb / hsl / hwb: gradients (images.py) and 3D border styles (draw/color.py)
    ('NotImplementedError', 'draw'): 'colour-to-srgb-not-implemented',
    ('NotImplementedError', 'darken'): 'colour-to-srgb-not-implemented',
    ('NotImplementedError', 'lighten'): 'colour-to-srgb-not-implemented',
}

PAGE_CSS = '<style>@page{size:100px}body{margin:0;font-size:10px}</style>'
CRASH_INPUTS = {
    'colour-to-srgb-not-implemented': (PAGE_CSS + '<div style="border:4px groove lab(50 20 30)">a</div>', {}),
}


def crash_replay(finding_id):
    html, opts = CRASH_INPUTS[finding_id]
    try:
        render_pdf(html, opts)
    except Exception as exc:  # noqa: BLE001
        return KNOWN_CRASHES.get(crash_signature(exc)) == finding_id
    return False


def pattern_zero_step_replay():
    """`background-repeat: space` on an empty block: is a tiling pattern with a zero step still written?"""
    _, data = render_pdf(PAGE_CSS + f'<p style="background:url({c16docs.PNG2_URI}) space"></p>', {})
    pdf = pdfread.Document(data)
    return any(isinstance(v, pdfread.PdfStream) and v.extra.get('PatternType') == 1 and
               0 in (v.extra.get('XStep'), v.extra.get('YStep')) for v in pdf.objects.values())


EMBEDDED_OPTS = {'attachments': [['a b', '1'], ['a', '2'], ['aA', '3'], ['a(', '4']]}


def embedded_files_regression():
    """Fixed finding embedded-files-sorted-by-serialised-key: attachments `a b`, `a`, `aA`, `a(` give the keys in byte
    order a, a b, a(, aA (not `a b` before `a`, nor `a(` after `aA`)."""
    _, data = render_pdf(PAGE_CSS + '<p>a</p>', EMBEDDED_OPTS)
    keys = name_tree_keys(pdfread.Document(data), 'EmbeddedFiles')
    if keys != [b'a', b'a b', b'a(', b'aA']:
        return f'/EmbeddedFiles keys of the attachments `a b`, `a`, `aA`, `a(` are {keys!r}, sorted by bytes: a, a b, a(, aA'
    return None


def page_stream_objects(recorder):
    """The page streams of a recorded run: the streams `generate_pdf` created itself (marked by the recorder when it
    logs `newpage`), in page order."""
    return [s for s in recorder.streams if getattr(s, '_verif_page', False)]


def ua_link_facts(pdf):
    """From the bytes of a tagged PDF: the annotation of every /OBJR (object order = creation order), the /ParentTree
    entries that lead to an /OBJR (key:annotation), /StructParent of those annotations (annotation:key), and how many
    /OBJR dictionaries are a kid (/K) of some structure element."""
    objrs = [(number, obj) for number, obj in sorted(pdf.objects.items())
             if isinstance(obj, dict) and obj.get('Type') == 'OBJR']
    annots = [tuple(obj['Obj'])[0] for _, obj in objrs]
    root = pdf.resolve(pdf.catalog.get('StructTreeRoot'))
    tree = pdf.resolve(root.get('ParentTree')) if isinstance(root, dict) else None
    nums = pdf.resolve(tree.get('Nums')) if isinstance(tree, dict) else []
    entries = []
    for key, value in zip(nums[::2], nums[1::2]):
        entry = pdf.resolve(value)
        if isinstance(entry, dict) and entry.get('Type') == 'OBJR':
            entries.append(f'{key}:{tuple(entry["Obj"])[0]}')
    parents = []
    for annot in annots:
        parents.append(f'{annot}:{pdf.resolve(pdfread.Ref(annot, 0)).get("StructParent")}')
    objr_keys = {number for number, _ in objrs}
    kids = 0
    for obj in pdf.objects.values():
        if isinstance(obj, dict) and obj.get('Type') == 'StructElem':
            k = obj.get('K')
            for kid in (k if isinstance(k, list) else [k]):
                if (isinstance(kid, pdfread.Ref) and tuple(kid) in objr_keys) or (
                        isinstance(kid, dict) and kid.get('Type') == 'OBJR'):
                    kids += 1
    return f'objr={",".join(map(str, annots))} nums={",".join(entries)} sp={",".join(parents)} kids={kids}'


def objr_not_in_tree_replay():
    """pdf/ua-1 with one internal link: is the /OBJR still a kid of no structure element?"""
    _, data = render_pdf(PAGE_CSS + '<p><a href="#n">n</a></p><p id="n">n</p>', {'pdf_variant': 'pdf/ua-1'})
    facts = ua_link_facts(pdfread.Document(data))
    return facts.startswith('objr=') and not facts.startswith('objr= ') and facts.endswith('kids=0')


def mcid_in_group_replay():
    """Tagged PDF: do marked-content identifiers still restart at 0 inside an opacity group (a form XObject without
    /StructParents), colliding with the page's own MCIDs?"""
    _, data = render_pdf(PAGE_CSS + '<p>a</p><div style="opacity:.5"><p>b</p></div>', {'pdf_variant': 'pdf/ua-1'})
    pdf = pdfread.Document(data)
    for label, ops, _ in pdfread.content_streams(pdf):
        if '/X:' in label and any(o == 'BDC' and isinstance(a[1], dict) and 'MCID' in a[1] for o, a in ops):
            form = [v for v in pdf.objects.values() if isinstance(v, pdfread.PdfStream) and
                    v.extra.get('Subtype') == 'Form']
            return not any('StructParents' in f.extra for f in form)
    return False


ALPHA_STATE_HTML = (
    PAGE_CSS.replace('font-size:10px', 'font-size:10px;color:rgba(255,0,0,0.5)') + '<p style="margin:0">aa</p>'
    f'<div style="position:relative;mask-border:url({c16docs.PNG_URI}) 1">bb</div>')


def alpha_state_regression():
    """Fixed finding alpha-state-stale-cache: the second text of colour rgba(255,0,0,.5), drawn after a mask-border soft
    mask (ExtGState with ca 1) was set, must be executed under ca 0.5.  -> text | None"""
    _, data = render_pdf(ALPHA_STATE_HTML, {'uncompressed_pdf': True})
    pdf = pdfread.Document(data)
    label, ops, cats = pdfread.content_streams(pdf)[0]
    alphas = text_fill_alphas(pdf, ops, cats)
    if alphas != [Fraction(1, 2), Fraction(1, 2)]:
        return (f'texts of colour rgba(255,0,0,.5) before and after a mask-border soft mask are painted under fill alpha '
                f'{[str(a) for a in alphas]}, requested 1/2 and 1/2 (stale _current_alpha after set_alpha_state)')
    return None


def text_fill_alphas(pdf, ops, cats):
    """Fill alpha (`ca`) in effect at every text-showing operator: a graphics-state interpreter on the real stream."""
    current, stack, out = Fraction(1), [], []
    for op, operands in ops:
        if op == 'q':
            stack.append(current)
        elif op == 'Q' and stack:
            current = stack.pop()
        elif op == 'gs':
            state = pdf.resolve(cats['ExtGState'][operands[0]])
            if 'ca' in state:
                value = state['ca']
                current = Fraction(value.text) if isinstance(value, pdfread.Real) else Fraction(value)
        elif op in ('TJ', 'Tj'):
            out.append(current)
    return out


def crash_signature(exc):
    import traceback
    frames = [f for f in traceback.extract_tb(exc.__traceback__) if '/weasyprint/' in f.filename]
    name = frames[-1].name if frames else '?'
    if name == 'percentage' and len(frames) > 1:       # a shared helper: the caller says which computation failed
        name = f'{frames[-2].name}>percentage'
    return (type(exc).__name__, name)


def problem_kind(what):
    """Failure kind of a `document_problem` text: stream labels, indices and operand lists removed."""
    import re
    if not what:
        return None
    text = what.split(' [options')[0]
    text = re.sub(r'^content stream [^ ]+: ', 'content stream: ', text)
    text = re.sub(r'\(open: .*\)|\[[^\]]*\]|\d+', '#', text)
    return text[:70]


def dest_keys(pdf):
    """Keys (bytes) of the /Dests name array of the catalog, in array order."""
    names = pdf.resolve(pdf.catalog.get('Names'))
    dests = pdf.resolve(names.get('Dests')) if isinstance(names, dict) else None
    array = pdf.resolve(dests.get('Names')) if isinstance(dests, dict) else None
    return [bytes(k) for k in array[::2]] if isinstance(array, list) else []


def decode_key(key):
    return key[2:].decode('utf-16-be') if key[:2] == b'\xfe\xff' else key.decode('ascii')


DESTS_HTML = PAGE_CSS + '<a href="#a\u00e9">x</a><a href="#b">y</a><p id="a\u00e9">1</p><p id="b">2</p>'


def dests_regression():
    """Fixed finding dests-names-unsorted: anchors `aé` and `b` give two keys, `b` first (its byte 62 < FE)."""
    _, data = render_pdf(DESTS_HTML, {})
    keys = dest_keys(pdfread.Document(data))
    if keys != [b'b', b'\xfe\xff\x00a\x00\xe9']:
        return f'/Dests keys of anchors `a\u00e9`, `b` are {keys!r}, sorted by bytes they are b, <FEFF 0061 00E9>'
    return None


# Failing inputs of the repaired findings (fixed: lines): html, options, extra observation (-> text | None) or None.
REGRESSION_INPUTS = {
    'border-dash-zero-division': (
        PAGE_CSS + '<div style="border:3px dashed red;border-radius:50%;width:1px;height:1px"></div>', {}, None),
    'cidset-empty-font': (PAGE_CSS + '<input>', {'pdf_forms': True, 'pdf_variant': 'pdf/a-1b'}, None),
    'column-float-unbound-local': (
        '<style>@page{size:64px 80px;margin:5px}body{font-size:10px;margin:0}</style> d<table><td style="border:4px '
        'groove gray">bb cc</td></table><div style="border:3px dashed rgba(0,0,0,0.5);column-count:2"><table><td '
        'style="border:3px dashed rgba(0,0,0,0.5)">d</td></table><table style="float:right"><td style="border:3px '
        'dashed rgba(0,0,0,0.5)">aa</td></table></div>', {}, None),
    'none-component-unsupported-space': (
        PAGE_CSS + '<p style="color:color(display-p3 none 0 1);border:1px solid color(rec2020 0 none 1 / 0.5)">a</p>',
        {'uncompressed_pdf': True}, None),
    'alpha-state-stale-cache': (ALPHA_STATE_HTML, {'uncompressed_pdf': True}, alpha_state_regression),
    'dests-names-unsorted': (DESTS_HTML, {}, dests_regression),
    'embedded-files-sorted-by-serialised-key': (PAGE_CSS + '<p>a</p>', EMBEDDED_OPTS, embedded_files_regression),
    'gradient-stop-length-not-computed': (
        PAGE_CSS + '<div style="border:3px solid;border-image:linear-gradient(red 0, blue) 1">a</div>'
        '<p style="mask-border:linear-gradient(red 1em, rgba(0,0,255,0.5)) 1;background:red">b</p>'
        '<ul><li style="list-style-image:radial-gradient(red 0, blue 1em)">c</li></ul>', {}, None),
    'emc-on-group-stream': (
        PAGE_CSS + '<div style="opacity:.5;transform:scale(0)">a</div><p>b</p>', {'pdf_variant': 'pdf/ua-1'}, None),
}


def resolved_write_args(opts):
    """(version, identifier) as `Document.write_pdf` passes them to `PDF.write` (variant defaults applied; that
    resolution itself is modelled by C19's WriteSinks)."""
    from weasyprint.pdf import VARIANTS
    version, identifier = opts.get('pdf_version'), opts.get('pdf_identifier')
    if opts.get('pdf_variant'):
        properties = VARIANTS[opts['pdf_variant']][1]
        if 'version' in properties and not version:
            version = properties['version']
        if 'identifier' in properties and not identifier:
            identifier = properties['identifier']
    return version, identifier


def decode_options(options):
    opts = dict(options)
    if isinstance(opts.get('pdf_identifier'), str):
        opts['pdf_identifier'] = opts['pdf_identifier'].encode()
    return opts


def compression_problem(html, opts):
    """Compressed and uncompressed output decode to the same content streams."""
    try:
        _, plain = render_pdf(html, dict(opts, uncompressed_pdf=True))
        _, packed = render_pdf(html, dict(opts, uncompressed_pdf=False))
        a = [(label, ops) for label, ops, _ in pdfread.content_streams(pdfread.Document(plain))]
        b = [(label, ops) for label, ops, _ in pdfread.content_streams(pdfread.Document(packed))]
    except pdfread.PdfError as exc:
        return f'independent reader: {exc}'
    if a != b:
        return 'compressed and uncompressed output decode to different content streams'
    return None


# PDF 32000-1 §14.8.4 structure types of the HTML elements that have one (same table as Props/C16.lean tags_expected)
EXPECTED_TAGS = {
    'div': 'Div', 'span': 'Span', 'article': 'Art', 'section': 'Sect', 'blockquote': 'BlockQuote', 'p': 'P',
    'h1': 'H1', 'h2': 'H2', 'h3': 'H3', 'h4': 'H4', 'h5': 'H5', 'h6': 'H6', 'dl': 'L', 'ul': 'L', 'ol': 'L',
    'li': 'LI', 'dt': 'LI', 'dd': 'LI', 'table': 'Table', 'tr': 'TR', 'th': 'TH', 'td': 'TD', 'thead': 'THead',
    'tbody': 'TBody', 'tfoot': 'TFoot', 'a': 'NonStruct', 'img': 'NonStruct', 'html': 'NonStruct', 'body': 'NonStruct'}

PAINT_TOKENS = {'f', 'f*', 'S', 'B', 'B*', 'n'}


def paint_states(tokens):
    """Reference graphics-state interpreter on canonical tokens: every painting operator with the fill colour, stroke
    colour, fill alpha, stroke alpha and font it is executed under (alpha from the `a…` / `A…` keys)."""
    state = {'fill': None, 'stroke': None, 'ca': None, 'CA': None, 'font': None}
    stack, out = [], []
    for tok in tokens:
        if tok == 'q':
            stack.append(dict(state))
        elif tok == 'Q':
            if stack:
                state = stack.pop()
        elif tok.endswith('_rg') or tok.endswith('_cs'):
            state['fill'] = tok
        elif tok.endswith('_RG') or tok.endswith('_CS'):
            state['stroke'] = tok
        elif tok.endswith('_scn'):
            state['fill'] = (state['fill'], tok)
        elif tok.endswith('_SCN'):
            state['stroke'] = (state['stroke'], tok)
        elif tok.endswith('_gs'):
            name = tok[1:-3]
            if name[0] == 'a':
                state['ca'] = name[1:]
            elif name[0] == 'A':
                state['CA'] = name[1:]
        elif tok.endswith('_Tf'):
            state['font'] = tok
        elif tok in PAINT_TOKENS or tok.endswith('_TJ') or tok.endswith('_Do') or tok.endswith('_sh'):
            out.append((tok, dict(state)))
    return out


def cache_problem(driver, meta, line=None, impl_out=None):
    """cache_sound stated directly: every painting operator of the real stream is executed under the colour, alpha and
    font the caller last requested, i.e. under the state of the cache-free reference emission of the same calls.
    The raw pydyf-level calls that bypass the caches by construction (a bare set_state with ca/CA, cs, scn: the
    hypothesis `Call.cacheSafe` of theorem cache_sound) are first replaced by neutral ones; `set_alpha_state` is kept
    (since its repair it must be cache-sound: fixed finding alpha-state-stale-cache); the cleaned script is run again on
    the real Stream."""
    from vlib import lean
    clean = []
    for call in meta['script']:
        if call[0] == 'on' and call[2] == 'state':
            clean.append(['on', call[1], 'state', None, None, call[5]])
        elif call[0] == 'on' and call[2] in ('cs', 'scn'):
            continue
        else:
            clean.append(list(call))
    def mismatch(rows):
        script = pdfstream.from_json(rows)
        impl_out = pdfstream.RealWorld(meta['mark'], meta['pages']).run(script)
        if not impl_out.startswith('ok | '):
            return None
        line = pdfstream.script_line(meta['mark'], meta['pages'], script)
        reference = lean.run_driver(driver, ['scriptnaive' + line[len('script'):]])[0]
        if not reference.startswith('ok | '):
            return None
        real = [part.partition(' :')[2].split() for part in impl_out.split(' || ')[0].split(' | ')[1:]]
        ref = [part.partition(' :')[2].split() for part in reference.split(' | ')[1:]]
        for i, (a, b) in enumerate(zip(real, ref)):
            got, want = paint_states(a), paint_states(b)
            for k, (g, w) in enumerate(zip(got, want)):
                if g != w:
                    diff = {key: (g[1][key], w[1][key]) for key in g[1] if g[1][key] != w[1][key]}
                    return (f'stream {i}: painting operator {k} `{g[0]}` is executed under {diff} (actual, requested): '
                            f'a setter was skipped although the graphics state no longer holds the cached value',
                            'cache:' + ','.join(sorted(diff)))
            if len(got) != len(want):
                return f'stream {i}: {len(got)} painting operators, the calls ask for {len(want)}', 'cache:count'
        return None

    clean = pdfstream.jsonable(pdfstream.from_json(clean))
    found = mismatch(clean)
    if not found:
        return None
    # greedy shrinking: drop calls on streams one by one while the same kind of mismatch remains
    index = len(clean) - 1
    while index >= 0 and len(clean) > 1:
        if clean[index][0] == 'on':
            trial = clean[:index] + clean[index + 1:]
            again = mismatch(trial)
            if again and again[1] == found[1]:
                clean, found = trial, again
        index -= 1
    meta['script'] = clean
    meta['signature'] = found[1]
    return found[0]


NUMERIC_ARITY = {'rg': 3, 'RG': 3, 'cm': 6, 're': 4, 'm': 2, 'l': 2, 'w': 1, 'J': 1, 'j': 1, 'M': 1, 'Tm': 6, 'Td': 2,
                 'Ts': 1}
PDF_NUMBER = __import__('re').compile(r'[+-]?(\d+\.?\d*|\.\d+)')


def script_problem(meta, impl_out):
    """C16 clauses on the real Stream after an API-level well-bracketed script: no exception, every stream balanced,
    every name an operator uses is a key of the stream's resource dictionary."""
    script = meta['script']
    stacks = {}
    for call in script:
        if call[0] != 'on':
            continue
        stack = stacks.setdefault(call[1], [])
        name = call[2]
        if name in ('push', 'bt', 'bm'):
            stack.append({'push': 'q', 'bt': 'T', 'bm': 'M'}[name])
        elif name in ('pop', 'et', 'em'):
            if not stack or stack[-1] != {'pop': 'q', 'et': 'T', 'em': 'M'}[name]:
                return None      # not well bracketed at the API level: the property says nothing
            stack.pop()
        elif 'T' in stack and (name in ('tr', 'dox', 'doi', 'sh') or (
                name == 'raw' and call[3] in ('rectangle', 'clip', 'end', 'fill', 'stroke', 'fill_and_stroke',
                                              'move_to', 'line_to', 'close'))):
            return None
        elif 'T' not in stack and name == 'raw' and call[3] in ('set_text_matrix', 'move_text_to', 'show_text'):
            return None
    if any(stacks.values()):
        return None
    if impl_out.startswith('err:'):
        return f'well-bracketed API sequence raised {impl_out[4:]}'
    streams, resources = impl_out.split(' || ')[0:2]
    res_list = resources.split(' | ')
    for i, part in enumerate(streams.split(' | ')[1:]):
        head, _, toks = part.partition(' :')
        res = int(head.split()[1].split('=')[1])
        fields = dict(f.split('=', 1) for f in res_list[res].split()[1:])
        extg = fields['E'].split(',')
        xobj = [x.split(':')[0] for x in fields['X'].split(',')]
        stack = []
        for tok in toks.split():
            op = tok.rsplit('_', 1)[-1]
            pieces = tok.split('_')[:-1]
            if op in NUMERIC_ARITY and (len(pieces) != NUMERIC_ARITY[op] or not all(
                    PDF_NUMBER.fullmatch(x) for x in pieces)):
                return f'stream {i}: `{tok}`: `{op}` takes {NUMERIC_ARITY[op]} numbers'
            if op in ('scn', 'SCN'):
                numbers = pieces[:-1] if pieces and pieces[-1].startswith('/') else pieces
                if not pieces or not all(PDF_NUMBER.fullmatch(x) for x in numbers):
                    return f'stream {i}: `{tok}`: `{op}` takes numbers and an optional pattern name'
            if op in ('q', 'BT', 'BMC', 'BDC'):
                stack.append({'q': 'q', 'BT': 'BT'}.get(op, 'BMC'))
            elif op in ('Q', 'ET', 'EMC'):
                want = {'Q': 'q', 'ET': 'BT', 'EMC': 'BMC'}[op]
                if not stack or stack[-1] != want:
                    return f'stream {i}: `{op}` does not close the innermost open bracket ({stack})'
                stack.pop()
            elif op == 'gs' and tok[1:-3] not in extg:
                return f'stream {i}: `{tok}` not in ExtGState {extg}'
            elif op == 'Do' and tok[1:-3] not in xobj:
                if any(c[0] == 'on' and c[2] in ('dox', 'doi') for c in script):
                    continue     # the script itself may name an unregistered object
                return f'stream {i}: `{tok}` not in XObject {xobj}'
        if stack:
            return f'stream {i}: unclosed {stack}'
    return None


PROP = C16()

MANIFEST = {
    'design_ref': 'DESIGN.md §4 C16',
    'technique': 'Lean 4 theorems over hand models of pdf/stream.py Stream (operator state machine with caches and '
                 'peepholes, resource registration), draw/stack.py, the bracket skeleton of draw_stacking_context and the '
                 'page loop of generate_pdf; a Lean content-stream checker with a soundness theorem; executable '
                 'correspondence: random API scripts on the real Stream, and — on generated documents under every '
                 'pdf_variant — replay of every recorded API call through the model, prediction of '
                 'draw_stacking_context\'s own calls, the checker on every stream of the written PDF, the page tree',
    'text': 'Proved for all inputs: API-level bracketing implies balanced q/Q, BT/ET, BDC|BMC/EMC with both peepholes '
            'and `assert self._ctm_stack` unreachable (balanced); the checker implies the declarative stream clauses '
            '(check_sound); draw_stacking_context is stack-neutral and every group stream ends balanced, incl. opacity + '
            'singular transform (skeleton_balanced); every gs/Do/sh/pattern name is a key of the emitting stream\'s '
            'dictionary and generated keys are fresh (resources_defined, keys_fresh); caches are sound when nothing '
            'changes alpha/colour behind them through the raw pydyf setters, set_alpha_state included since its repair '
            '(cache_sound); one page object per page with the box arithmetic, all three page boxes scale with zoom '
            '(page_tree, page_boxes, page_boxes_zoom); file '
            'level: xref offsets and startxref of pydyf\'s writer model are correct for every object list '
            '(xref_offsets_correct), the Lean file checker is sound and accepts everything the writer model produces '
            '(check_file_sound, checker_accepts_writer); Stream can only raise the unmatched-pop assertion '
            '(stream_raises_only_assert); sub-resource dictionaries are never shared (resources_unshared); /Dests keys '
            'sorted by bytes for all anchor names, one key per anchor, distinct names give distinct strictly increasing '
            'keys (names_sorted, names_strictly_sorted); /EmbeddedFiles keys sorted by '
            'bytes for all file names (embedded_files_sorted); every font draw_first_line names by Tf is registered and every '
            'registered font — with or without a drawn glyph — is a key of /Font, no KeyError (text_fonts_defined, '
            'fonts_defined, fonts_total); caches sound around the raw setters under the stacked discipline the recorded '
            'runs follow (cache_sound_scoped); Gradient.draw on any stream of any '
            'document state keeps every name defined, the soft-mask group names its own shading '
            '(gradient_resources_defined, document_resources_defined: the `refs=ok` flag of the recorded runs); '
            'draw_background_image (skipped / no-repeat / pattern layers, any image content that keeps the invariant) keeps '
            'every name defined, alone and along whole runs, and its Pattern setters follow the cache discipline '
            '(background_image_resources_defined, document_backgrounds_resources_defined, '
            'background_pattern_calls_scoped); dictionaries only grow along any scoped run (resources_only_grow); the /W '
            'array of a CID font decodes back to the width table and the /CIDSet bits are the used glyph ids '
            '(w_array_round_trip, cid_set_bits).',
    'note': 'pydyf object syntax / xref / trailer / compression, font embedding (fontTools) and XMP metadata are checked '
            'only by the independent reader (py/harness/pdfread.py) on generated documents, not modelled. Skeleton '
            'theorem: delegated drawing restricted to calls on the current stream (streams created by images / '
            'gradients are covered per stream by `balanced` and by the recorded-call correspondence). Operand types are '
            'pydyf formatting; operand counts are checked against Annex A by the checker.',
}
